// Minimal JSON value + writer (no dependencies available/needed).
pub enum J {
    Null,
    Bool(bool),
    Int(i128),
    Str(String),
    Arr(Vec<J>),
    Obj(Vec<(&'static str, J)>),
}

impl J {
    pub fn s<S: Into<String>>(s: S) -> J {
        J::Str(s.into())
    }
    pub fn i<T: TryInto<i128>>(v: T) -> J {
        match v.try_into() {
            Ok(x) => J::Int(x),
            Err(_) => J::Null,
        }
    }
    pub fn opt(v: Option<J>) -> J {
        v.unwrap_or(J::Null)
    }
    pub fn write(&self, out: &mut String) {
        match self {
            J::Null => out.push_str("null"),
            J::Bool(b) => out.push_str(if *b { "true" } else { "false" }),
            J::Int(i) => out.push_str(&i.to_string()),
            J::Str(s) => write_str(s, out),
            J::Arr(v) => {
                out.push('[');
                for (k, x) in v.iter().enumerate() {
                    if k > 0 {
                        out.push(',');
                    }
                    x.write(out);
                }
                out.push(']');
            }
            J::Obj(v) => {
                out.push('{');
                let mut first = true;
                for (k, x) in v.iter() {
                    if !first {
                        out.push(',');
                    }
                    first = false;
                    write_str(k, out);
                    out.push(':');
                    x.write(out);
                }
                out.push('}');
            }
        }
    }
}

fn write_str(s: &str, out: &mut String) {
    out.push('"');
    for c in s.chars() {
        match c {
            '"' => out.push_str("\\\""),
            '\\' => out.push_str("\\\\"),
            '\n' => out.push_str("\\n"),
            '\r' => out.push_str("\\r"),
            '\t' => out.push_str("\\t"),
            c if (c as u32) < 0x20 => out.push_str(&format!("\\u{:04x}", c as u32)),
            c => out.push(c),
        }
    }
    out.push('"');
}

#[macro_export]
macro_rules! obj {
    ($($k:literal : $v:expr),* $(,)?) => {
        $crate::json::J::Obj(vec![$(($k, $v)),*])
    };
}
