// rdx — fact extractor for the static verification of rand_distr.
//
// A rustc_private driver used as RUSTC_WORKSPACE_WRAPPER.  For the crate named by RDX_CRATE
// (default `rand_distr`) it writes one JSON fact file (RDX_OUT) containing
//   * every monomorphic instance reachable from the crate's fn-like items (resolved callees),
//     with the complete MIR of crate-local instances and shims, and a names-only summary
//     (callees, statics, effects) of dependency instances whose MIR rustc makes available;
//   * ADTs, impls, statics (with evaluated f64 tables), unsafe sites;
//   * the attributes of every struct/enum/field/variant as found in the expanded AST.
// For every other crate it behaves exactly like rustc.
#![feature(rustc_private)]
#![allow(clippy::all)]

extern crate rustc_abi;
extern crate rustc_ast;
extern crate rustc_ast_pretty;
extern crate rustc_data_structures;
extern crate rustc_driver;
extern crate rustc_hir;
extern crate rustc_interface;
extern crate rustc_middle;
extern crate rustc_session;
extern crate rustc_span;

mod json;
mod walk;

use json::J;
use rustc_driver::Compilation;
use rustc_interface::interface;
use rustc_middle::ty::TyCtxt;

struct Cb {
    ast: Vec<J>,
    crate_attrs: Vec<J>,
}

impl rustc_driver::Callbacks for Cb {
    fn after_expansion<'tcx>(&mut self, _c: &interface::Compiler, tcx: TyCtxt<'tcx>) -> Compilation {
        let r = tcx.resolver_for_lowering().borrow();
        let krate: &rustc_ast::Crate = &r.1;
        for a in krate.attrs.iter() {
            self.crate_attrs.push(J::s(rustc_ast_pretty::pprust::attribute_to_string(a)));
        }
        let mut out = Vec::new();
        walk::ast_items(&krate.items, "", &mut out);
        self.ast = out;
        Compilation::Continue
    }

    fn after_analysis<'tcx>(&mut self, _c: &interface::Compiler, tcx: TyCtxt<'tcx>) -> Compilation {
        let out = std::env::var("RDX_OUT").expect("RDX_OUT not set");
        let facts = walk::extract(tcx, std::mem::take(&mut self.ast), std::mem::take(&mut self.crate_attrs));
        let mut s = String::with_capacity(1 << 24);
        facts.write(&mut s);
        // single write per process
        std::fs::write(&out, s).expect("cannot write RDX_OUT");
        Compilation::Continue
    }
}

struct NoCb;
impl rustc_driver::Callbacks for NoCb {}

fn main() {
    let mut args: Vec<String> = std::env::args().collect();
    // RUSTC_WORKSPACE_WRAPPER: argv[1] is the path of the real rustc
    if args.len() > 1 && (args[1].ends_with("rustc") || args[1].contains("/rustc")) {
        args.remove(1);
    }
    let want = std::env::var("RDX_CRATE").unwrap_or_else(|_| "rand_distr".to_string());
    let mut is_target = false;
    let mut i = 0;
    while i + 1 < args.len() {
        if args[i] == "--crate-name" && args[i + 1] == want {
            is_target = true;
        }
        i += 1;
    }
    // build scripts / proc-macro crates / `rustc -vV` probes are passed through untouched
    if is_target && std::env::var("RDX_OUT").is_ok() {
        let mut cb = Cb { ast: Vec::new(), crate_attrs: Vec::new() };
        rustc_driver::run_compiler(&args, &mut cb);
    } else {
        rustc_driver::run_compiler(&args, &mut NoCb);
    }
}
