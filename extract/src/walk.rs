// Fact extraction: AST attribute audit, items, and the monomorphic instance walk.
use crate::json::J;
use crate::obj;
use rustc_data_structures::fx::{FxHashMap, FxHashSet};
use rustc_hir::def::DefKind;
use rustc_hir::def_id::{DefId, LOCAL_CRATE};
use rustc_middle::mir::interpret::{GlobalAlloc, Scalar};
use rustc_middle::mir::*;
use rustc_middle::ty::print::with_no_trimmed_paths;
use rustc_middle::ty::TypeVisitableExt;
use rustc_middle::ty::{
    self, EarlyBinder, GenericArgKind, GenericArgs, GenericArgsRef, Instance, InstanceKind, Ty, TyCtxt, TypingEnv,
};
use rustc_span::Span;

// ------------------------------------------------------------------------------------------
// expanded AST: attributes of structs/enums/fields/variants (inert derive helpers live only here)
// ------------------------------------------------------------------------------------------
fn attrs_json(attrs: &[rustc_ast::Attribute]) -> J {
    J::Arr(
        attrs
            .iter()
            .filter(|a| !a.is_doc_comment())
            .map(|a| J::s(rustc_ast_pretty::pprust::attribute_to_string(a)))
            .collect(),
    )
}

fn ast_fields(vd: &rustc_ast::VariantData) -> J {
    J::Arr(
        vd.fields()
            .iter()
            .enumerate()
            .map(|(i, f)| {
                obj! {
                    "name": J::s(f.ident.map(|x| x.to_string()).unwrap_or_else(|| i.to_string())),
                    "attrs": attrs_json(&f.attrs),
                    "ty": J::s(rustc_ast_pretty::pprust::ty_to_string(&f.ty)),
                }
            })
            .collect(),
    )
}

pub fn ast_items(items: &[Box<rustc_ast::Item>], prefix: &str, out: &mut Vec<J>) {
    use rustc_ast::{ItemKind, ModKind};
    for it in items {
        match &it.kind {
            ItemKind::Mod(_, ident, ModKind::Loaded(sub, ..)) => {
                let p = if prefix.is_empty() { ident.to_string() } else { format!("{}::{}", prefix, ident) };
                ast_items(sub, &p, out);
            }
            ItemKind::Struct(ident, _, vd) => {
                out.push(obj! {
                    "path": J::s(if prefix.is_empty() { ident.to_string() } else { format!("{}::{}", prefix, ident) }),
                    "kind": J::s("struct"),
                    "attrs": attrs_json(&it.attrs),
                    "fields": ast_fields(vd),
                    "variants": J::Arr(vec![]),
                });
            }
            ItemKind::Enum(ident, _, ed) => {
                let vs = ed
                    .variants
                    .iter()
                    .map(|v| {
                        obj! {
                            "name": J::s(v.ident.to_string()),
                            "attrs": attrs_json(&v.attrs),
                            "fields": ast_fields(&v.data),
                        }
                    })
                    .collect();
                out.push(obj! {
                    "path": J::s(if prefix.is_empty() { ident.to_string() } else { format!("{}::{}", prefix, ident) }),
                    "kind": J::s("enum"),
                    "attrs": attrs_json(&it.attrs),
                    "fields": J::Arr(vec![]),
                    "variants": J::Arr(vs),
                });
            }
            ItemKind::Static(st) => {
                out.push(obj! {
                    "path": J::s(if prefix.is_empty() { st.ident.to_string() } else { format!("{}::{}", prefix, st.ident) }),
                    "kind": J::s("static"),
                    "attrs": attrs_json(&it.attrs),
                    "fields": J::Arr(vec![]),
                    "variants": J::Arr(vec![]),
                });
            }
            ItemKind::MacCall(_) | ItemKind::MacroDef(..) => {
                out.push(obj! {
                    "path": J::s(prefix.to_string()),
                    "kind": J::s("macro"),
                    "attrs": attrs_json(&it.attrs),
                    "fields": J::Arr(vec![]),
                    "variants": J::Arr(vec![]),
                });
            }
            _ => {}
        }
    }
}

// ------------------------------------------------------------------------------------------
// the extraction context
// ------------------------------------------------------------------------------------------
struct Cx<'tcx> {
    tcx: TyCtxt<'tcx>,
    types: Vec<J>,
    type_ix: FxHashMap<Ty<'tcx>, usize>,
    seen: FxHashMap<Instance<'tcx>, usize>,
    queue: Vec<(Instance<'tcx>, TypingEnv<'tcx>)>,
    instances: Vec<J>,
    float_tys: Vec<Ty<'tcx>>,
    weight_tys: Vec<Ty<'tcx>>,
    deep_external: bool,
    cur_statics: Vec<J>,
}

fn span_json(tcx: TyCtxt<'_>, sp: Span) -> J {
    let sm = tcx.sess.source_map();
    let lo = sm.lookup_char_pos(sp.lo());
    let file = match &lo.file.name {
        rustc_span::FileName::Real(r) => match r.local_path() {
            Some(p) => p.to_string_lossy().to_string(),
            None => format!("{:?}", lo.file.name),
        },
        other => format!("{:?}", other),
    };
    let mut v = vec![("file", J::s(file)), ("line", J::i(lo.line as i64)), ("col", J::i(lo.col.0 as i64 + 1))];
    if sp.from_expansion() {
        let ed = sp.ctxt().outer_expn_data();
        let name = match ed.kind {
            rustc_span::ExpnKind::Macro(_, name) => name.to_string(),
            rustc_span::ExpnKind::Desugaring(d) => format!("desugar:{:?}", d),
            rustc_span::ExpnKind::AstPass(p) => format!("astpass:{:?}", p),
            rustc_span::ExpnKind::Root => "root".to_string(),
        };
        v.push(("exp", J::s(name)));
        // the outermost call site (in user code) of the expansion
        let cs = sp.source_callsite();
        let l2 = sm.lookup_char_pos(cs.lo());
        v.push(("cs_line", J::i(l2.line as i64)));
    }
    J::Obj(v)
}

fn krate_name(tcx: TyCtxt<'_>, d: DefId) -> String {
    tcx.crate_name(d.krate).to_string()
}

fn path_of(tcx: TyCtxt<'_>, d: DefId) -> String {
    with_no_trimmed_paths!(tcx.def_path_str(d))
}

impl<'tcx> Cx<'tcx> {
    // ---------------- types ----------------
    fn ty(&mut self, t: Ty<'tcx>) -> usize {
        if let Some(&i) = self.type_ix.get(&t) {
            return i;
        }
        let ix = self.types.len();
        self.types.push(J::Null);
        self.type_ix.insert(t, ix);
        let tcx = self.tcx;
        let s = with_no_trimmed_paths!(t.to_string());
        let j = match t.kind() {
            ty::Bool => obj! {"k": J::s("bool"), "s": J::s(s)},
            ty::Char => obj! {"k": J::s("char"), "s": J::s(s)},
            ty::Int(i) => obj! {"k": J::s("int"), "signed": J::Bool(true),
            "bits": J::i(i.bit_width().unwrap_or(64) as i64), "ptr": J::Bool(i.bit_width().is_none()), "s": J::s(s)},
            ty::Uint(u) => obj! {"k": J::s("int"), "signed": J::Bool(false),
            "bits": J::i(u.bit_width().unwrap_or(64) as i64), "ptr": J::Bool(u.bit_width().is_none()), "s": J::s(s)},
            ty::Float(f) => obj! {"k": J::s("float"), "bits": J::i(f.bit_width() as i64), "s": J::s(s)},
            ty::Str => obj! {"k": J::s("str"), "s": J::s(s)},
            ty::Never => obj! {"k": J::s("never"), "s": J::s(s)},
            ty::Adt(def, args) => {
                let targs: Vec<J> = args
                    .iter()
                    .filter_map(|a| match a.kind() {
                        GenericArgKind::Type(t) => Some(J::i(self.ty(t) as i64)),
                        _ => None,
                    })
                    .collect();
                let mut variants = Vec::new();
                for v in def.variants().iter() {
                    let mut fields = Vec::new();
                    for f in v.fields.iter() {
                        let fty = f.ty(tcx, args);
                        let env = TypingEnv::fully_monomorphized();
                        let fty = tcx.try_normalize_erasing_regions(env, ty::Unnormalized::new_wip(fty)).unwrap_or(fty);
                        let fi = self.ty(fty);
                        fields.push(obj! {
                            "name": J::s(f.name.to_string()),
                            "ty": J::i(fi as i64),
                            "pub": J::Bool(f.vis.is_public()),
                        });
                    }
                    variants.push(obj! {"name": J::s(v.name.to_string()), "fields": J::Arr(fields)});
                }
                if def.is_enum() {
                    for (k, (_, d)) in def.discriminants(tcx).enumerate() {
                        if let Some(J::Obj(vv)) = variants.get_mut(k) {
                            vv.push(("discr", J::i(d.val as i128)));
                        }
                    }
                }
                let kind = if def.is_enum() {
                    "enum"
                } else if def.is_union() {
                    "union"
                } else {
                    "struct"
                };
                obj! {"k": J::s("adt"), "path": J::s(path_of(tcx, def.did())), "name": J::s(tcx.item_name(def.did()).to_string()),
                "krate": J::s(krate_name(tcx, def.did())), "adt_kind": J::s(kind), "args": J::Arr(targs),
                "variants": J::Arr(variants), "s": J::s(s),
                "unsafe_cell": J::Bool(def.is_unsafe_cell()),
                "phantom": J::Bool(def.is_phantom_data()),
                "box": J::Bool(def.is_box())}
            }
            ty::Ref(_, inner, m) => {
                let i = self.ty(*inner);
                obj! {"k": J::s("ref"), "mut": J::Bool(m.is_mut()), "to": J::i(i as i64), "s": J::s(s)}
            }
            ty::RawPtr(inner, m) => {
                let i = self.ty(*inner);
                obj! {"k": J::s("rawptr"), "mut": J::Bool(m.is_mut()), "to": J::i(i as i64), "s": J::s(s)}
            }
            ty::Array(inner, len) => {
                let i = self.ty(*inner);
                let n = len.try_to_target_usize(tcx);
                obj! {"k": J::s("array"), "elem": J::i(i as i64), "len": match n { Some(n) => J::i(n as i128), None => J::Null }, "s": J::s(s)}
            }
            ty::Slice(inner) => {
                let i = self.ty(*inner);
                obj! {"k": J::s("slice"), "elem": J::i(i as i64), "s": J::s(s)}
            }
            ty::Tuple(list) => {
                let el: Vec<J> = list.iter().map(|t| J::i(self.ty(t) as i64)).collect();
                obj! {"k": J::s("tuple"), "elems": J::Arr(el), "s": J::s(s)}
            }
            ty::FnDef(d, args) => {
                let targs: Vec<J> = args
                    .iter()
                    .filter_map(|a| match a.kind() {
                        GenericArgKind::Type(t) => Some(J::i(self.ty(t) as i64)),
                        _ => None,
                    })
                    .collect();
                obj! {"k": J::s("fndef"), "path": J::s(path_of(tcx, *d)), "krate": J::s(krate_name(tcx, *d)), "args": J::Arr(targs), "s": J::s(s)}
            }
            ty::FnPtr(..) => obj! {"k": J::s("fnptr"), "s": J::s(s)},
            ty::Closure(d, args) => {
                let up: Vec<J> = args.as_closure().upvar_tys().iter().map(|t| J::i(self.ty(t) as i64)).collect();
                obj! {"k": J::s("closure"), "path": J::s(path_of(tcx, *d)), "krate": J::s(krate_name(tcx, *d)), "upvars": J::Arr(up), "s": J::s(s)}
            }
            ty::Param(p) => obj! {"k": J::s("param"), "name": J::s(p.name.to_string()), "index": J::i(p.index as i64), "s": J::s(s)},
            ty::Dynamic(..) => obj! {"k": J::s("dyn"), "s": J::s(s)},
            ty::Alias(..) => obj! {"k": J::s("alias"), "s": J::s(s)},
            ty::Foreign(_) => obj! {"k": J::s("foreign"), "s": J::s(s)},
            _ => obj! {"k": J::s("other"), "s": J::s(s)},
        };
        self.types[ix] = j;
        ix
    }

    // ---------------- places / operands / constants ----------------
    fn place(&mut self, p: &Place<'tcx>) -> J {
        let mut proj = Vec::new();
        for e in p.projection.iter() {
            let j = match e {
                ProjectionElem::Deref => obj! {"k": J::s("deref")},
                ProjectionElem::Field(f, t) => obj! {"k": J::s("field"), "i": J::i(f.as_usize() as i64), "ty": J::i(self.ty(t) as i64)},
                ProjectionElem::Index(l) => obj! {"k": J::s("index"), "local": J::i(l.as_usize() as i64)},
                ProjectionElem::ConstantIndex { offset, min_length, from_end } => {
                    obj! {"k": J::s("constindex"), "offset": J::i(offset as i128), "min_length": J::i(min_length as i128), "from_end": J::Bool(from_end)}
                }
                ProjectionElem::Subslice { from, to, from_end } => {
                    obj! {"k": J::s("subslice"), "from": J::i(from as i128), "to": J::i(to as i128), "from_end": J::Bool(from_end)}
                }
                ProjectionElem::Downcast(name, v) => {
                    obj! {"k": J::s("downcast"), "variant": J::i(v.as_usize() as i64), "name": J::opt(name.map(|n| J::s(n.to_string())))}
                }
                ProjectionElem::OpaqueCast(_) => obj! {"k": J::s("opaquecast")},
                ProjectionElem::UnwrapUnsafeBinder(_) => obj! {"k": J::s("unwrapbinder")},
            };
            proj.push(j);
        }
        obj! {"l": J::i(p.local.as_usize() as i64), "p": J::Arr(proj)}
    }

    fn fn_ref(&mut self, d: DefId, args: GenericArgsRef<'tcx>, env: TypingEnv<'tcx>, sp: Span) -> J {
        // resolved callee description; schedules the callee for walking
        let tcx = self.tcx;
        let generic_path = path_of(tcx, d);
        let shown = with_no_trimmed_paths!(tcx.def_path_str_with_args(d, args));
        let targs: Vec<J> = args
            .iter()
            .filter_map(|a| match a.kind() {
                GenericArgKind::Type(t) => Some(J::i(self.ty(t) as i64)),
                _ => None,
            })
            .collect();
        let mut v = vec![
            ("path", J::s(generic_path)),
            ("shown", J::s(shown)),
            ("krate", J::s(krate_name(tcx, d))),
            ("targs", J::Arr(targs)),
        ];
        if let Some(tr) = tcx.trait_of_assoc(d) {
            v.push(("trait", J::s(path_of(tcx, tr))));
            v.push(("method", J::s(tcx.item_name(d).to_string())));
        }
        let _ = sp;
        match tcx.def_kind(d) {
            DefKind::Ctor(..) => {
                v.push(("ctor", J::Bool(true)));
                return J::Obj(v);
            }
            _ => {}
        }
        match Instance::try_resolve(tcx, env, d, args) {
            Ok(Some(inst)) => {
                let (kind, tgt) = self.inst_kind(&inst);
                v.push(("res", J::s(kind)));
                let key = inst_key(tcx, &inst);
                v.push(("key", J::s(key)));
                v.push(("res_path", J::s(path_of(tcx, inst.def_id()))));
                v.push(("res_krate", J::s(krate_name(tcx, inst.def_id()))));
                if let Some(t) = tgt {
                    v.push(("shim_target", t));
                }
                if let Some(i) = tcx.intrinsic(inst.def_id()) {
                    v.push(("intrinsic", J::s(i.name.to_string())));
                }
                self.schedule(inst, env);
            }
            Ok(None) => {
                v.push(("res", J::s("unresolved")));
                // `rng.sample(distr)` is `distr.sample(rng)`: resolve the distribution's own sampler
                if let Some(tr) = tcx.trait_of_assoc(d) {
                    if tcx.item_name(tr).as_str() == "RngExt" && tcx.item_name(d).as_str() == "sample" && args.len() == 3 {
                        let mut dist_trait = None;
                        for p in tcx.predicates_of(d).instantiate_identity(tcx).predicates.into_iter() {
                            if let ty::ClauseKind::Trait(tp) = p.skip_norm_wip().kind().skip_binder() {
                                if tcx.item_name(tp.def_id()).as_str() == "Distribution" {
                                    dist_trait = Some(tp.def_id());
                                }
                            }
                        }
                        if let Some(dt) = dist_trait {
                            let sample_did = tcx
                                .associated_items(dt)
                                .in_definition_order()
                                .find(|it| it.name().as_str() == "sample")
                                .map(|it| it.def_id);
                            if let Some(sd) = sample_did {
                                let new_args = tcx.mk_args(&[args[2], args[1], args[0]]);
                                let r = self.fn_ref(sd, new_args, env, sp);
                                v.push(("dist_sample", r));
                            }
                        }
                    }
                }
                // provided trait methods on a type parameter: walk the default body with Self = param
                if tcx.trait_of_assoc(d).is_some() && tcx.is_mir_available(d) && tcx.defaultness(d).has_value() {
                    let inst = Instance::new_raw(d, args);
                    v.push(("key", J::s(inst_key(tcx, &inst))));
                    v.push(("provided", J::Bool(true)));
                    self.schedule(inst, env);
                }
            }
            Err(_) => {
                v.push(("res", J::s("error")));
            }
        }
        J::Obj(v)
    }

    fn inst_kind(&mut self, inst: &Instance<'tcx>) -> (&'static str, Option<J>) {
        let tcx = self.tcx;
        match inst.def {
            InstanceKind::Item(_) => ("item", None),
            InstanceKind::Intrinsic(_) => ("intrinsic", None),
            InstanceKind::VTableShim(_) => ("vtable_shim", None),
            InstanceKind::ReifyShim(..) => ("reify_shim", None),
            InstanceKind::FnPtrShim(_, t) => {
                let tgt = match t.kind() {
                    ty::FnDef(d, a) => Some(obj! {"path": J::s(path_of(tcx, *d)),
                    "shown": J::s(with_no_trimmed_paths!(tcx.def_path_str_with_args(*d, a)))}),
                    _ => None,
                };
                ("fnptr_shim", tgt)
            }
            InstanceKind::Virtual(..) => ("virtual", None),
            InstanceKind::ClosureOnceShim { .. } => ("closure_once_shim", None),
            InstanceKind::DropGlue(..) => ("drop_glue", None),
            InstanceKind::CloneShim(..) => ("clone_shim", None),
            InstanceKind::ThreadLocalShim(..) => ("thread_local_shim", None),
            _ => ("other_shim", None),
        }
    }

    fn schedule(&mut self, inst: Instance<'tcx>, env: TypingEnv<'tcx>) {
        if self.seen.contains_key(&inst) {
            return;
        }
        let ix = self.seen.len();
        self.seen.insert(inst, ix);
        self.queue.push((inst, env));
    }

    fn constant(&mut self, c: &ConstOperand<'tcx>, env: TypingEnv<'tcx>) -> J {
        let tcx = self.tcx;
        let ty = c.const_.ty();
        let tyi = self.ty(ty);
        let mut v: Vec<(&'static str, J)> = vec![("k", J::s("const")), ("ty", J::i(tyi as i64))];
        match ty.kind() {
            ty::FnDef(d, args) => {
                v.push(("fn", self.fn_ref(*d, args, env, c.span)));
                return J::Obj(v);
            }
            _ => {}
        }
        if let Const::Unevaluated(u, _) = c.const_ {
            v.push(("uneval", J::s(path_of(tcx, u.def))));
            if u.promoted.is_some() {
                v.push(("promoted", J::Bool(true)));
            }
        }
        match c.const_.eval(tcx, env, c.span) {
            Ok(ConstValue::Scalar(Scalar::Int(si))) => {
                let bits = si.to_bits(si.size());
                v.push(("bits", J::s(format!("{:#x}", bits))));
                v.push(("size", J::i(si.size().bytes() as i64)));
            }
            Ok(ConstValue::Scalar(Scalar::Ptr(ptr, _))) => {
                let (prov, off) = ptr.into_raw_parts();
                let aid = prov.alloc_id();
                v.push(("ptr_offset", J::i(off.bytes() as i64)));
                match tcx.global_alloc(aid) {
                    GlobalAlloc::Static(sd) => {
                        v.push(("static", J::s(path_of(tcx, sd))));
                        v.push(("static_krate", J::s(krate_name(tcx, sd))));
                        v.push(("static_mut", J::Bool(tcx.static_mutability(sd).map(|m| m.is_mut()).unwrap_or(false))));
                        let sty = tcx.type_of(sd).instantiate_identity().skip_norm_wip();
                        v.push(("static_freeze", J::Bool(sty.is_freeze(tcx, TypingEnv::fully_monomorphized()))));
                        v.push(("static_tls", J::Bool(tcx.is_thread_local_static(sd))));
                        self.cur_statics.push(obj! {
                            "static": J::s(path_of(tcx, sd)),
                            "static_krate": J::s(krate_name(tcx, sd)),
                            "static_mut": J::Bool(tcx.static_mutability(sd).map(|m| m.is_mut()).unwrap_or(false)),
                            "static_freeze": J::Bool(sty.is_freeze(tcx, TypingEnv::fully_monomorphized())),
                            "static_tls": J::Bool(tcx.is_thread_local_static(sd)),
                        });
                    }
                    GlobalAlloc::Memory(mem) => {
                        v.push(("mem", self.alloc_bytes(mem.inner())));
                        if let ty::Ref(_, inner, _) = ty.kind() {
                            let d = self.decode_mem(*inner, mem.inner(), off.bytes(), env, 0);
                            v.push(("val", obj! {"k": J::s("ref"), "ty": J::i(tyi as i64), "to": d}));
                        }
                    }
                    GlobalAlloc::Function { instance } => {
                        v.push(("fnptr_to", J::s(inst_key(tcx, &instance))));
                        self.schedule(instance, env);
                    }
                    GlobalAlloc::VTable(..) => v.push(("vtable", J::Bool(true))),
                    GlobalAlloc::TypeId { .. } => v.push(("typeid", J::Bool(true))),
                }
            }
            Ok(ConstValue::ZeroSized) => v.push(("zst", J::Bool(true))),
            Ok(ConstValue::Slice { alloc_id, meta }) => {
                v.push(("slice_len", J::i(meta as i128)));
                if let GlobalAlloc::Memory(mem) = tcx.global_alloc(alloc_id) {
                    let a = mem.inner();
                    let n = (meta as usize).min(a.len());
                    let bytes = a.inspect_with_uninit_and_ptr_outside_interpreter(0..n);
                    if let ty::Ref(_, inner, _) = ty.kind() {
                        if inner.is_str() {
                            v.push(("str", J::s(String::from_utf8_lossy(bytes).to_string())));
                        }
                    }
                }
            }
            Ok(ConstValue::Indirect { alloc_id, offset }) => {
                v.push(("indirect_offset", J::i(offset.bytes() as i64)));
                if let GlobalAlloc::Memory(mem) = tcx.global_alloc(alloc_id) {
                    v.push(("mem", self.alloc_bytes(mem.inner())));
                    let d = self.decode_mem(ty, mem.inner(), offset.bytes(), env, 0);
                    v.push(("val", d));
                }
            }
            Err(_) => v.push(("eval_err", J::Bool(true))),
        }
        J::Obj(v)
    }

    /// Decode a constant allocation by type (scalars, structs, tuples, small arrays, thin references).
    fn decode_mem(&mut self, ty: Ty<'tcx>, a: &rustc_middle::mir::interpret::Allocation, off: u64, env: TypingEnv<'tcx>, depth: u32) -> J {
        let tcx = self.tcx;
        if depth > 6 {
            return J::Null;
        }
        let layout = match tcx.layout_of(env.as_query_input(ty)) {
            Ok(l) => l,
            Err(_) => return J::Null,
        };
        let size = layout.size.bytes();
        if off + size > a.len() as u64 {
            return J::Null;
        }
        let tyi = self.ty(ty);
        let read = |lo: u64, n: u64| -> Option<u128> {
            let r = (lo as usize)..((lo + n) as usize);
            // refuse to read bytes that carry provenance
            for (poff, _) in a.provenance().ptrs().iter() {
                let p = poff.bytes();
                if p < lo + n && p + 8 > lo {
                    return None;
                }
            }
            let bytes = a.inspect_with_uninit_and_ptr_outside_interpreter(r);
            let mut v: u128 = 0;
            for (i, b) in bytes.iter().enumerate() {
                v |= (*b as u128) << (8 * i);
            }
            Some(v)
        };
        match ty.kind() {
            ty::Bool | ty::Int(_) | ty::Uint(_) | ty::Float(_) | ty::Char => match read(off, size) {
                Some(v) => obj! {"k": J::s("scalar"), "ty": J::i(tyi as i64), "bits": J::s(format!("{:#x}", v))},
                None => J::Null,
            },
            ty::Ref(_, inner, _) | ty::RawPtr(inner, _) => {
                if size != 8 {
                    return J::Null;
                }
                let mut out = J::Null;
                for (poff, prov) in a.provenance().ptrs().iter() {
                    if poff.bytes() == off {
                        let r = (off as usize)..((off + 8) as usize);
                        let bytes = a.inspect_with_uninit_and_ptr_outside_interpreter(r);
                        let mut v: u64 = 0;
                        for (i, b) in bytes.iter().enumerate() {
                            v |= (*b as u64) << (8 * i);
                        }
                        if let GlobalAlloc::Memory(m2) = tcx.global_alloc(prov.alloc_id()) {
                            let inner_v = self.decode_mem(*inner, m2.inner(), v, env, depth + 1);
                            out = obj! {"k": J::s("ref"), "ty": J::i(tyi as i64), "to": inner_v};
                        }
                    }
                }
                out
            }
            ty::Adt(def, args) if def.is_struct() => {
                let mut fs = Vec::new();
                for (i, f) in def.non_enum_variant().fields.iter().enumerate() {
                    let fty = f.ty(tcx, args);
                    let fty = tcx.try_normalize_erasing_regions(env, ty::Unnormalized::new_wip(fty)).unwrap_or(fty);
                    let fo = layout.fields.offset(i).bytes();
                    fs.push(self.decode_mem(fty, a, off + fo, env, depth + 1));
                }
                obj! {"k": J::s("struct"), "ty": J::i(tyi as i64), "fields": J::Arr(fs)}
            }
            ty::Tuple(tys) => {
                let mut fs = Vec::new();
                for (i, fty) in tys.iter().enumerate() {
                    let fo = layout.fields.offset(i).bytes();
                    fs.push(self.decode_mem(fty, a, off + fo, env, depth + 1));
                }
                obj! {"k": J::s("struct"), "ty": J::i(tyi as i64), "fields": J::Arr(fs)}
            }
            ty::Array(elem, n) => {
                let n = n.try_to_target_usize(tcx).unwrap_or(0);
                if n > 64 {
                    return J::Null;
                }
                let mut fs = Vec::new();
                for i in 0..n {
                    let fo = layout.fields.offset(i as usize).bytes();
                    fs.push(self.decode_mem(*elem, a, off + fo, env, depth + 1));
                }
                obj! {"k": J::s("array"), "ty": J::i(tyi as i64), "elems": J::Arr(fs)}
            }
            _ => J::Null,
        }
    }

    fn alloc_bytes(&mut self, a: &rustc_middle::mir::interpret::Allocation) -> J {
        let n = a.len();
        let has_prov = !a.provenance().ptrs().is_empty();
        let mut v = vec![("len", J::i(n as i64)), ("has_ptrs", J::Bool(has_prov)), ("mutable", J::Bool(a.mutability.is_mut()))];
        if n <= 4096 && !has_prov {
            let bytes = a.inspect_with_uninit_and_ptr_outside_interpreter(0..n);
            let mut s = String::with_capacity(2 * n);
            for b in bytes {
                s.push_str(&format!("{:02x}", b));
            }
            v.push(("hex", J::s(s)));
        }
        if has_prov {
            // pointers inside the allocation: record statics they refer to
            let mut tg = Vec::new();
            for (_, prov) in a.provenance().ptrs().iter() {
                match self.tcx.global_alloc(prov.alloc_id()) {
                    GlobalAlloc::Static(sd) => tg.push(J::s(format!("static:{}", path_of(self.tcx, sd)))),
                    GlobalAlloc::Function { instance } => tg.push(J::s(format!("fn:{}", inst_key(self.tcx, &instance)))),
                    GlobalAlloc::Memory(m2) => {
                        let a2 = m2.inner();
                        if a2.provenance().ptrs().is_empty() && a2.len() <= 256 {
                            let b2 = a2.inspect_with_uninit_and_ptr_outside_interpreter(0..a2.len());
                            tg.push(J::s(format!("mem:{}", String::from_utf8_lossy(b2))));
                        } else if a2.len() <= 4096 {
                            // nested allocation with pointers (e.g. `&[&str]`): one more level
                            let inner = self.alloc_bytes(a2);
                            let mut nested = Vec::new();
                            if let J::Obj(iv) = inner {
                                for (k, x) in iv.into_iter() {
                                    if k == "ptr_targets" {
                                        if let J::Arr(xs) = x {
                                            nested = xs;
                                        }
                                    }
                                }
                            }
                            tg.push(J::Arr(nested));
                        } else {
                            tg.push(J::s("mem"));
                        }
                    }
                    _ => tg.push(J::s("other")),
                }
            }
            v.push(("ptr_targets", J::Arr(tg)));
        }
        J::Obj(v)
    }

    fn operand(&mut self, o: &Operand<'tcx>, env: TypingEnv<'tcx>) -> J {
        match o {
            Operand::Copy(p) => {
                let mut j = self.place(p);
                if let J::Obj(ref mut v) = j {
                    v.insert(0, ("k", J::s("copy")));
                }
                j
            }
            Operand::Move(p) => {
                let mut j = self.place(p);
                if let J::Obj(ref mut v) = j {
                    v.insert(0, ("k", J::s("move")));
                }
                j
            }
            Operand::Constant(c) => self.constant(c, env),
            Operand::RuntimeChecks(rc) => obj! {"k": J::s("runtime_checks"), "which": J::s(format!("{:?}", rc))},
        }
    }

    fn rvalue(&mut self, rv: &Rvalue<'tcx>, env: TypingEnv<'tcx>) -> J {
        match rv {
            Rvalue::Use(o, _) => obj! {"k": J::s("use"), "op": self.operand(o, env)},
            Rvalue::Repeat(o, n) => {
                obj! {"k": J::s("repeat"), "op": self.operand(o, env), "n": match n.try_to_target_usize(self.tcx) { Some(x) => J::i(x as i128), None => J::Null }}
            }
            Rvalue::Ref(_, bk, p) => {
                let m = match bk {
                    BorrowKind::Shared => "shared",
                    BorrowKind::Fake(_) => "fake",
                    BorrowKind::Mut { .. } => "mut",
                };
                obj! {"k": J::s("ref"), "bk": J::s(m), "place": self.place(p)}
            }
            Rvalue::ThreadLocalRef(d) => obj! {"k": J::s("thread_local_ref"), "path": J::s(path_of(self.tcx, *d))},
            Rvalue::RawPtr(k, p) => obj! {"k": J::s("rawptr"), "kind": J::s(format!("{:?}", k)), "place": self.place(p)},
            Rvalue::Cast(ck, o, t) => {
                obj! {"k": J::s("cast"), "kind": J::s(format!("{:?}", ck)), "op": self.operand(o, env), "ty": J::i(self.ty(*t) as i64)}
            }
            Rvalue::BinaryOp(op, b) => {
                obj! {"k": J::s("binop"), "op": J::s(format!("{:?}", op)), "a": self.operand(&b.0, env), "b": self.operand(&b.1, env)}
            }
            Rvalue::UnaryOp(op, o) => obj! {"k": J::s("unop"), "op": J::s(format!("{:?}", op)), "a": self.operand(o, env)},
            Rvalue::Discriminant(p) => obj! {"k": J::s("discriminant"), "place": self.place(p)},
            Rvalue::Aggregate(kind, ops) => {
                let opsj: Vec<J> = ops.iter().map(|o| self.operand(o, env)).collect();
                let mut v = vec![("k", J::s("aggregate"))];
                match &**kind {
                    AggregateKind::Array(t) => {
                        v.push(("agg", J::s("array")));
                        v.push(("elem", J::i(self.ty(*t) as i64)));
                    }
                    AggregateKind::Tuple => v.push(("agg", J::s("tuple"))),
                    AggregateKind::Adt(d, vi, args, _, active) => {
                        v.push(("agg", J::s("adt")));
                        v.push(("path", J::s(path_of(self.tcx, *d))));
                        v.push(("variant", J::i(vi.as_usize() as i64)));
                        let adt = self.tcx.adt_def(*d);
                        v.push(("variant_name", J::s(adt.variant(*vi).name.to_string())));
                        let t = Ty::new_adt(self.tcx, adt, args);
                        v.push(("ty", J::i(self.ty(t) as i64)));
                        if let Some(a) = active {
                            v.push(("union_field", J::i(a.as_usize() as i64)));
                        }
                    }
                    AggregateKind::Closure(d, args) => {
                        v.push(("agg", J::s("closure")));
                        v.push(("path", J::s(path_of(self.tcx, *d))));
                        // the closure body itself, so that it is walked even when only called from a dependency
                        let inst = Instance::new_raw(*d, args);
                        v.push(("key", J::s(inst_key(self.tcx, &inst))));
                        self.schedule(inst, env);
                    }
                    AggregateKind::RawPtr(..) => v.push(("agg", J::s("rawptr"))),
                    _ => v.push(("agg", J::s("other"))),
                }
                v.push(("ops", J::Arr(opsj)));
                J::Obj(v)
            }
            Rvalue::CopyForDeref(p) => {
                let mut j = self.place(p);
                if let J::Obj(ref mut v) = j {
                    v.insert(0, ("k", J::s("copy")));
                }
                obj! {"k": J::s("use"), "op": j}
            }
            Rvalue::WrapUnsafeBinder(..) => obj! {"k": J::s("unknown"), "debug": J::s("WrapUnsafeBinder")},
        }
    }

    // ---------------- one instance ----------------
    fn body_json(&mut self, inst: Instance<'tcx>, env: TypingEnv<'tcx>, full: bool) -> Option<J> {
        let tcx = self.tcx;
        let did = inst.def_id();
        if let InstanceKind::Item(d) = inst.def {
            if !tcx.is_mir_available(d) {
                return None;
            }
            match tcx.def_kind(d) {
                DefKind::Fn | DefKind::AssocFn | DefKind::Closure | DefKind::Ctor(..) => {}
                _ => return None,
            }
        }
        if matches!(inst.def, InstanceKind::Intrinsic(_) | InstanceKind::Virtual(..)) {
            return None;
        }
        let body0 = tcx.instance_mir(inst.def);
        let body: Body<'tcx> = match inst.try_instantiate_mir_and_normalize_erasing_regions(
            tcx,
            env,
            EarlyBinder::bind(body0.clone()),
        ) {
            Ok(b) => b,
            Err(_) => return Some(obj! {"norm_error": J::Bool(true)}),
        };
        let _ = did;
        let mut effects: Vec<J> = Vec::new();
        let mut callees: Vec<J> = Vec::new();
        let mut blocks = Vec::new();
        let mut names: FxHashMap<usize, String> = FxHashMap::default();
        for vdi in body.var_debug_info.iter() {
            if let VarDebugInfoContents::Place(p) = &vdi.value {
                if p.projection.is_empty() {
                    names.entry(p.local.as_usize()).or_insert(vdi.name.to_string());
                }
            }
        }
        for (bbi, bb) in body.basic_blocks.iter_enumerated() {
            let _ = bbi;
            let mut stmts = Vec::new();
            for st in bb.statements.iter() {
                match &st.kind {
                    StatementKind::Assign(b) => {
                        let (pl, rv) = &**b;
                        // effects that matter to the purity argument
                        match rv {
                            Rvalue::ThreadLocalRef(d) => effects.push(obj! {"k": J::s("thread_local_ref"), "path": J::s(path_of(tcx, *d))}),
                            Rvalue::Cast(CastKind::PointerExposeProvenance, ..) => {
                                effects.push(obj! {"k": J::s("ptr_expose"), "span": span_json(tcx, st.source_info.span)})
                            }
                            _ => {}
                        }
                        if full {
                            let rvj = self.rvalue(rv, env);
                            let mut v = vec![("k", J::s("assign")), ("place", self.place(pl)), ("rv", rvj)];
                            if let Rvalue::Cast(_, o, _) = rv {
                                let from = o.ty(&body.local_decls, tcx);
                                v.push(("from_ty", J::i(self.ty(from) as i64)));
                            }
                            v.push(("span", span_json(tcx, st.source_info.span)));
                            stmts.push(J::Obj(v));
                        } else {
                            // still need to discover constants referring to statics/fns and closures
                            self.scan_rvalue(rv, env, &mut effects);
                        }
                    }
                    StatementKind::SetDiscriminant { place, variant_index } => {
                        if full {
                            stmts.push(obj! {"k": J::s("set_discriminant"), "place": self.place(place), "variant": J::i(variant_index.as_usize() as i64)});
                        }
                    }
                    StatementKind::Intrinsic(b) => {
                        if full {
                            match &**b {
                                NonDivergingIntrinsic::Assume(o) => stmts.push(obj! {"k": J::s("assume"), "op": self.operand(o, env)}),
                                NonDivergingIntrinsic::CopyNonOverlapping(_) => stmts.push(obj! {"k": J::s("unknown"), "debug": J::s("copy_nonoverlapping")}),
                            }
                        } else if let NonDivergingIntrinsic::CopyNonOverlapping(_) = &**b {
                        }
                    }
                    StatementKind::StorageLive(_)
                    | StatementKind::StorageDead(_)
                    | StatementKind::FakeRead(_)
                    | StatementKind::PlaceMention(_)
                    | StatementKind::AscribeUserType(..)
                    | StatementKind::Coverage(_)
                    | StatementKind::ConstEvalCounter
                    | StatementKind::Nop
                    | StatementKind::BackwardIncompatibleDropHint { .. } => {}
                }
            }
            let term = bb.terminator();
            let tspan = span_json(tcx, term.source_info.span);
            let tj = match &term.kind {
                TerminatorKind::Goto { target } => obj! {"k": J::s("goto"), "target": J::i(target.as_usize() as i64)},
                TerminatorKind::SwitchInt { discr, targets } => {
                    let mut ts = Vec::new();
                    for (val, t) in targets.iter() {
                        ts.push(J::Arr(vec![J::s(format!("{:#x}", val)), J::i(t.as_usize() as i64)]));
                    }
                    let dty = discr.ty(&body.local_decls, tcx);
                    if full {
                        obj! {"k": J::s("switch"), "discr": self.operand(discr, env), "discr_ty": J::i(self.ty(dty) as i64),
                        "targets": J::Arr(ts), "otherwise": J::i(targets.otherwise().as_usize() as i64), "span": tspan}
                    } else {
                        J::Null
                    }
                }
                TerminatorKind::UnwindResume => obj! {"k": J::s("resume")},
                TerminatorKind::UnwindTerminate(_) => obj! {"k": J::s("abort")},
                TerminatorKind::Return => obj! {"k": J::s("return"), "span": tspan},
                TerminatorKind::Unreachable => obj! {"k": J::s("unreachable"), "span": tspan},
                TerminatorKind::Drop { place, target, unwind, .. } => {
                    // the drop glue that will run: record its type so that Drop impls are part of the call graph
                    let pty = place.ty(&body.local_decls, tcx).ty;
                    if pty.has_non_region_param() {
                        callees.push(obj! {"kind": J::s("drop_param"), "ty": J::s(with_no_trimmed_paths!(pty.to_string()))});
                    } else if pty.needs_drop(tcx, env) {
                        let glue = Instance::resolve_drop_in_place(tcx, pty);
                        let key = inst_key(tcx, &glue);
                        callees.push(obj! {"key": J::s(key.clone()), "kind": J::s("drop")});
                        self.schedule(glue, env);
                    }
                    obj! {"k": J::s("drop"), "place": self.place(place), "target": J::i(target.as_usize() as i64),
                    "unwind": unwind_json(unwind), "ty": J::i(self.ty(pty) as i64)}
                }
                TerminatorKind::Call { func, args, destination, target, unwind, .. } => {
                    let mut fj = self.operand(func, env);
                    if !matches!(func, Operand::Constant(_)) {
                        // a call through a value of fn-item type (shims): the callee is known from the type
                        let fty = func.ty(&body.local_decls, tcx);
                        if let ty::FnDef(d, a) = fty.kind() {
                            let fr = self.fn_ref(*d, a, env, term.source_info.span);
                            if let J::Obj(ref mut v) = fj {
                                v.push(("fn", fr));
                            }
                        }
                    }
                    // summary for the call graph
                    if let J::Obj(ref v) = fj {
                        for (k, x) in v.iter() {
                            if *k == "fn" {
                                if let J::Obj(fv) = x {
                                    let mut c = Vec::new();
                                    for (kk, xx) in fv.iter() {
                                        match *kk {
                                            "key" | "path" | "res" | "krate" | "res_path" | "res_krate" | "shown" | "intrinsic" | "trait" | "method" => {
                                                c.push((*kk, clone_j(xx)))
                                            }
                                            _ => {}
                                        }
                                    }
                                    c.push(("span", span_json(tcx, term.source_info.span)));
                                    callees.push(J::Obj(c));
                                }
                            }
                        }
                    }
                    if !matches!(func, Operand::Constant(_)) && !matches!(func.ty(&body.local_decls, tcx).kind(), ty::FnDef(..)) {
                        callees.push(obj! {"indirect": J::Bool(true), "span": span_json(tcx, term.source_info.span)});
                    }
                    if full {
                        let aj: Vec<J> = args.iter().map(|a| self.operand(&a.node, env)).collect();
                        obj! {"k": J::s("call"), "func": fj, "args": J::Arr(aj), "dest": self.place(destination),
                        "target": J::opt(target.map(|t| J::i(t.as_usize() as i64))), "unwind": unwind_json(unwind), "span": tspan}
                    } else {
                        for a in args.iter() {
                            if let Operand::Constant(c) = &a.node {
                                let _ = self.constant(c, env);
                            }
                        }
                        J::Null
                    }
                }
                TerminatorKind::TailCall { func, .. } => {
                    let fj = self.operand(func, env);
                    callees.push(obj! {"tail": J::Bool(true)});
                    obj! {"k": J::s("unknown"), "debug": J::s("tailcall"), "func": fj}
                }
                TerminatorKind::Assert { cond, expected, msg, target, unwind } => {
                    if full {
                        let (kind, ops): (String, Vec<J>) = match &**msg {
                            AssertKind::BoundsCheck { len, index } => ("BoundsCheck".into(), vec![self.operand(len, env), self.operand(index, env)]),
                            AssertKind::Overflow(op, a, b) => (format!("Overflow:{:?}", op), vec![self.operand(a, env), self.operand(b, env)]),
                            AssertKind::OverflowNeg(a) => ("OverflowNeg".into(), vec![self.operand(a, env)]),
                            AssertKind::DivisionByZero(a) => ("DivisionByZero".into(), vec![self.operand(a, env)]),
                            AssertKind::RemainderByZero(a) => ("RemainderByZero".into(), vec![self.operand(a, env)]),
                            AssertKind::MisalignedPointerDereference { .. } => ("MisalignedPointerDereference".into(), vec![]),
                            AssertKind::NullPointerDereference => ("NullPointerDereference".into(), vec![]),
                            AssertKind::InvalidEnumConstruction(_) => ("InvalidEnumConstruction".into(), vec![]),
                            _ => ("Other".into(), vec![]),
                        };
                        obj! {"k": J::s("assert"), "cond": self.operand(cond, env), "expected": J::Bool(*expected), "kind": J::s(kind),
                        "ops": J::Arr(ops), "target": J::i(target.as_usize() as i64), "unwind": unwind_json(unwind), "span": tspan}
                    } else {
                        J::Null
                    }
                }
                TerminatorKind::FalseEdge { real_target, .. } => obj! {"k": J::s("goto"), "target": J::i(real_target.as_usize() as i64)},
                TerminatorKind::FalseUnwind { real_target, .. } => obj! {"k": J::s("goto"), "target": J::i(real_target.as_usize() as i64)},
                TerminatorKind::InlineAsm { .. } => {
                    effects.push(obj! {"k": J::s("inline_asm"), "span": span_json(tcx, term.source_info.span)});
                    obj! {"k": J::s("unknown"), "debug": J::s("inline_asm")}
                }
                TerminatorKind::Yield { .. } | TerminatorKind::CoroutineDrop => obj! {"k": J::s("unknown"), "debug": J::s("coroutine")},
            };
            if full {
                blocks.push(obj! {"stmts": J::Arr(stmts), "term": tj, "cleanup": J::Bool(bb.is_cleanup)});
            }
        }
        let mut v: Vec<(&'static str, J)> = Vec::new();
        v.push(("callees", J::Arr(callees)));
        v.push(("effects", J::Arr(effects)));
        if full {
            let mut locals = Vec::new();
            for (li, ld) in body.local_decls.iter_enumerated() {
                let mut lv = vec![("ty", J::i(self.ty(ld.ty) as i64))];
                if let Some(n) = names.get(&li.as_usize()) {
                    lv.push(("name", J::s(n.clone())));
                }
                if ld.mutability.is_mut() {
                    lv.push(("mut", J::Bool(true)));
                }
                locals.push(J::Obj(lv));
            }
            v.push(("arg_count", J::i(body.arg_count as i64)));
            v.push(("locals", J::Arr(locals)));
            v.push(("blocks", J::Arr(blocks)));
            if let Some(sa) = body.spread_arg {
                v.push(("spread_arg", J::i(sa.as_usize() as i64)));
            }
        }
        Some(J::Obj(v))
    }

    fn scan_rvalue(&mut self, rv: &Rvalue<'tcx>, env: TypingEnv<'tcx>, _effects: &mut Vec<J>) {
        // names-only mode: constants may name statics, function pointers; closures must be scheduled
        let mut ops: Vec<&Operand<'tcx>> = Vec::new();
        match rv {
            Rvalue::Use(o, _) | Rvalue::Repeat(o, _) | Rvalue::Cast(_, o, _) | Rvalue::UnaryOp(_, o) => ops.push(o),
            Rvalue::BinaryOp(_, b) => {
                ops.push(&b.0);
                ops.push(&b.1);
            }
            Rvalue::Aggregate(kind, os) => {
                if let AggregateKind::Closure(d, args) = &**kind {
                    let inst = Instance::new_raw(*d, args);
                    self.schedule(inst, env);
                }
                for o in os.iter() {
                    ops.push(o);
                }
            }
            _ => {}
        }
        for o in ops {
            if let Operand::Constant(c) = o {
                let _ = self.constant(c, env);
            }
        }
    }
}

/// Small generic helpers of core whose bodies the abstract interpreter analyses instead of axiomatising.
fn full_external(path: &str) -> bool {
    const PREFIXES: [&str; 12] = [
        "core::option::Option::<T>::",
        "core::result::Result::<T, E>::",
        "<core::option::Option<T> as core::ops::Try>::",
        "<core::result::Result<T, E> as core::ops::Try>::",
        "<core::option::Option<T> as core::ops::FromResidual",
        "<core::result::Result<T, F> as core::ops::FromResidual",
        "core::option::Option::<&T>::",
        "core::option::Option::<&mut T>::",
        "<T as core::convert::From<T>>::from",
        "<T as core::convert::Into<U>>::into",
        "core::cmp::max",
        "core::cmp::min",
    ];
    PREFIXES.iter().any(|p| path.starts_with(p))
}

fn unwind_json(u: &UnwindAction) -> J {
    match u {
        UnwindAction::Continue => J::s("continue"),
        UnwindAction::Unreachable => J::s("unreachable"),
        UnwindAction::Terminate(_) => J::s("terminate"),
        UnwindAction::Cleanup(b) => J::i(b.as_usize() as i64),
    }
}

fn clone_j(j: &J) -> J {
    match j {
        J::Null => J::Null,
        J::Bool(b) => J::Bool(*b),
        J::Int(i) => J::Int(*i),
        J::Str(s) => J::Str(s.clone()),
        J::Arr(v) => J::Arr(v.iter().map(clone_j).collect()),
        J::Obj(v) => J::Obj(v.iter().map(|(k, x)| (*k, clone_j(x))).collect()),
    }
}

fn inst_key<'tcx>(_tcx: TyCtxt<'tcx>, inst: &Instance<'tcx>) -> String {
    let base = with_no_trimmed_paths!(inst.to_string());
    base
}

// ------------------------------------------------------------------------------------------
// root enumeration
// ------------------------------------------------------------------------------------------
fn bounds_of<'tcx>(tcx: TyCtxt<'tcx>, d: DefId) -> FxHashMap<u32, FxHashSet<String>> {
    let mut m: FxHashMap<u32, FxHashSet<String>> = FxHashMap::default();
    let preds = tcx.predicates_of(d).instantiate_identity(tcx);
    for p in preds.predicates.into_iter() {
        let c = p.skip_norm_wip();
        if let ty::ClauseKind::Trait(tp) = c.kind().skip_binder() {
            if let ty::Param(pt) = tp.self_ty().kind() {
                m.entry(pt.index).or_default().insert(tcx.item_name(tp.def_id()).to_string());
            }
        }
    }
    m
}

fn root_assignments<'tcx>(cx: &Cx<'tcx>, d: DefId) -> Vec<GenericArgsRef<'tcx>> {
    let tcx = cx.tcx;
    let bounds = bounds_of(tcx, d);
    // which params vary
    let generics = tcx.generics_of(d);
    let mut vary: Vec<(u32, Vec<Ty<'tcx>>)> = Vec::new();
    let mut into_iter: Vec<u32> = Vec::new();
    let mut weight_param: Option<u32> = None;
    let n = generics.count();
    for i in 0..n {
        let p = generics.param_at(i, tcx);
        if let ty::GenericParamDefKind::Type { .. } = p.kind {
            let empty = FxHashSet::default();
            let b = bounds.get(&p.index).unwrap_or(&empty);
            if b.contains("Float") {
                vary.push((p.index, cx.float_tys.clone()));
            } else if b.contains("Weight") || b.contains("AliasableWeight") {
                vary.push((p.index, cx.weight_tys.clone()));
                weight_param = Some(p.index);
            } else if b.contains("IntoIterator") {
                into_iter.push(p.index);
            }
        }
    }
    // cartesian product
    let mut combos: Vec<FxHashMap<u32, Ty<'tcx>>> = vec![FxHashMap::default()];
    for (idx, tys) in vary.iter() {
        let mut next = Vec::new();
        for c in combos.iter() {
            for t in tys.iter() {
                let mut c2 = c.clone();
                c2.insert(*idx, *t);
                next.push(c2);
            }
        }
        combos = next;
    }
    let vec_did = tcx.get_diagnostic_item(rustc_span::sym::Vec);
    let mut out = Vec::new();
    for c in combos {
        let mut c = c;
        for ii in into_iter.iter() {
            if let (Some(wp), Some(vd)) = (weight_param, vec_did) {
                if let Some(w) = c.get(&wp).copied() {
                    let adt = tcx.adt_def(vd);
                    let global = tcx.type_of(generics_default_alloc(tcx, vd)).instantiate_identity().skip_norm_wip();
                    let args = tcx.mk_args(&[w.into(), global.into()]);
                    c.insert(*ii, Ty::new_adt(tcx, adt, args));
                }
            }
        }
        let args = GenericArgs::for_item(tcx, d, |param, _| match param.kind {
            ty::GenericParamDefKind::Type { .. } => match c.get(&param.index) {
                Some(t) => (*t).into(),
                None => tcx.mk_param_from_def(param),
            },
            ty::GenericParamDefKind::Lifetime => tcx.lifetimes.re_erased.into(),
            _ => tcx.mk_param_from_def(param),
        });
        if tcx.instantiate_and_check_impossible_predicates((d, args)) {
            continue;
        }
        out.push(args);
    }
    out
}

fn generics_default_alloc<'tcx>(tcx: TyCtxt<'tcx>, vec_did: DefId) -> DefId {
    // the DefId of `alloc::alloc::Global`, found as the default of Vec's second parameter
    let g = tcx.generics_of(vec_did);
    let p = g.param_at(1, tcx);
    let dflt = p.default_value(tcx).expect("Vec<T, A = Global>").instantiate_identity().skip_norm_wip();
    match dflt.expect_ty().kind() {
        ty::Adt(a, _) => a.did(),
        _ => panic!("Global not an ADT"),
    }
}

// ------------------------------------------------------------------------------------------
// items
// ------------------------------------------------------------------------------------------
struct UnsafeFinder<'tcx> {
    tcx: TyCtxt<'tcx>,
    out: Vec<J>,
}

impl<'tcx> rustc_hir::intravisit::Visitor<'tcx> for UnsafeFinder<'tcx> {
    type NestedFilter = rustc_middle::hir::nested_filter::All;
    fn maybe_tcx(&mut self) -> Self::MaybeTyCtxt {
        self.tcx
    }
    fn visit_block(&mut self, b: &'tcx rustc_hir::Block<'tcx>) {
        if let rustc_hir::BlockCheckMode::UnsafeBlock(src) = b.rules {
            self.out.push(obj! {"kind": J::s("unsafe_block"), "source": J::s(format!("{:?}", src)), "span": span_json(self.tcx, b.span)});
        }
        rustc_hir::intravisit::walk_block(self, b);
    }
    fn visit_item(&mut self, it: &'tcx rustc_hir::Item<'tcx>) {
        match &it.kind {
            rustc_hir::ItemKind::Impl(im) => {
                if let Some(tr) = im.of_trait {
                    if matches!(tr.safety, rustc_hir::Safety::Unsafe) {
                        self.out.push(obj! {"kind": J::s("unsafe_impl"), "span": span_json(self.tcx, it.span)});
                    }
                }
            }
            rustc_hir::ItemKind::Fn { sig, .. } => {
                if sig.header.is_unsafe() {
                    self.out.push(obj! {"kind": J::s("unsafe_fn"), "span": span_json(self.tcx, it.span)});
                }
            }
            rustc_hir::ItemKind::Trait { safety, .. } => {
                if matches!(safety, rustc_hir::Safety::Unsafe) {
                    self.out.push(obj! {"kind": J::s("unsafe_trait"), "span": span_json(self.tcx, it.span)});
                }
            }
            rustc_hir::ItemKind::ForeignMod { .. } => {
                self.out.push(obj! {"kind": J::s("foreign_mod"), "span": span_json(self.tcx, it.span)});
            }
            _ => {}
        }
        rustc_hir::intravisit::walk_item(self, it);
    }
    fn visit_impl_item(&mut self, it: &'tcx rustc_hir::ImplItem<'tcx>) {
        if let rustc_hir::ImplItemKind::Fn(sig, _) = &it.kind {
            if sig.header.is_unsafe() {
                self.out.push(obj! {"kind": J::s("unsafe_fn"), "span": span_json(self.tcx, it.span)});
            }
        }
        rustc_hir::intravisit::walk_impl_item(self, it);
    }
}

pub fn extract<'tcx>(tcx: TyCtxt<'tcx>, ast: Vec<J>, crate_attrs: Vec<J>) -> J {
    let weights_env = std::env::var("RDX_WEIGHTS").unwrap_or_else(|_| "u32,i32,f64".to_string());
    let mut weight_tys = Vec::new();
    for w in weights_env.split(',') {
        let t = match w.trim() {
            "u8" => tcx.types.u8,
            "u16" => tcx.types.u16,
            "u32" => tcx.types.u32,
            "u64" => tcx.types.u64,
            "u128" => tcx.types.u128,
            "usize" => tcx.types.usize,
            "i8" => tcx.types.i8,
            "i16" => tcx.types.i16,
            "i32" => tcx.types.i32,
            "i64" => tcx.types.i64,
            "i128" => tcx.types.i128,
            "isize" => tcx.types.isize,
            "f32" => tcx.types.f32,
            "f64" => tcx.types.f64,
            _ => continue,
        };
        weight_tys.push(t);
    }
    let mut cx = Cx {
        tcx,
        types: Vec::new(),
        type_ix: FxHashMap::default(),
        seen: FxHashMap::default(),
        queue: Vec::new(),
        instances: Vec::new(),
        float_tys: vec![tcx.types.f32, tcx.types.f64],
        weight_tys,
        deep_external: std::env::var("RDX_DEEP").map(|v| v != "0").unwrap_or(true),
        cur_statics: Vec::new(),
    };

    // ---- ADTs, impls, statics ----
    let mut adts = Vec::new();
    let mut statics = Vec::new();
    let mut consts = Vec::new();
    let mut fns = Vec::new();
    let mut traits = Vec::new();
    let ev = tcx.effective_visibilities(());
    for id in tcx.hir_free_items() {
        let ldid = id.owner_id.def_id;
        let did = ldid.to_def_id();
        match tcx.def_kind(did) {
            DefKind::Struct | DefKind::Enum | DefKind::Union => {
                let adt = tcx.adt_def(did);
                let ident_args = GenericArgs::identity_for_item(tcx, did);
                let mut variants = Vec::new();
                for v in adt.variants().iter() {
                    let mut fields = Vec::new();
                    for f in v.fields.iter() {
                        let fty = f.ty(tcx, ident_args);
                        fields.push(obj! {
                            "name": J::s(f.name.to_string()),
                            "ty": J::s(with_no_trimmed_paths!(fty.to_string())),
                            "pub": J::Bool(f.vis.is_public()),
                        });
                    }
                    variants.push(obj! {"name": J::s(v.name.to_string()), "fields": J::Arr(fields),
                    "doc": J::s(doc_of(tcx, v.def_id))});
                }
                let generics = tcx.generics_of(did);
                let gnames: Vec<J> = (0..generics.count()).map(|i| J::s(generics.param_at(i, tcx).name.to_string())).collect();
                adts.push(obj! {
                    "path": J::s(path_of(tcx, did)),
                    "name": J::s(tcx.item_name(did).to_string()),
                    "kind": J::s(if adt.is_enum() { "enum" } else if adt.is_union() { "union" } else { "struct" }),
                    "generics": J::Arr(gnames),
                    "pub": J::Bool(ev.is_reachable(ldid)),
                    "variants": J::Arr(variants),
                    "span": span_json(tcx, tcx.def_span(did)),
                    "doc": J::s(doc_of(tcx, did)),
                });
            }
            DefKind::Static { .. } => {
                let ty = tcx.type_of(did).instantiate_identity().skip_norm_wip();
                let mut v = vec![
                    ("path", J::s(path_of(tcx, did))),
                    ("ty", J::s(with_no_trimmed_paths!(ty.to_string()))),
                    ("mutable", J::Bool(tcx.static_mutability(did).map(|m| m.is_mut()).unwrap_or(false))),
                    ("freeze", J::Bool(ty.is_freeze(tcx, TypingEnv::fully_monomorphized()))),
                    ("thread_local", J::Bool(tcx.is_thread_local_static(did))),
                    ("span", span_json(tcx, tcx.def_span(did))),
                ];
                if let Ok(alloc) = tcx.eval_static_initializer(did) {
                    let a = alloc.inner();
                    let n = a.len();
                    let bytes = a.inspect_with_uninit_and_ptr_outside_interpreter(0..n);
                    if let ty::Array(et, _) = ty.kind() {
                        if et.is_floating_point() {
                            let w = if *et == tcx.types.f64 { 8 } else { 4 };
                            let mut vals = Vec::new();
                            let mut k = 0;
                            while k + w <= n {
                                let mut bits: u64 = 0;
                                for b in 0..w {
                                    bits |= (bytes[k + b] as u64) << (8 * b);
                                }
                                vals.push(J::s(format!("{:#x}", bits)));
                                k += w;
                            }
                            v.push(("float_bits", J::Arr(vals)));
                            v.push(("float_width", J::i(w as i64)));
                        }
                    }
                    v.push(("size", J::i(n as i64)));
                    v.push(("has_ptrs", J::Bool(!a.provenance().ptrs().is_empty())));
                }
                statics.push(J::Obj(v));
            }
            DefKind::Const { .. } => {
                let ty = tcx.type_of(did).instantiate_identity().skip_norm_wip();
                let mut v = vec![
                    ("path", J::s(path_of(tcx, did))),
                    ("ty", J::s(with_no_trimmed_paths!(ty.to_string()))),
                    ("span", span_json(tcx, tcx.def_span(did))),
                ];
                if tcx.generics_of(did).count() == 0 {
                    if let Ok(val) = tcx.const_eval_poly(did) {
                        if let Some(si) = val.try_to_scalar_int() {
                            v.push(("bits", J::s(format!("{:#x}", si.to_bits(si.size())))));
                        }
                    }
                }
                consts.push(J::Obj(v));
            }
            DefKind::Trait => {
                let items: Vec<J> = tcx
                    .associated_items(did)
                    .in_definition_order()
                    .map(|it| obj! {"name": J::s(it.name().to_string()), "kind": J::s(format!("{:?}", it.tag())),
                    "has_default": J::Bool(it.defaultness(tcx).has_value())})
                    .collect();
                traits.push(obj! {"path": J::s(path_of(tcx, did)), "items": J::Arr(items), "pub": J::Bool(ev.is_reachable(ldid))});
            }
            _ => {}
        }
    }

    // impls (including those generated inside `const _: () = {..}` by derives)
    let mut impls = Vec::new();
    for id in tcx.hir_crate_items(()).definitions() {
        let did = id.to_def_id();
        if let DefKind::Impl { of_trait } = tcx.def_kind(did) {
            let self_ty = tcx.type_of(did).instantiate_identity().skip_norm_wip();
            let self_adt = match self_ty.kind() {
                ty::Adt(a, _) => Some(path_of(tcx, a.did())),
                _ => None,
            };
            let mut v = vec![
                ("self_ty", J::s(with_no_trimmed_paths!(self_ty.to_string()))),
                ("self_adt", J::opt(self_adt.map(J::s))),
                ("derived", J::Bool(tcx.is_automatically_derived(did))),
                ("span", span_json(tcx, tcx.def_span(did))),
            ];
            if of_trait {
                let tr = tcx.impl_trait_ref(did).instantiate_identity().skip_norm_wip();
                v.push(("trait", J::s(path_of(tcx, tr.def_id))));
                v.push(("trait_ref", J::s(with_no_trimmed_paths!(tr.to_string()))));
                v.push(("trait_krate", J::s(krate_name(tcx, tr.def_id))));
            }
            let items: Vec<J> = tcx
                .associated_items(did)
                .in_definition_order()
                .map(|it| {
                    obj! {"name": J::s(it.name().to_string()), "kind": J::s(format!("{:?}", it.tag())),
                    "path": J::s(path_of(tcx, it.def_id)),
                    "pub": J::Bool(it.def_id.as_local().map(|l| ev.is_reachable(l)).unwrap_or(false))}
                })
                .collect();
            v.push(("items", J::Arr(items)));
            // where-clauses of the impl, as text (serde bound audit)
            let preds = tcx.predicates_of(did).instantiate_identity(tcx);
            let ps: Vec<J> = preds
                .predicates
                .into_iter()
                .map(|p| J::s(with_no_trimmed_paths!(p.skip_norm_wip().to_string())))
                .collect();
            v.push(("predicates", J::Arr(ps)));
            impls.push(J::Obj(v));
        }
    }

    // unsafe sites
    let mut uf = UnsafeFinder { tcx, out: Vec::new() };
    tcx.hir_walk_toplevel_module(&mut uf);
    let unsafe_sites = uf.out;

    // ---- roots ----
    let mut roots = Vec::new();
    for ldid in tcx.hir_body_owners() {
        let did = ldid.to_def_id();
        match tcx.def_kind(did) {
            DefKind::Fn | DefKind::AssocFn => {}
            _ => continue,
        }
        // methods declared in a trait of this crate have a `Self` parameter: reached through calls only
        if tcx.trait_of_assoc(did).is_some() {
            continue;
        }
        let vis_pub = ev.is_reachable(ldid);
        let mut impl_trait = None;
        let mut impl_self = None;
        let mut derived = false;
        if let Some(imp) = tcx.impl_of_assoc(did) {
            if tcx.impl_is_of_trait(imp) {
                let tr = tcx.impl_trait_ref(imp).instantiate_identity().skip_norm_wip();
                impl_trait = Some(path_of(tcx, tr.def_id));
            }
            let st = tcx.type_of(imp).instantiate_identity().skip_norm_wip();
            if let ty::Adt(a, _) = st.kind() {
                impl_self = Some(path_of(tcx, a.did()));
            } else {
                impl_self = Some(with_no_trimmed_paths!(st.to_string()));
            }
            derived = tcx.is_automatically_derived(imp);
        }
        let assigns = root_assignments(&cx, did);
        for args in assigns {
            let inst = Instance::new_raw(did, args);
            let env = TypingEnv::post_analysis(tcx, did);
            let key = inst_key(tcx, &inst);
            roots.push(obj! {
                "key": J::s(key),
                "path": J::s(path_of(tcx, did)),
                "name": J::s(tcx.item_name(did).to_string()),
                "pub": J::Bool(vis_pub),
                "impl_trait": J::opt(impl_trait.clone().map(J::s)),
                "impl_self": J::opt(impl_self.clone().map(J::s)),
                "derived": J::Bool(derived),
                "span": span_json(tcx, tcx.def_span(did)),
            });
            cx.schedule(inst, env);
        }
    }

    // ---- walk ----
    while let Some((inst, env)) = cx.queue.pop() {
        let did = inst.def_id();
        let local = did.krate == LOCAL_CRATE;
        let is_shim = !matches!(inst.def, InstanceKind::Item(_));
        let small_shim = matches!(
            inst.def,
            InstanceKind::FnPtrShim(..) | InstanceKind::ClosureOnceShim { .. } | InstanceKind::ReifyShim(..) | InstanceKind::CloneShim(..)
        );
        let full = (local && !is_shim) || small_shim || (!is_shim && full_external(&path_of(tcx, did)));
        if !full && !cx.deep_external {
            continue;
        }
        let key = inst_key(tcx, &inst);
        let (kind, _) = cx.inst_kind(&inst);
        let mut v: Vec<(&'static str, J)> = vec![
            ("key", J::s(key)),
            ("path", J::s(path_of(tcx, did))),
            ("krate", J::s(krate_name(tcx, did))),
            ("kind", J::s(kind)),
            ("local", J::Bool(local)),
            ("full", J::Bool(full)),
        ];
        if let InstanceKind::DropGlue(_, Some(t)) = inst.def {
            v.push(("drop_ty", J::s(with_no_trimmed_paths!(t.to_string()))));
        }
        let targs: Vec<J> = inst
            .args
            .iter()
            .filter_map(|a| match a.kind() {
                GenericArgKind::Type(t) => Some(J::i(cx.ty(t) as i64)),
                _ => None,
            })
            .collect();
        v.push(("targs", J::Arr(targs)));
        if local && !is_shim {
            v.push(("span", span_json(tcx, tcx.def_span(did))));
            if let Some(imp) = tcx.impl_of_assoc(did) {
                if tcx.impl_is_of_trait(imp) {
                    let tr = tcx.impl_trait_ref(imp).instantiate_identity().skip_norm_wip();
                    v.push(("impl_trait", J::s(path_of(tcx, tr.def_id))));
                }
                v.push(("derived", J::Bool(tcx.is_automatically_derived(imp))));
            }
            if matches!(tcx.def_kind(did), DefKind::Closure) {
                v.push(("closure_of", J::s(path_of(tcx, tcx.typeck_root_def_id(did)))));
            }
        }
        cx.cur_statics.clear();
        match cx.body_json(inst, env, full) {
            Some(J::Obj(bv)) => {
                v.extend(bv);
                v.push(("has_mir", J::Bool(true)));
                v.push(("static_refs", J::Arr(std::mem::take(&mut cx.cur_statics))));
            }
            _ => {
                v.push(("has_mir", J::Bool(false)));
                if let Some(i) = tcx.intrinsic(did) {
                    v.push(("intrinsic", J::s(i.name.to_string())));
                }
                if tcx.is_foreign_item(did) {
                    v.push(("foreign", J::Bool(true)));
                }
            }
        }
        cx.instances.push(J::Obj(v));
    }

    let meta = obj! {
        "nonce": J::s(std::env::var("RDX_NONCE").unwrap_or_default()),
        "rustc": J::s(rustc_interface::util::rustc_version_str().unwrap_or("unknown").to_string()),
        "crate": J::s(tcx.crate_name(LOCAL_CRATE).to_string()),
        "weights": J::s(weights_env),
        "overflow_checks": J::Bool(tcx.sess.overflow_checks()),
        "debug_assertions": J::Bool(tcx.sess.opts.debug_assertions),
        "features": J::Arr(tcx.sess.opts.cg.target_feature.split(',').map(J::s).collect()),
        "cfg": J::Arr({
            let mut c: Vec<String> = tcx.sess.config.iter().filter_map(|(k, v)| {
                if k.as_str() == "feature" { v.map(|x| x.to_string()) } else { None }
            }).collect();
            c.sort();
            c.into_iter().map(J::s).collect()
        }),
        "crate_attrs": J::Arr(crate_attrs),
    };
    obj! {
        "meta": meta,
        "ast_items": J::Arr(ast),
        "adts": J::Arr(adts),
        "impls": J::Arr(impls),
        "statics": J::Arr(statics),
        "consts": J::Arr(consts),
        "traits": J::Arr(traits),
        "fns": J::Arr(fns),
        "unsafe": J::Arr(unsafe_sites),
        "roots": J::Arr(roots),
        "types": J::Arr(std::mem::take(&mut cx.types)),
        "instances": J::Arr(std::mem::take(&mut cx.instances)),
    }
}

fn doc_of(tcx: TyCtxt<'_>, d: DefId) -> String {
    let mut s = String::new();
    #[allow(deprecated)]
    for a in tcx.get_all_attrs(d) {
        if let Some((sym, _)) = a.doc_str_and_fragment_kind() {
            s.push_str(sym.as_str());
            s.push('\n');
        }
    }
    s
}
