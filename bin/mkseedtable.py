#!/usr/bin/env python3
"""Prints the table of DESIGN.md 11.4 from seeded/*/meta.json (which check catches which independently seeded change)."""
import glob
import json
import os
import re

VERIF = os.path.dirname(os.path.dirname(os.path.abspath(__file__)))

# one line per seed: what the change is (from the sub-agent's NOTES.md, shortened by hand)
WHAT = {
    "C01-exp1_tail_reuse": "Exp1 tail computed from the strip uniform (reaches Exp, Gamma(1), ChiSquared(2))",
    "C01-lognormal_mean_cv": "LogNormal::from_mean_cv: mu = ln(mean) - sigma/2 instead of sigma^2/2",
    "C01-skew_normal_reflect": "SkewNormal negative shapes via |shape| and a sign flip applied after the affine map",
    "C10-leaf_cutoff": "try_sample leaf fast path that treats a node with a left child only as a leaf (even lengths)",
    "C10-update_overflow_walk": "update drops the overflow pre-check and propagates the error from inside the walk",
    "C10-single_fastpath": "try_sample returns Ok(0) for a one-element tree before the zero-total guard",
    "C12-circle_retry_reuse": "UnitCircle redraws only one coordinate after a rejection",
    "C12-sphere_rim_margin": "UnitSphere accepts only sum < 1 - sqrt(epsilon) (a polar cap is lost in f32)",
    "C12-ball_inscribed_cube": "UnitBall early accept inside a cube of half-side 1/sqrt(2) (corners outside the ball)",
    "C13-cauchy_pole_reflection": "Cauchy uses the reflection identity near the pole: -inf at u = 1/2",
    "C13-frechet_redundant_parens": "Frechet: -x.ln().powf(e) parses as -((ln x)^e)",
    "C13-weibull_upper_tail_series": "Weibull replaces -ln(x) near 1 by the series h - h^2/2 (wrong sign of the second term)",
    "C02-binv_support_bound": "BINV restart guard bounded by min(n, 110) with `>=`: the top of the support is never compared with u (Binomial(1, 1/2) is always 0)",
    "C02-poisson_fresh_quotient_variate": "Poisson PD step Q draws a fresh uniform instead of reusing step S's (left tail too heavy for lambda >= 12)",
    "C02-zipf_s1_hat_area": "Zipf::new, s = 1: hat area ln(1 + n) (`ln_1p`) instead of 1 + ln n",
    "C03-binv_cutoff": "BINV/BTPE cutoff moved so that BINV runs with large n·p",
    "C03-zeta_uniform": "Zeta draws u from [0,1) instead of (0,1]",
    "C03-btpe_checked_cast": "BTPE region 4 uses the asserting f64_to_u64 on an infinite proposal",
    "C03-invgauss_conjugate": "InverseGaussian root in conjugate form: 0/0 when the normal draw is exactly 0",
    "C03-zipf_ceil": "Zipf x = ceil(inv_b): 0 when the proposal draw is 0",
    "C04-chi_squared_dof_check": "ChiSquared::new dof test weakened",
    "C04-nig_gamma_factorized": "NormalInverseGaussian::new computes gamma as sqrt(a-b)·sqrt(a+b) (NaN/inf for some valid pairs)",
    "C04-hypergeo_double_sample": "Hypergeometric::new order of checks / doubled sample test",
    "C04-pert_shape0_shortcut": "Pert builder shortcut for shape 0",
    "C04-poisson_check_order": "Poisson::new tests MAX_LAMBDA before positivity",
    "C05-beta_nan_escape": "Beta rejection loop: NaN comparison no longer leaves the loop",
    "C05-zeta_reference_form": "Zeta loop in the reference form without the infinite-proposal return",
    "C05-hin_unbounded_walk": "HIN walk `while u > p` without the x < k bound",
    "C05-stdgeo_stale_word": "StandardGeometric reuses a stale word inside its loop",
    "C05-zeta_hoisted_escape": "Zeta's infinite-proposal test hoisted out of the loop",
    "C06-norm_x1_typo": "ZIG_NORM_X[1] with two digits transposed",
    "C06-normal_tail_accept": "Marsaglia tail loop rewritten with the acceptance test inverted",
    "C06-wedge_layer_index": "wedge test shifted by one layer (F[i], F[i-1])",
    "C06-exp_tail_reuse_u": "Exp1 tail computed from the body's u instead of a fresh draw",
    "C06-normal_pdf_scale": "normal pdf multiplied by 1/sqrt(2 pi) (units differ from the F table)",
    "C07-frechet_scale": "Frechet applies scale inside the power",
    "C07-normal_neg_sd": "Normal::new stores |std_dev|",
    "C07-gamma_zero_retry": "Gamma small-shape sampler retries while the result underflows to 0",
    "C07-skewnormal_premap": "SkewNormal maps location/scale before the sign decision",
    "C07-weibull_exp_fastpath": "Weibull fast path for shape 1 drops the scale",
    "C08-len_conv": "alias validation converts the length to W once, before the range test",
    "C08-leftover_clamp": "alias construction clamps leftover odds instead of walking the work lists",
    "C08-nan_minmax": "validation by a min/max fold seeded with weights[0] (NaN elsewhere accepted)",
    "C08-block_sum": "pairwise_sum over chunks_exact(32) partial sums (remainder dropped)",
    "C08-clone_from_reuse": "hand-written clone_from that does not copy weight_sum",
    "C09-pop_depth": "pop walks a precomputed depth instead of `while index != 0`",
    "C09-update_fastpath": "update returns early when the *subtotal* equals the new weight",
    "C09-get_leaf_shortcut": "get returns the subtotal when only the right child is out of range",
    "C09-push_partial_rollback": "push mutates before the overflow test and rolls back partially",
    "C09-update_decrease_parent": "update's decreasing walk skips a parent",
    "C11-csum_seed": "suffix-sum fill value alpha[0] instead of alpha[n-1]",
    "C11-validate_skip_first": "validation fused with a max-fold seeded by alpha[0]",
    "C11-beta_remainder": "last component = 1 - sum of the others (equal over the reals)",
    "C11-stick_exhausted": "stick-breaking loop breaks when the stick is used up (slots unwritten)",
    "C11-pairwise_sum": "FromGamma normaliser by a pairwise helper that drops xs[mid]",
    "C11-beta_max_len": "Beta method only for at most 16 entries",
    "C14-btpe_setup_cache": "BTPE setup constants cached in a static",
    "C14-tree_sampler_cache": "WeightedTreeIndex caches a sampler in a Cell field",
    "C14-alias_clone_from": "hand-written clone_from leaving two fields untouched",
    "C14-geometric_sample_iter": "inherent sample_iter on StandardGeometric that keeps spare bits",
    "C14-poisson_setup_memo": "Poisson rejection setup memoised in a thread-local/static",
    "C15-gamma_params_proxy": "Gamma serialised through a lossy {shape, scale} proxy",
    "C15-binomial_btpe_skip": "serde(skip) on cached BTPE constants",
    "C15-alias_validate": "deserialize_with validator that rejects every real alias table",
    "C15-normal_dispersion_check": "deserialize_with validator that rejects negative std_dev",
    "C15-hypergeo_identity_omit": "skip_serializing_if + default on sign_x (identity 1 restored as 0)",
    "C10-tree_half_leaf": "get() leaf fast path keyed on the right child only: the node with a left child and no right child (even lengths) returns its subtotal; update() then corrupts the subtotals",
    "C12-ball_bounded_loop": "UnitBall rejection loop bounded by `for _ in 0..48`, falling through with the last rejected point (norm up to sqrt 3)",
    "C13-frechet_logspace": "Frechet::sample in log space, location + exp(ln(scale) - ln(-ln x)/shape): equal over the reals, f32 rounding of ln(scale) breaks the law bound for scale = 1e-20",
    "C02-geo_powi": "Geometric::sample powi guard widened to m <= u32::MAX while the call still casts `m as i32` (negative exponent for m in [2^31, 2^32), needs p < 3.2e-10)",
}
WHY_MISSED = {
    "C01-exp1_tail_reuse": "Exp1 is a ziggurat primitive: its tail is C06's clause (reported there by the Exp1 tail rule); C01's references start above the primitives",
    "C10-update_overflow_walk": "the defect is in `update` leaving a partial modification behind an Err: reported by C09's no-effect-on-error and pre-check rules; the descent itself (C10) is untouched",
    "C13-cauchy_pole_reflection": "the reflection identity is exact over the reals, so the transform is still the quantile function (both paths are confirmed); the -inf at the single draw u = 1/2 is a singular point, reported by C03",
    "C13-weibull_upper_tail_series": "a series approximation on a draw-dependent branch cannot be judged by an identity (a correct truncated series is not identical either): reported as not decided by C13; C03 reports the changed result range",
    "C03-binv_cutoff": "the change makes BINV run with a large n·p (a slow walk, not a wrong value): it is reported by C05's BINV restart rule; C03's clauses are not affected",
    "C03-invgauss_conjugate": "InverseGaussian's generic abstract result is already unconstrained (x > 0 needs relational algebra), so a NaN that appears only at one draw value is invisible — declared limit of the interval domain",
    "C05-hin_unbounded_walk": "termination of a float recurrence (p underflows before u is used up) is numerical; a shape rule for it fires on try_sample's legitimate descent loop (§11.5) — C05 stays silent; since HIN has a reference (C02, §11.9) the missing `x < k` bound is reported there (the walk's guard is a test of the reference)",
    "C07-gamma_zero_retry": "the retry compares x with 0, which is scale-equivariant over the reals; only underflow of the scale breaks it (outside the claim: real arithmetic). C05 reports the new loop for the smallest shapes",
    "C08-clone_from_reuse": "the forgotten field (weight_sum) does not influence validation; the change is a purity matter (a clone that behaves differently from its source) and is reported by C14's clone_from rule",
    "C08-leftover_clamp": "exactness of the alias table is numerical and not claimed (only the validation clause and the weight sum are)",
    "C13-frechet_logspace": "the log-space form is identical to the quantile function over the reals, so C13's identity clause confirms it; the damage is f32 rounding of ln(scale) (numerical, not claimed). The rewrite does break C07's clause — the scale no longer acts as one exact multiplication — and is reported there (ln of a dimensional value)",
    "C10-tree_half_leaf": "the change is in `get` (the node's own weight), which `update` and the final assertion read: the tree it leaves behind is inconsistent with the weight list, which is C09's clause and is reported there (get-children: a return path that skips the left child although 2i+1 < len is possible); the descent of try_sample (C10) reads the children through `subtotal()` and is untouched",
    "C11-beta_remainder": "1 - sum of the others equals the remaining stick over the reals; the difference is rounding (not claimed)",
}


def main():
    rows = []
    for d in sorted(glob.glob(os.path.join(VERIF, "seeded", "*"))):
        mp = os.path.join(d, "meta.json")
        if not os.path.exists(mp):
            continue
        m = json.load(open(mp))
        sid = os.path.basename(d)
        own = m["property"]
        caught = sorted(k for k, v in m["checks"].items() if v["exit"] == 1)
        rule = ""
        src = m["checks"].get(own) if own in caught else (m["checks"].get(caught[0]) if caught else None)
        if src and src["alarms"]:
            mm = re.match(r"\[([a-z\-]+)\]", src["alarms"][0])
            rule = mm.group(1) if mm else ""
        conf = m.get("confirmed", {})
        okc = all(conf.get(k) for k in ("demo_passes_without_change", "demo_fails_with_change", "existing_suite_passes_with_change"))
        rows.append((sid, WHAT.get(sid, ""), caught, rule, okc, sorted(m["checks"])))
    print("| seeded change | what it does | confirmed | caught by | rule of the property's own check |")
    print("|---|---|---|---|---|")
    miss = []
    for sid, what, caught, rule, okc, ran in rows:
        own = sid.split("-")[0]
        print("| %s | %s | %s | %s | %s |" % (sid, what, "yes" if okc else "NO", ", ".join(caught) if caught else "**missed**", rule if own in caught else ("—" if caught else "")))
        if own not in caught:
            miss.append(sid)
    n = len(rows)
    own_caught = sum(1 for r in rows if r[0].split("-")[0] in r[2])
    any_caught = sum(1 for r in rows if r[2])
    print()
    print("%d seeded changes, each confirmed in a scratch worktree (suite passes with it, demonstration fails with it and passes without it): %d are reported by the check of "
          "their own property, %d by some check." % (n, own_caught, any_caught))
    print()
    for sid in miss:
        print("* **%s** not reported by its own property's check: %s." % (sid, WHY_MISSED.get(sid, "see the change's NOTES.md")))


main()
