#!/usr/bin/env python3
"""Regenerates MANIFEST.json from the table below (kept in one place so that it stays valid)."""
import json
import os

VERIF = os.path.dirname(os.path.dirname(os.path.abspath(__file__)))

NA = {
}
PENDING = "check under construction in this session (see DESIGN.md 10 build order)"

CHECKS = {
    "C02": dict(
        category="other",
        text="Agreement of discrete samplers with the reference algorithm they cite, decided from the MIR by computer algebra with the machinery of C01 — "
             "not the pmf itself. Covered: Zeta (Devroye's rejection: proposal floor(U^(-1/(s-1))), b = 2^(s-1), the acceptance test, the "
             "infinite-proposal return); Zipf (normaliser t and q on the three parameter regimes of Zipf::new, the inverse CDF of the piecewise "
             "envelope, proposal floor(B) + 1, the acceptance ratio x^-s resp. x^-s B^s); and, as transition systems cut at every loop header (state "
             "variables, guards, updates, returned terms): Poisson/Knuth, StandardGeometric, Binomial::new (method switch, flip, Binv and Btpe constants "
             "incl. p1 = floor(2.195 sqrt(npq) - 4.6 q) + 0.5), BINV (recurrence r *= a/x - s, restart at 110, reflection) and BTPE (Kachitvichyanukul & "
             "Schmeiser: regions 1-4 with c, lambda_l/r, p2..p4, the region-4 guards, step 5.0 switch, both step-5.1 recursions, the squeeze of 5.2 "
             "with rho and t, the final test of 5.3 with the Stirling corrections and their signs, the reflection), Geometric (trivial algorithm for p >= 2/3; "
             "Bringmann-Friedrich otherwise: D counted below pi, M = w & (2^k - 1) accepted with probability (1-p)^M on both the powi and the powf branch, result "
             "D 2^k + M) and Hypergeometric HIN (start from initial_p/initial_x, pmf-ratio recurrence, the order of u -= p, the x < k bound, the result "
             "offset_x + sign_x x) and Poisson for lambda >= 12 (Ahrens-Dieter algorithm PD: Poisson::new's switch at 12 and MAX_LAMBDA, the set-up constants "
             "s, d, L, c, c0..c3, omega, step N's normal proposal, steps I, S and Q on the shared uniform, the double-exponential step E with its threshold, "
             "step H, and procedure F with the factorial table, Table 1 unrolled through the fold and the delta correction) and Hypergeometric::new (the two "
             "reflections K <-> N-K and n <-> N-n with sign_x / offset_x, the HIN/H2PE switch at M - max(0, k - n2) < 10, HIN's starting point and its "
             "PopulationTooLarge exits, H2PE's constants m, a, d, x_l, x_r, k_l, k_r, lambda_l, lambda_r, p1..p3). Every comparison is a test of the reference (integer comparisons including their strictness), the decision "
             "functions agree on every feasible truth assignment, returned terms, updates of the carried variables and derived constants are identical over the reals.",
        design_ref="DESIGN.md 5/C02 and 11.9",
        note="PARTIAL: Hypergeometric's H2PE sampling loop (the RejectionAcceptance arm of Hypergeometric::sample; its paths are marked `unspecified` in the "
             "reference and skipped) is NOT examined by this check (listed in the evidence notes) — nothing of C02 is decided for it. `as u64` / `as f64` casts are transparent in the terms (floor of a cast is not modelled). "
             "NOT decided anywhere: the probability mass function (that the references have the documented pmf is a cited theorem), the numerical "
             "accuracy of the acceptance test for huge proposals (the Zeta(1.05) deviation named in the property is of that kind).",
        technique="decision-structure and transition-system extraction from rustc MIR (cut points at loop headers, path-sensitive values of loop-carried variables) + computer-algebra identity and path-pair comparison against transcribed reference algorithms",
        engine="rdx+E4+sympy",
    ),
    "C01": dict(
        category="other",
        text="Agreement of each continuous sampler with the reference algorithm it cites, decided from the MIR by computer algebra — not the law itself. "
             "Covered: Gamma (Marsaglia-Tsang: proposal, v_cbrt guard, squeeze with its constant 0.0331, exact log test, returned v; d = shape - 1/3, "
             "c = 1/sqrt(9d); the shape<1 boost u^(1/shape) with shape+1), Normal / from_zscore, LogNormal, Exp, ChiSquared (k = 1 vs Gamma), StudentT, "
             "FisherF, InverseGaussian (Michael-Schucany-Haas root and its selection probability), NormalInverseGaussian, SkewNormal (max/min "
             "representation incl. the 1/sqrt(2)), Pert, Beta (Cheng's BB and BC: all acceptance steps with their constants, the result mapping with the "
             "switched-parameter flag, and the constants alpha, beta, gamma, delta, kappa1, kappa2 derived in Beta::new on all four parameter orderings), "
             "Normal::new / from_mean_cv, LogNormal::new / from_mean_cv. For each function: every comparison is a test of the reference (difference terms identical up to "
             "sign), the decision functions agree on every truth assignment of the tests (order of independent tests, `||`, early `continue` are free), every "
             "returned term and every derived constructor constant is identical over the reals. Squeeze constants, signs, exponents and root selections are "
             "what a law test at one parameter point per family cannot pin down; here they hold for every parameter value.",
        design_ref="DESIGN.md 5/C01 and 11.8",
        note="NOT decided: that the reference algorithms have the documented law (cited theorems, trusted), tails/rounding/f32 accuracy, "
             "the ziggurat primitives (C06) and the single-draw transforms (C13). The reference decision lists were "
             "transcribed by hand from the papers and the crate's documentation (trusted base). An alarm needs a refutation at an exact rational point; anything "
             "the normaliser cannot decide is reported as not decided. A law-preserving change that leaves the cited algorithm (another valid sampler) is reported as a "
             "deviation from the reference — stated as a limit.",
        technique="decision-structure extraction from rustc MIR (feasible paths of one loop iteration, normalised comparison atoms, value-numbered terms) + computer-algebra identity and truth-table comparison against transcribed reference algorithms",
        engine="rdx+E4+sympy",
    ),
    "C10": dict(
        category="other",
        text="Structural clauses of the descent in try_sample, for every extracted weight type: the target is random_range(ZERO..root subtotal); a "
             "path-sensitive walk of one loop iteration (every feasible path, drop flags followed) shows that each comparison is target' < subtotal(child) "
             "with child in {2i+1, 2i+2} and target' = target minus exactly the children already ruled out, that a true outcome moves the index to that "
             "child, that the all-false path subtracts both children and selects the node, that the comparisons are strict and that the returned index is "
             "the walked one. This is the statement 'at every node [0, subtotal) is cut into [left | right | self]', from which proportional sampling "
             "follows for every consistent tree (C09) — for every tree shape and history, which a test of a few trees cannot show.",
        design_ref="DESIGN.md 5/C10 and 11.7",
        note="NOT decided: rounding of the float subtractions (the two final assertions are reported as undischarged panic edges under C03), consistency of the "
             "stored subtotals (C09's structural clauses; the inductive invariant over histories is not proved), empirical frequencies. The error clause "
             "(InsufficientNonZero iff empty or zero total) is decided under C09 R6. The order of the two children is free (a right-first descent passes).",
        technique="path-sensitive dataflow over one loop iteration of the rustc MIR (symbolic accumulator of subtracted child subtotals, affine index forms by value numbering)",
        engine="rdx+E4",
    ),
    "C12": dict(
        category="other",
        text="The algebraic clauses of the four unit-geometry samplers x f32/f64, decided symbolically from terms extracted from the MIR (one symbol per "
             "RNG draw site): (G1) the proposal is k fresh draws per iteration from Uniform::new(-1, 1); (G2) the single exit of the rejection loop is "
             "taken exactly when x1^2+..+xk^2 < 1 (<= 1); (G3) the returned array is the documented map — the accepted point, von Neumann's, "
             "Marsaglia's — up to the symmetries of the proposal, and |result|^2 is identically 1 (circle, sphere) resp. the tested squared norm "
             "(disc, ball). These are the premises of the classical uniformity proofs and hold for every stream, which no sample of streams shows.",
        design_ref="DESIGN.md 5/C12 and 11.6",
        note="NOT decided: the rounding error of the norm ('a few ulp'), NaN at the singular proposal x = 0 (decided under C03), and the theorems that "
             "turn G1-G3 into uniformity (trusted, cited). A law-preserving rewrite outside the symmetry group checked (e.g. a rotation by a fixed angle) "
             "would be reported as a different map although the law is unchanged — stated as a limit; none is known in the history of the crate.",
        technique="symbolic term extraction from rustc MIR (value numbering, per-site draw symbols) + computer-algebra identities (sympy); CFG rule for the rejection loop and its exit",
        engine="rdx+E4+sympy",
    ),
    "C13": dict(
        category="other",
        text="Necessary clauses of the single-draw law, decided symbolically for Cauchy, Pareto, Weibull, Gumbel, Frechet and Triangular x f32/f64: "
             "sample() has no loop and exactly one RNG draw site, and the value it returns — a term over that draw u and the constructor's "
             "arguments obtained by value numbering over the MIR, with the constructor's field expressions substituted — is identical over the "
             "reals to the documented quantile function Q(u), its mirror Q(1-u) or (Cauchy) tan(pi u); Triangular's branch test and both pieces "
             "are checked; parameter fast paths are checked under their own equations. A transform that is not the quantile function moves the "
             "law by far more than the 2^-24 resolution bound for every parameter value, which no finite grid of parameters can establish.",
        design_ref="DESIGN.md 5/C13 and 11.6",
        note="NOT decided: the resolution bound itself (rounding of the f32 evaluation over the 2^24 inputs) — that enumeration is execution and is not "
             "attempted; support membership of every output is under C03. A sampler that stops being single-draw is outside C13 by the property's own "
             "text and is reported as not decided. Equality verdicts rest on sympy's simplifier; an alarm additionally needs the difference to every "
             "accepted form to be non-zero at an exact rational point (40-digit evaluation of the extracted term, not of the program).",
        technique="symbolic term extraction from rustc MIR (value numbering) + computer-algebra identity check against the documented quantile functions; CFG rule for the single draw",
        engine="rdx+E4+sympy",
    ),
    "C08": dict(
        category="other",
        text="The validation clause of WeightedAliasIndex::new decided by abstract interpretation for every extracted weight type on homogeneous "
             "vectors of lengths 0/1/3/7/300 and every weight cell incl. the exact boundary MAX/len, MAX, +inf, -0: InvalidInput / InvalidWeight / "
             "InsufficientNonZero exactly as documented, otherwise none of them; position-sensitive vectors (one valid head followed by invalid weights and "
             "vice versa); every AliasableWeight::sum implementation (and pairwise_sum) returns exactly n on the all-ones vector of exact length n "
             "(n = 0..69, 100, 127..129, 255..257, 300, 1000) — a necessary condition of 'weight_sum is the sum of all weights'. Each case is an interval of weights, not a sample.",
        design_ref="DESIGN.md 5/C08",
        note="Only the validation clause is claimed. NOT decided: exactness of the alias table for integer weights, weights() reconstruction, "
             "sampling frequencies, zero-weight indices never returned (numerical / data-structure invariants), panic freedom of the table "
             "construction (index operations are reported as not discharged). Lengths > u32::MAX are not enumerable.",
        technique="abstract interpretation of rustc MIR (interval domain, vector summaries) against the documented error cases",
        engine="rdx+E2",
    ),
    "C11": dict(
        category="other",
        text="Structural clauses for Dirichlet: the constructor verdict on the cell partition (shared oracle with C04); the FromBeta/FromGamma switch "
             "incl. the 0.1 boundary; length algebra with exact lengths by trace-partitioned abstract interpretation (sample_len = n in both "
             "representations, sample() returns n components, buffer assertion and last index discharged); the suffix-sum recurrence's index "
             "offsets by symbolic index terms (the defect class 'correct length, correct sum, wrong Beta parameter' that means cannot see); "
             "sample() = one sample_to_slice on a sample_len() buffer; every loop that walks the output buffer in a sample_to_slice impl is left only on "
             "iterator exhaustion (every slot written); FromGamma's normaliser is accumulated in the writing loop or comes from a helper that is exact on all-ones vectors.",
        design_ref="DESIGN.md 5/C11",
        note="NOT decided: components in [0,1], sum to 1 within ulps, Beta marginals, NaN rates (numerical; the single-draw NaN/inf clause of the "
             "Gamma/Beta sub-samplers is under C03). Lengths are checked for n in {2,3,6,17,64}; the index-offset rule is for all n.",
        technique="abstract interpretation with trace partitioning on exact lengths + symbolic (linear) index-term extraction on rustc MIR",
        engine="rdx+E2+E4",
    ),
    "C09": dict(
        category="other",
        text="Structural clauses of tree consistency decided from the MIR of every instantiation of new/push/pop/update/get/try_sample: "
             "(1) no path from a mutable reborrow of *self to an Err return, and on abstract cases a decided Err leaves the abstract tree unchanged; "
             "(2) every `.unwrap()`ed storage addition is preceded by the same addition on a clone of the root total whose failure returns Err(Overflow); "
             "(3) weight predicate and Overflow verdicts on interval cases; (4) parent map floor((i-1)/2) at all five writers, child maps 2i+1/2i+2 at both "
             "readers (symbolic index terms by value numbering), mutually inverse, walks write at the stepped index and run until index 0; (6) try_sample's InsufficientNonZero clause; "
             "(7) every return path of `get` subtracts both children unless the comparisons taken imply the child is out of range; (8) an Ok return of `update` that "
             "writes nothing must have pinned weight == get(index) by the comparisons on its path (finite set of orderings). "
             "These hold for every history because they are properties of the code, not of a run.",
        design_ref="DESIGN.md 5/C09",
        note="NOT decided: that after an arbitrary history the tree equals a fresh build (needs the inductive subtotal invariant over histories), "
             "`get` values beyond clause (7), in-range-index panic freedom beyond the cases analysed. Trusted: rand's Weight::checked_add_assign contract, Vec contracts.",
        technique="CFG reachability (mutation-before-error), call ordering, symbolic index-term extraction (value numbering) and abstract interpretation of the weight predicate on MIR",
        engine="rdx+E4+E2",
    ),
    "C07": dict(
        category="proof",
        text="A units-of-measure typing derivation over the monomorphic MIR: constructor arguments carry the units of the property statement "
             "(location: Point, scale: L, rate: 1/L, shape: 1), field units are inferred from the constructor body, and `sample` is typed with "
             "them (sub-samplers and closures entered). Obligations: no arithmetic on unlike units, transcendental/draw arguments dimensionless, "
             "every branch condition compares like units, result unit as demanded; from_zscore typed with std_dev : L/Z, z : Z. A well-typed "
             "program is equivariant under x -> a + b x (b > 0) over the reals and consumes the same RNG words — for ALL parameter pairs and streams.",
        design_ref="DESIGN.md 2.4, 5/C07",
        note="Trusted base: the typing rules in analysis/units.py. Real arithmetic (the floating-point rounding of the affine map is exactly the "
             "'up to rounding' of the statement); b > 0; Pert::with_mean and Normal::from_mean_cv are not in the claim; a wrong dimensionless "
             "constant is invisible.",
        technique="dimensional (units-of-measure) type inference by abstract interpretation of rustc MIR",
        engine="rdx+E3",
    ),
    "C03": dict(
        category="other",
        text="Abstract interpretation of every sampler (33 families x f32/f64) on representatives of every constructor Ok outcome with finite "
             "arguments: one generic run (draws range over the interior of their distribution) and one tagged run per draw site and special point "
             "(closed end-point, exact 0, 1/2 or the largest value, extreme word) — exactly the property's 'one adversarial word' quantifier, which no seeded test reaches "
             "(2^-53 events). Three stated clauses: (a) no tagged draw adds NaN/inf to the result or leaves the support the generic run proved (and, where all "
             "parameters are single points, the upper end of the support with IEEE rounding of exact values: Zipf <= n); (b) NaN-freedom/finiteness/lower bound of the generic "
             "result where it follows from signs and guards (recorded as a reference list of proved obligations); (c) every panic edge in sampling code "
             "is discharged or listed. Found: Exp1 tail +inf (fixed), Zipf(1, s) = 2 (fixed), Gumbel/Frechet/StudentT(1)/FisherF(.,1) infinities (known findings).",
        design_ref="DESIGN.md 5/C03, 4 (envelope), 9 (findings)",
        note="Envelope semantics: finite op finite is finite, so rounding escapes (Zipf n+1 for n > 1, Triangular/Pert <= max within ulps, HIN tail) and "
             "overflow for extreme parameters are out of scope; upper bounds needing relational reasoning (Beta <= 1, Binomial <= n, Hypergeometric range) "
             "and the weighted indices are NOT decided; obligations never proved are reported (unproved), not alarmed. A recorded obligation that stops being "
             "provable is an alarm, which can also be caused by a behaviour-preserving rewrite the domains cannot follow (stated in DESIGN.md 8).",
        technique="abstract interpretation of rustc MIR with tagged end-point draws (interval domain with NaN/inf/signed zeros), reference list of discharged obligations",
        engine="rdx+E2",
    ),
    "C04": dict(
        category="other",
        text="Abstract interpretation of every public scalar constructor (and Dirichlet::new) on an exhaustive partition of its argument space: "
             "NaN, ±inf, ±0 and every cell between the constants the code and the documentation compare against, ordered ladders for "
             "mutually compared arguments, integer extremes; the abstract verdict Ok/Err(variant)/panic is compared with an oracle transcribed "
             "from the error-variant docs (spec_c04.py); accessors are shown to return the argument they name. A cell stands for infinitely "
             "many floats, so one decided case covers what no finite test list can. The check found and led to three fix: commits.",
        design_ref="DESIGN.md 5/C04, Appendix A",
        note="Envelope semantics (finite op finite = finite): thresholds moved by one ulp, underflow of 0.5*k are invisible. Regions the docs leave "
             "unspecified are not judged (panic freedom still is). Undecided cases (several abstract outcomes, relational integer bounds) are "
             "reported, not alarmed; the number of decided cases has a floor. WeightedAliasIndex/WeightedTreeIndex validation is decided under C08/C09. "
             "Trusted: the axioms in analysis/axioms.py.",
        technique="abstract interpretation of rustc MIR (interval/cell domain with signed zeros, NaN, infinities; enum-variant and reference tracking; branch refinement) against a doc-derived oracle",
        engine="rdx+E2",
    ),
    "C05": dict(
        category="other",
        text="Path/CFG rules over the MIR of every crate-local instance reachable from a sampling root: acyclic call graph; every natural "
             "loop has a non-panic exit whose condition depends (in-loop def-use slice through references and calls) on a fresh RNG draw or on "
             "a loop-carried recurrence/iterator; the three documented escape hatches exist and dominate/are placed where they work. This is a "
             "NECESSARY structural condition for termination, valid for every parameter value and stream; it does not bound iteration counts.",
        design_ref="DESIGN.md 5/C05",
        note="Not decided: mean/maximum number of RNG words, acceptance rates, CPU time; data-bounded recurrences are bounded only in the definite sense above "
             "(a long walk that needs two coinciding conditions the interval domain joins away, e.g. H2PE's float proposal, is not seen). Trusted: rand's uniform samplers return; core iterators are finite.",
        technique="CFG analysis on rustc MIR (natural loops, exit-edge enumeration, in-loop backward def-use slicing, dominators, call-graph SCCs) plus abstract interpretation for return paths and loop trip bounds",
        engine="rdx+E4+E2",
    ),
    "C06": dict(
        category="other",
        text="Exhaustive constant-table verification plus structural wiring rules: all 4x257 table entries and both tail constants, as "
             "const-evaluated by rustc, satisfy the ziggurat equations (strict monotonicity, F[i]=f(X[i]) to 1e-14, 256 equal layer areas "
             "= base strip + tail to 1e-8 relative, end points 0 and 1); both call sites pass a consistent (X,F) pair, the matching symmetry "
             "flag, a pdf that is the family's density over the reals and a tail routine using that family's R; structural rules inside "
             "`ziggurat`. The table part is complete (finite, exhaustive); the sampled law itself is not decided.",
        design_ref="DESIGN.md 5/C06",
        note="Trusted: CPython math.exp/erfc (1e-16) against tolerances 1e-14/1e-8; rustc's const evaluation of the statics. The law of "
             "StandardNormal/Exp1 (body/wedge/tail frequencies) is NOT decided by this check.",
        technique="exhaustive arithmetic check of compiler-evaluated statics + call-site constant tracing + polynomial-exponent abstract domain for the pdf",
        engine="rdx+E1",
    ),
    "C15": dict(
        category="other",
        text="Structural writer/reader symmetry for every serde-enabled type, from the type-checked program with feature serde: "
             "Serialize/Deserialize twins both derive-generated; expanded-AST audit shows no serde attribute except matching "
             "bound(serialize)/bound(deserialize) pairs; field/variant names emitted by the derived writer's MIR == declared fields == "
             "reader FIELDS/VARIANTS constants == reader identifier visitor; PartialEq derived. With C14 this gives equal value => identical "
             "sampling. Covers every internal representation variant because each variant type is itself in the checked set.",
        design_ref="DESIGN.md 5/C15",
        note="Trusted: serde_derive's generated code for attribute-free types is a faithful inverse pair; rand's own serde impls. Not decided: "
             "fidelity of a concrete format (JSON cannot carry ±inf/NaN), float text round-trip.",
        technique="attribute audit on the expanded AST + impl pairing + writer/reader name tables extracted from derived MIR",
        engine="rdx+E1",
    ),
    "C14": dict(
        category="proof",
        text="Type-and-effect proof over the resolved monomorphic program: every distribution type is plain data at every depth, "
             "no mutable/interior-mutable/thread-local static exists or is reachable, no user unsafe, and the transitive resolved call "
             "graph (incl. dependency MIR) of every crate-local function reaches no entropy/clock/thread/env/atomic/cell API; Clone and "
             "PartialEq are derived or field-wise (a hand-written clone_from must rewrite every field on every path); Distribution impls define only `sample` "
             "and no inherent method shadows sample/sample_iter/map. In safe Rust this implies sample(&self, rng) "
             "is a function of (*self, rng state) and cannot modify *self — for every input and call history, which no test can enumerate.",
        design_ref="DESIGN.md 5/C14",
        note="Trusted: rustc's type system/borrow checker and its resolved MIR call graph; leaf functions without MIR (compiler intrinsics, "
             "panic/fmt/alloc entry points) are pure or diverge; libm/num_traits/rand bodies are covered by the effect rules, their numerics are not.",
        technique="type-and-effect analysis on rustc MIR (custom rustc_private driver): deep type purity, static audit, who-may-call over the resolved call graph",
        engine="rdx+E1",
    ),
}

ORDER = ["C%02d" % i for i in range(1, 16)]


def main():
    checks = []
    na = []
    for pid in ORDER:
        if pid in CHECKS:
            c = CHECKS[pid]
            checks.append({
                "property_id": pid,
                "quick_cmd": "bin/vcheck %s --tier quick" % pid,
                "thorough_cmd": "bin/vcheck %s --tier thorough" % pid,
                "evidence_file": "/verif/evidence/%s.json" % pid,
                "replay_cmd_template": "cat {path}",
                "engine": c["engine"],
                "level_claimed": {"category": c["category"], "text": c["text"], "design_ref": c["design_ref"]},
                "level_note": c["note"],
                "technique": c["technique"],
            })
        else:
            na.append({"property_id": pid, "reason": NA.get(pid, PENDING)})
    m = {
        "version": 1,
        "setup_cmd": "bin/setup",
        "hooks": {
            "guard": "rand_distr_verif",
            "enable": "none needed: the extractor reads private items (ziggurat tables, private fields) directly from the compiler; no source hooks",
            "baseline_off_cmd": "cd /repo && cargo test --workspace --no-fail-fast --offline",
            "source_commits": [],
            "add_only": True,
        },
        "engines": [
            {"name": "rdx", "path": "extract/", "serves_properties": sorted(CHECKS), "kind_free_text":
             "rustc_private driver (RUSTC_WORKSPACE_WRAPPER): monomorphic instance walk with resolved callees, full MIR of crate-local "
             "instances, names-only call graph of dependency MIR, items, statics (const-evaluated), expanded-AST attributes"},
            {"name": "analysis", "path": "analysis/", "serves_properties": sorted(CHECKS), "kind_free_text":
             "Python (stdlib) analyzers over the fact base: fact rules (E1), MIR abstract interpreter (E2), unit typing (E3), CFG/path rules (E4); "
             "C13 additionally calls sympy (tooling interpreter python3-vt) on terms extracted from the MIR"},
        ],
        "checks": checks,
        "not_applicable": na,
        "notes": "Static analysis only: every verdict is computed from /repo's current source as the compiler sees it (type-checked, resolved, "
                 "monomorphised MIR + item metadata); no rand_distr code is executed. bin/selftest applies stored mutation patches to scratch copies.",
    }
    with open(os.path.join(VERIF, "MANIFEST.json"), "w") as fh:
        json.dump(m, fh, indent=1)
        fh.write("\n")


main()
