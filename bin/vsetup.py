#!/usr/bin/env python3
"""Offline setup: build the extractor and warm the dependency cache (compiled dependencies only)."""
import os
import sys
import time

sys.path.insert(0, os.path.join(os.path.dirname(os.path.abspath(__file__)), "..", "analysis"))
import facts  # noqa: E402

t = time.time()
facts.ensure_rdx()
print("rdx built in %.1fs" % (time.time() - t))
for cfg in ("serde",):
    t = time.time()
    F = facts.extract(cfg)
    print("config %s: %d instances, %d types in %.1fs" % (cfg, len(F.instances), len(F.types), time.time() - t))
import subprocess  # noqa: E402
r = subprocess.run(["python3-vt", "-c", "import sympy; print(sympy.__version__)"], stdout=subprocess.PIPE, stderr=subprocess.STDOUT, text=True)
if r.returncode != 0:
    raise SystemExit("python3-vt with sympy (tooling interpreter) is required by the C12/C13 checks: " + r.stdout[-300:])
print("sympy", r.stdout.strip())
print("setup ok")
