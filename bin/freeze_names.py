#!/usr/bin/env python3
"""freeze_names.py — (re)write spec/frozen_names.json from the current /repo tree: parameter names and loop-carried local names of every
function of the crate, field names of every struct / enum variant.  Run on the pinned tree only (a development tool, not part of a check):
the file is the vocabulary of the reference algorithms (analysis/frozen.py)."""
import json
import os
import sys

VERIF = os.path.dirname(os.path.dirname(os.path.abspath(__file__)))
sys.path.insert(0, os.path.join(VERIF, "analysis"))
import algsum  # noqa: E402
import facts  # noqa: E402

F = facts.extract("serde")
out = {"params": {}, "carried": {}, "fields": {}}
for i in F.instances:
    if not i.get("full") or i.get("krate") != "rand_distr" or not i.get("path"):
        continue
    ps = [i["locals"][k].get("name") or "_%d" % k for k in range(1, i["arg_count"] + 1)]
    out["params"].setdefault(i["path"], ps)
    try:
        cn = algsum.carried_names(F, i)
    except Exception:      # noqa: BLE001
        cn = []
    if cn:
        out["carried"].setdefault(i["path"], cn)
for t in F.types:
    if t["k"] == "adt" and t.get("krate") == "rand_distr" and t.get("variants"):
        d = {}
        for vi, v in enumerate(t["variants"]):
            if v.get("fields"):
                d[str(vi)] = [f.get("name", str(k)) for k, f in enumerate(v["fields"])]
        if d:
            out["fields"].setdefault(t["path"], d)
json.dump(out, open(os.path.join(VERIF, "spec", "frozen_names.json"), "w"), indent=0, sort_keys=True)
print("frozen: %d functions with parameters, %d with loop-carried locals, %d types" % (len(out["params"]), len(out["carried"]), len(out["fields"])))
