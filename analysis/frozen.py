"""Names the reference algorithms use for parameters, loop-carried locals and struct fields, frozen from the pinned tree (spec/frozen_names.json,
written by bin/freeze_names.py).  The references are written in the source's own names; a pure rename in the source must not turn into a
disagreement, so where the current names differ from the frozen ones *as a set* but their number is the same, the k-th current name stands for
the k-th frozen one (a reordering keeps the names, a rename keeps the positions).  Any other change (a variable added or removed) keeps the
current names, and the comparison with the reference decides."""
import json
import os

_PATH = os.path.join(os.path.dirname(os.path.dirname(os.path.abspath(__file__))), "spec", "frozen_names.json")
try:
    FROZEN = json.load(open(_PATH))
except Exception:      # noqa: BLE001
    FROZEN = {}


def positional(actual, frozen):
    """{actual name: frozen name} if the two lists differ by renames only, else {}."""
    if not frozen or len(frozen) != len(actual) or set(frozen) == set(actual):
        return {}
    return {a: f for a, f in zip(actual, frozen) if a != f}


def params(inst):
    actual = [inst["locals"][i].get("name") or "_%d" % i for i in range(1, inst["arg_count"] + 1)]
    return positional(actual, FROZEN.get("params", {}).get(inst.get("path")))


def carried(inst, names_in_order):
    """names_in_order: the source names of the loop-carried (multiply assigned) named locals, in declaration order."""
    return positional(names_in_order, FROZEN.get("carried", {}).get(inst.get("path")))


def fields(ty, variant):
    actual = [f.get("name", str(i)) for i, f in enumerate(ty["variants"][variant]["fields"])]
    m = positional(actual, FROZEN.get("fields", {}).get(ty.get("path"), {}).get(str(variant)))
    return [m.get(a, a) for a in actual]
