#!/usr/bin/env python3-vt
"""Symbolic identity service for rules_c01/c02/c12/c13 (runs under the tooling interpreter, which has sympy).

stdin : JSON list of jobs {id, symbols: {name: "positive"|"real"}, subs: {name: expr}, points: [{name: "p/q"}], assume: [[lhs, rhs], ..], guarded: bool,
                          term: expr, accepted: [expr, ...], relative: bool, variant_of: any}
stdout: JSON {id: {"verdict": "equal"|"different"|"undecided", "form": index, "forms": [indices], "detail": str, "term": str}}

`term` and the accepted forms are expressions over the symbols and `u` (0 < u < 1, made explicit by u = v/(1+v), v > 0).
equal     = the difference to an accepted form simplifies to 0 (uninterpreted constructor heads are compared argument-wise; pairs shown
            equal are abstracted by a shared symbol in the remaining pairs);
different = for every accepted form there is a point of the grid (exact rationals, 40-digit evaluation; opaque function applications count as
            arbitrary positive numbers) at which both sides are real numbers and differ — or, for a form that is nowhere real together with
            the term on the grid, at which they differ on the principal complex branch; plus points next to the jumps of floor terms;
undecided = neither could be established.  The algebra is tried only for forms that agree with the term at every both-real grid point.
"""
import json
import os
import sys

import sympy as sp
from sympy.core.function import AppliedUndef
from sympy.parsing.sympy_parser import parse_expr

TEST_POINTS = [
    {"u": sp.Rational(3, 10), "pool": [sp.Rational(7, 5), sp.Rational(9, 4), sp.Rational(5, 3), sp.Rational(73, 20), sp.Rational(27, 4), sp.Rational(11, 7), sp.Rational(19, 8)]},
    {"u": sp.Rational(17, 23), "pool": [sp.Rational(2, 7), sp.Rational(3, 2), sp.Rational(11, 4), sp.Rational(25, 14), sp.Rational(9, 2), sp.Rational(13, 5), sp.Rational(8, 3)]},
    {"u": sp.Rational(1, 11), "pool": [sp.Rational(13, 3), sp.Rational(1, 3), sp.Rational(2, 9), sp.Rational(14, 3), sp.Rational(1, 1), sp.Rational(17, 6), sp.Rational(5, 9)]},
    # every symbol inside (0, 1): probabilities, unit draws (keeps sqrt(p (1 - p)), ln(1 - u), ... real)
    {"u": sp.Rational(2, 5), "pool": [sp.Rational(3, 10), sp.Rational(7, 10), sp.Rational(2, 5), sp.Rational(1, 7), sp.Rational(5, 8), sp.Rational(9, 11), sp.Rational(4, 9)]},
    {"u": sp.Rational(5, 7), "pool": [sp.Rational(4, 5), sp.Rational(1, 6), sp.Rational(5, 9), sp.Rational(3, 8), sp.Rational(2, 11), sp.Rational(6, 7), sp.Rational(1, 3)]},
    # large values: counts and population sizes (keeps mode - 1.5 sigma, the arguments of the tail logarithms, ... positive)
    {"u": sp.Rational(1, 3), "pool": [sp.Integer(40), sp.Integer(30), sp.Integer(50), sp.Integer(61), sp.Integer(47), sp.Integer(35), sp.Integer(52)]},
    {"u": sp.Rational(4, 7), "pool": [sp.Integer(135), sp.Integer(260), sp.Integer(145), sp.Integer(97), sp.Integer(171), sp.Integer(88), sp.Integer(203)]},
]


def main():
    jobs = json.load(sys.stdin)
    import multiprocessing
    import os
    n = min(14, os.cpu_count() or 2, max(1, len(jobs) // 3))
    if n > 1:
        chunks = [jobs[i::n] for i in range(n)]
        with multiprocessing.get_context("fork").Pool(n) as pool:
            parts = pool.map(solve, chunks)
        out = {}
        for p_ in parts:
            out.update(p_)
    else:
        out = solve(jobs)
    json.dump(out, sys.stdout)


def peel(x, y):
    """Pairs of corresponding arguments under common uninterpreted function heads; None if the heads differ."""
    if isinstance(x, AppliedUndef) or isinstance(y, AppliedUndef):
        if not (isinstance(x, AppliedUndef) and isinstance(y, AppliedUndef)) or x.func.__name__ != y.func.__name__ or len(x.args) != len(y.args):
            return None
        out = []
        for a_, b_ in zip(x.args, y.args):
            p_ = peel(a_, b_)
            if p_ is None:
                return None
            out += p_
        return out
    return [(x, y)]


def is_zero(d):
    for f in (lambda x: sp.simplify(x), lambda x: sp.simplify(sp.powsimp(sp.expand_log(x, force=True), force=True)),
              lambda x: sp.simplify(sp.expand(sp.expand_power_base(x, force=True)))):
        try:
            if f(d) == 0:
                return True
        except Exception:     # noqa: BLE001
            pass
    return False


def solve(jobs):
    out = {}
    for job in jobs:
        try:
            out[job["id"]] = solve_one(job)
        except Exception as ex:      # noqa: BLE001
            out[job["id"]] = {"verdict": "undecided", "form": None, "forms": [], "detail": "internal: %s" % str(ex)[:200], "term": job.get("term", "")[:200]}
    return out


def solve_one(job):
    u = sp.Symbol("u", positive=True)
    vpos = sp.Symbol("v_", positive=True)
    env = {"u": u, "pi": sp.pi, "ln": sp.log, "log": sp.log, "exp": sp.exp, "sqrt": sp.sqrt, "tan": sp.tan, "Rational": sp.Rational,
           "eps_": sp.Symbol("eps_", positive=True), "minpos_": sp.Symbol("minpos_", positive=True), "maxval_": sp.Symbol("maxval_", positive=True),
           "log1p_": (lambda x: sp.log(1 + x))}
    names = []
    for name, kind in job["symbols"].items():
        env[name] = sp.Symbol(name, positive=(kind == "positive"), real=True)
        names.append(name)
    for name, e in job.get("subs", {}).items():
        env[name] = parse_expr(e, local_dict=env, evaluate=True)
    try:
        term = parse_expr(job["term"], local_dict=env, evaluate=True)
    except Exception as ex:      # noqa: BLE001
        return {"verdict": "undecided", "form": None, "forms": [], "detail": "term not parsed: %s" % ex, "term": job["term"][:200]}
    eqsub = {}
    unsolved = bool(job.get("guarded"))
    for lhs, rhs in job.get("assume", []):
        try:
            e = (parse_expr(lhs, local_dict=env, evaluate=True) - parse_expr(rhs, local_dict=env, evaluate=True)).subs(eqsub)
            sol = None
            for x in sorted([x for x in e.free_symbols if x.name in names], key=lambda q: q.name):
                r_ = sp.solve(e, x, dict=True)
                if len(r_) == 1:
                    sol = (x, r_[0][x])
                    break
            if sol is None:
                unsolved = True
            else:
                eqsub[sol[0]] = sol[1]
        except Exception:     # noqa: BLE001
            unsolved = True
    term = term.subs(eqsub)
    forms = []
    for acc in job["accepted"]:
        try:
            forms.append(parse_expr(acc, local_dict=env, evaluate=True).subs(eqsub))
        except Exception:      # noqa: BLE001
            forms.append(None)
    pair_lists = []
    for a in forms:
        pair_lists.append("unparsed" if a is None else peel(term, a))      # None = different heads
    apps = set(term.atoms(AppliedUndef))
    for a in forms:
        if a is not None:
            apps |= set(a.atoms(AppliedUndef))
    repl = {a_: sp.Symbol("opq%d_" % k_, positive=True) for k_, a_ in enumerate(sorted(apps, key=str))}
    # every symbol that can occur after opaque applications are replaced (also those inside their arguments, which peel() exposes)
    base = [term] + [f for f in forms if f is not None]
    syms = set(repl.values()) | {vpos}
    for x in base:
        syms |= {s_ for s_ in x.free_symbols if s_ != u}
    allsyms = sorted(syms, key=lambda s_: s_.name)

    def point(tp):
        vals = {}
        j = 0
        for s_ in allsyms:
            if s_ == vpos:
                vals[s_] = tp["u"] / (1 - tp["u"])
            else:
                vals[s_] = tp["pool"][j % len(tp["pool"])] + sp.Rational(j // len(tp["pool"]), 3)
                j += 1
        return vals

    _vc = {}

    def cval(expr, vals, key=None):
        """Value at a point (40 digits), possibly on a complex branch; None if it is not a finite number."""
        k_ = (expr, key) if key is not None else None
        if k_ is not None and k_ in _vc:
            return _vc[k_]
        try:
            v = sp.N(expr.xreplace(repl).subs(u, vpos / (1 + vpos)).subs(vals), 40)
            if not (v.is_number and v.is_finite):
                v = None
        except Exception:      # noqa: BLE001
            v = None
        if k_ is not None:
            _vc[k_] = v
        return v

    relative = bool(job.get("relative"))

    _cse = {}

    def pair_values(pairs, vals):
        """Values of all sides of the pairs at one point.  Large pair lists (set-up constants defined in terms of one another) are evaluated
        through their common sub-expressions, each once per point."""
        k_ = id(pairs)
        if k_ not in _cse:
            exprs = [e_.xreplace(repl).subs(u, vpos / (1 + vpos)) for pr_ in pairs for e_ in pr_]
            try:
                _cse[k_] = sp.cse(exprs, order="none")
            except Exception:      # noqa: BLE001
                _cse[k_] = ([], exprs)
        reps, red = _cse[k_]
        env_ = dict(vals)
        out = []
        try:
            for sy_, ex_ in reps:
                env_[sy_] = sp.N(ex_.subs(env_), 40)
            for ex_ in red:
                v = sp.N(ex_.subs(env_), 40)
                out.append(v if (v.is_number and v.is_finite) else None)
        except Exception:      # noqa: BLE001
            return None
        return [(out[2 * i_], out[2 * i_ + 1]) for i_ in range(len(pairs))]

    def cmp_at(pairs, vals, key=None):
        """('real' | 'complex', differs) at this point, or None if a side has no value.  'real': every compared value is a real number."""
        allreal, diff = True, False
        big = sum(sp.count_ops(x_) + sp.count_ops(y_) for x_, y_ in pairs) > 400 if id(pairs) not in _cse else True
        pv = pair_values(pairs, vals) if big else None
        if big and pv is None:
            return None
        for i_, (x_, y_) in enumerate(pairs):
            xv, yv = pv[i_] if big else (cval(x_, vals, key), cval(y_, vals, key))
            if xv is None or yv is None:
                return None
            if not (xv.is_real and yv.is_real):
                allreal = False
            tol = sp.Float("1e-25")
            if relative:
                tol = sp.Float("1e-9") * (1 + abs(xv))
            if abs(xv - yv) > tol:
                diff = True
        return ("real" if allreal else "complex", diff)

    def differs_at(pairs, vals):
        r_ = cmp_at(pairs, vals)
        return None if (r_ is None or r_[0] != "real") else r_[1]

    def numeric(pl, start=0):
        """Witness text if the pairs are different functions, else None; second result: whether a both-real point was seen.
        A real-valued disagreement at a point refutes.  A disagreement on a complex branch (logarithm or root of a negative number) refutes
        only when the two sides are nowhere both real on the grid (their natural domains do not meet there, e.g. tests of different regions
        of one algorithm): identities such as ln(ab) = ln a + ln b hold where both sides are real and fail on the principal branch."""
        real_seen, cdiff, agree = False, None, 0
        for k_, vals in enumerate(points):
            if k_ < start:
                continue
            if agree >= 3 and start == 0:
                return None, k_          # agreement at three both-real points: worth the algebra; the remaining points are looked at if the algebra fails
            r_ = cmp_at(pl, vals, k_)
            if r_ is None:
                continue
            if r_[0] == "real":
                real_seen = True
                agree += 1
                if r_[1]:
                    return "at %s the two sides differ" % {str(a_): str(v_) for a_, v_ in vals.items()}, True
            elif r_[1] and cdiff is None:
                cdiff = vals
        if start:
            return None, True
        if not real_seen and cdiff is not None:
            return "at %s the two sides differ (on a complex branch; they are nowhere both real on the grid)" % {str(a_): str(v_) for a_, v_ in cdiff.items()}, False
        return None, real_seen

    def floor_points(pl, base_vals, limit=12):
        """Extra test points next to the jumps of floor / ceiling sub-terms: two step functions whose arguments differ by a small constant
        agree at almost every rational grid point, so the grid alone never separates floor(x - 1.1484) from floor(x - 1.1448)."""
        out = []
        seen = set()
        for (x_, y_) in pl:
            for ex in (x_, y_):
                try:
                    ex2 = ex.xreplace(repl).subs(u, vpos / (1 + vpos))
                except Exception:      # noqa: BLE001
                    continue
                for fl in sorted(ex2.atoms(sp.floor, sp.ceiling), key=str):
                    a_ = fl.args[0]
                    if a_ in seen or a_.atoms(sp.floor, sp.ceiling):
                        continue
                    seen.add(a_)
                    for s_ in sorted(a_.free_symbols, key=lambda q: q.name):
                        if s_ not in base_vals or len(out) >= limit:
                            continue
                        others = {k: v_ for k, v_ in base_vals.items() if k != s_}
                        try:
                            a1 = a_.subs(others)
                            d1 = sp.diff(a1, s_)
                            x0 = sp.N(base_vals[s_], 40)
                            a0 = sp.N(a1.subs(s_, x0), 40)
                            if not (a0.is_real and a0.is_finite):
                                continue
                            m_ = sp.floor(a0) + 1
                            for _ in range(12):
                                dv = sp.N(d1.subs(s_, x0), 40)
                                av = sp.N(a1.subs(s_, x0), 40)
                                if not (dv.is_real and av.is_real) or dv == 0:
                                    break
                                x0 = x0 - (av - m_) / dv
                            av = sp.N(a1.subs(s_, x0), 40)
                            if not (av.is_real and abs(av - m_) < sp.Float("1e-20")) or (s_.is_positive and x0 <= 0):
                                continue
                            dv = abs(sp.N(d1.subs(s_, x0), 40))
                            step = sp.Float("1e-12") * (1 + abs(x0)) / (dv if dv > 0 else 1)
                            for sg in (1, -1):
                                v2 = dict(others)
                                v2[s_] = x0 + sg * step
                                out.append(v2)
                        except Exception:      # noqa: BLE001
                            continue
        return out

    def all_equal(pl):
        """Every pair is the same function.  Pairs are taken smallest first; a pair shown equal is then abstracted: its left side is replaced by a
        fresh symbol in the remaining left sides, its right side by the same symbol in the remaining right sides (sound: the two are equal), so
        that set-up constants defined in terms of one another (m, then x_l = m - d + 1/2, then lambda_l(x_l), then p2 ...) stay small."""
        if len(pl) == 1:
            d = (pl[0][0] - pl[0][1]).subs(u, vpos / (1 + vpos))
            return d == 0 or (sp.count_ops(d) <= 3000 and is_zero(d))
        order = sorted(range(len(pl)), key=lambda k_: sp.count_ops(pl[k_][0]) + sp.count_ops(pl[k_][1]))
        sub_x, sub_y = [], []
        for k_ in order:
            x_, y_ = pl[k_]
            for ex, sy in sub_x:
                x_ = x_.subs(ex, sy)
            for ey, sy in sub_y:
                y_ = y_.subs(ey, sy)
            d = (x_ - y_).subs(u, vpos / (1 + vpos))
            if d != 0:
                if sp.count_ops(d) > 3000 or not is_zero(d):
                    return False
            if sp.count_ops(x_) > 8 and sp.count_ops(y_) > 8:
                sy = sp.Symbol("cse%d_" % k_, real=True)
                sub_x.append((x_, sy))
                sub_y.append((y_, sy))
        return True

    verdict, form, detail = "undecided", None, ""
    eq_forms = []
    points = [point(tp) for tp in TEST_POINTS]
    # points named by the reference (inside the algorithm's domain): the named symbols take the given values, the others come from the grid
    for k_, pt in enumerate(job.get("points", [])):
        vals = dict(points[k_ % len(points)])
        for s_ in allsyms:
            if s_.name in pt:
                vals[s_] = sp.Rational(pt[s_.name])
        points.insert(k_, vals)
    refuted = []
    for i, pl in enumerate(pair_lists):
        if pl == "unparsed":
            refuted.append(None)
            continue
        if pl is None:
            refuted.append("different constructor / function heads")
            continue
        # numeric pre-filter: the algebra is tried only for forms that agree with the term wherever both are real on the grid
        w, real_seen = numeric(pl)
        resume = real_seen if (real_seen is not True and real_seen is not False) else 0
        if w is not None:
            refuted.append(w)
            continue
        if all_equal(pl):
            if verdict != "equal":
                verdict, form, detail = "equal", i, "term - accepted[%d] simplifies to 0" % i
            eq_forms.append(i)
            refuted.append(None)
            if job.get("variant_of") is None:
                break
            continue
        # not shown equal: different at one of the grid points not looked at yet, or next to a jump of a floor term?
        if resume:
            w, _ = numeric(pl, resume)
        for vals in ([] if w is not None else floor_points(pl, points[0])):
            if differs_at(pl, vals) is True:
                w = "at %s (next to a jump of a floor term) the two sides differ" % {str(k): str(v_)[:24] for k, v_ in vals.items()}
                break
        refuted.append(w)
    if verdict != "equal":
        if refuted and len(refuted) == len(pair_lists) and all(r_ is not None for r_ in refuted) and not unsolved:
            verdict = "different"
            detail = refuted[0][:300] + (" (with %s)" % {str(k): str(v_) for k, v_ in eqsub.items()} if eqsub else "")
        else:
            detail = "no accepted form shown equal, and not refuted"
    out = {"verdict": verdict, "form": form, "forms": eq_forms, "detail": detail, "term": str(term)[:600]}
    if os.environ.get("VERIF_SYM_DEBUG"):
        out["refuted"] = [None if r_ is None else r_[:60] for r_ in refuted]
    return out


main()
