#!/usr/bin/env python3-vt
"""Symbolic identity service for rules_c13 (runs under the tooling interpreter, which has sympy).

stdin : JSON list of jobs {id, symbols: {name: "positive"|"real"}, subs: {name: expr}, term: expr, accepted: [expr, ...]}
stdout: JSON {id: {"verdict": "equal"|"different"|"undecided", "form": index, "detail": str}}

`term` and the accepted forms are expressions over the symbols and `u` (0 < u < 1).  equal     = the difference to one accepted form
simplifies to 0; different = for every accepted form the difference is numerically non-zero (40 digits) at an exact rational test
point, i.e. the two real functions are not the same function; undecided = neither could be established.
"""
import json
import sys

import sympy as sp
from sympy.parsing.sympy_parser import parse_expr

TEST_POINTS = [
    {"u": sp.Rational(3, 10), "a": sp.Rational(7, 5), "b": sp.Rational(9, 4), "c": sp.Rational(5, 3)},
    {"u": sp.Rational(17, 23), "a": sp.Rational(2, 7), "b": sp.Rational(3, 2), "c": sp.Rational(11, 4)},
    {"u": sp.Rational(1, 11), "a": sp.Rational(13, 3), "b": sp.Rational(1, 3), "c": sp.Rational(2, 9)},
]


def main():
    jobs = json.load(sys.stdin)
    import multiprocessing
    import os
    n = min(12, os.cpu_count() or 2, max(1, len(jobs) // 4))
    if n > 1:
        chunks = [jobs[i::n] for i in range(n)]
        with multiprocessing.get_context("fork").Pool(n) as pool:
            parts = pool.map(solve, chunks)
        out = {}
        for p_ in parts:
            out.update(p_)
    else:
        out = solve(jobs)
    json.dump(out, sys.stdout)


def peel(x, y):
    """Pairs of corresponding arguments under common uninterpreted function heads; None if the heads differ."""
    from sympy.core.function import AppliedUndef
    if isinstance(x, AppliedUndef) or isinstance(y, AppliedUndef):
        if not (isinstance(x, AppliedUndef) and isinstance(y, AppliedUndef)) or x.func.__name__ != y.func.__name__ or len(x.args) != len(y.args):
            return None
        out = []
        for a_, b_ in zip(x.args, y.args):
            p_ = peel(a_, b_)
            if p_ is None:
                return None
            out += p_
        return out
    return [(x, y)]


def solve(jobs):
    out = {}
    for job in jobs:
        u = sp.Symbol("u", positive=True)
        vpos = sp.Symbol("v_", positive=True)
        env = {"u": u, "pi": sp.pi, "ln": sp.log, "log": sp.log, "exp": sp.exp, "sqrt": sp.sqrt, "tan": sp.tan, "Rational": sp.Rational,
               "eps_": sp.Symbol("eps_", positive=True), "minpos_": sp.Symbol("minpos_", positive=True), "maxval_": sp.Symbol("maxval_", positive=True),
               "log1p_": (lambda x: sp.log(1 + x))}
        names = []
        for name, kind in job["symbols"].items():
            env[name] = sp.Symbol(name, positive=(kind == "positive"), real=True)
            names.append(name)
        # derived symbols (e.g. mode = min + d1) are substituted first
        subs = {}
        for name, e in job.get("subs", {}).items():
            subs[name] = parse_expr(e, local_dict=env, evaluate=True)
            env[name] = subs[name]
        try:
            term = parse_expr(job["term"], local_dict=env, evaluate=True)
        except Exception as ex:      # noqa: BLE001
            out[job["id"]] = {"verdict": "undecided", "form": None, "detail": "term not parsed: %s" % ex}
            continue
        # equations between parameters that hold on this path (e.g. a fast path taken when inv_shape == 1/2): solve and substitute
        eqsub = {}
        unsolved = bool(job.get("guarded"))
        for lhs, rhs in job.get("assume", []):
            try:
                e = parse_expr(lhs, local_dict=env, evaluate=True) - parse_expr(rhs, local_dict=env, evaluate=True)
                e = e.subs(eqsub)
                cands = [x for x in e.free_symbols if x.name in names]
                sol = None
                for x in sorted(cands, key=lambda q: q.name):
                    r_ = sp.solve(e, x, dict=True)
                    if len(r_) == 1:
                        sol = (x, r_[0][x])
                        break
                if sol is None:
                    unsolved = True
                else:
                    eqsub[sol[0]] = sol[1]
            except Exception:     # noqa: BLE001
                unsolved = True
        term = term.subs(eqsub)
        verdict, form, detail = "undecided", None, ""
        diffs = []
        eq_forms = []
        for i, acc in enumerate(job["accepted"]):
            try:
                a = parse_expr(acc, local_dict=env, evaluate=True).subs(eqsub)
            except Exception:      # noqa: BLE001
                diffs.append(None)
                continue
            # uninterpreted constructors (Result_Ok(LogNormal(Normal_new(mu, sigma)))): equal iff the heads agree and the arguments are equal
            pairs = peel(term, a)
            if pairs is None:
                diffs.append(sp.Integer(1))          # different heads / arities: certainly different
                continue
            if len(pairs) > 1 or pairs[0] != (term, a):
                allz = True
                worst = None
                for (x_, y_) in pairs:
                    dd = (x_ - y_).subs(u, vpos / (1 + vpos))
                    z_ = False
                    for f in (lambda q: sp.simplify(q), lambda q: sp.simplify(sp.powsimp(sp.expand_log(q, force=True), force=True))):
                        try:
                            if f(dd) == 0:
                                z_ = True
                                break
                        except Exception:     # noqa: BLE001
                            pass
                    if not z_:
                        allz = False
                        worst = dd
                        break
                if allz:
                    if verdict != "equal":
                        verdict, form, detail = "equal", i, "all arguments of accepted[%d] are equal" % i
                    eq_forms.append(i)
                    if job.get("variant_of") is None:
                        break
                    continue
                diffs.append(worst)
                continue
            d = term - a
            # 0 < u < 1 is made explicit by u = v/(1+v), v > 0 (so that 1 - u is known to be positive)
            d = d.subs(u, vpos / (1 + vpos))
            ok = False
            for f in (lambda x: sp.simplify(x), lambda x: sp.simplify(sp.powsimp(sp.expand_log(x, force=True), force=True)),
                      lambda x: sp.simplify(sp.expand(sp.expand_power_base(x, force=True)))):
                try:
                    if f(d) == 0:
                        ok = True
                        break
                except Exception:     # noqa: BLE001
                    pass
            if ok:
                if verdict != "equal":
                    verdict, form, detail = "equal", i, "term - accepted[%d] simplifies to 0" % i
                eq_forms.append(i)
                if not job.get("variant_of") is not None:
                    break
                continue
            diffs.append(d)
        if verdict != "equal":
            # refutation: non-zero at an exact rational point for every accepted form
            free = sorted({s for d in diffs if d is not None for s in d.free_symbols} | set(term.free_symbols), key=lambda s: s.name)
            all_diff = True
            where = ""
            if any(d is None for d in diffs):
                diffs = []
            # opaque sub-variates / helper calls inside arithmetic (Zipf_inv_cdf(self, p)): each distinct application is an arbitrary positive number
            from sympy.core.function import AppliedUndef
            apps = sorted({a_ for d in diffs for a_ in d.atoms(AppliedUndef)} | set(term.atoms(AppliedUndef)), key=str)
            if apps:
                repl = {a_: sp.Symbol("opq%d_" % k_, positive=True) for k_, a_ in enumerate(apps)}
                diffs = [d.xreplace(repl) for d in diffs]
                term = term.xreplace(repl)
                free = sorted({s_ for d in diffs for s_ in d.free_symbols} | set(term.free_symbols), key=lambda s_: s_.name)
            for d in diffs:
                nz = False
                for tp in TEST_POINTS:
                    vals = {}
                    pool = [tp["a"], tp["b"], tp["c"], tp["a"] + tp["b"], tp["b"] * 3]
                    for j, s in enumerate(x for x in free if x.name != "u"):
                        vals[s] = pool[j % len(pool)]
                    vals[u] = tp["u"]
                    vals[vpos] = tp["u"] / (1 - tp["u"])
                    try:
                        v = sp.N(d.subs(vals), 40)
                        # a relative difference below 1e-9 may be the rounding of a literal constant: not a refutation
                        scale_ = 1
                        if job.get("relative"):
                            try:
                                sc_ = sp.N(term.subs(u, vpos / (1 + vpos)).subs(vals), 20)
                                scale_ = 1 + abs(sc_) if sc_.is_number else 1
                            except Exception:      # noqa: BLE001
                                scale_ = 1
                        if v.is_number and abs(v) > (sp.Float("1e-9") * scale_ if job.get("relative") else sp.Float("1e-25")):
                            nz = True
                            where = "at %s the difference is %s" % ({str(k): str(v_) for k, v_ in vals.items()}, sp.N(v, 8))
                            break
                    except Exception:      # noqa: BLE001
                        pass
                if not nz:
                    all_diff = False
                    break
            if all_diff and diffs and not unsolved:
                verdict, detail = "different", where + (" (with %s)" % {str(k): str(v_) for k, v_ in eqsub.items()} if eqsub else "")
            else:
                detail = "no accepted form shown equal, and not refuted"
        out[job["id"]] = {"verdict": verdict, "form": form, "forms": eq_forms, "detail": detail, "term": str(term)}
    return out


main()
