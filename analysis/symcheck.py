#!/usr/bin/env python3-vt
"""Symbolic identity service for rules_c01/c02/c12/c13 (runs under the tooling interpreter, which has sympy).

stdin : JSON list of jobs {id, symbols: {name: "positive"|"real"}, subs: {name: expr}, assume: [[lhs, rhs], ..], guarded: bool,
                          term: expr, accepted: [expr, ...], relative: bool, variant_of: any}
stdout: JSON {id: {"verdict": "equal"|"different"|"undecided", "form": index, "forms": [indices], "detail": str, "term": str}}

`term` and the accepted forms are expressions over the symbols and `u` (0 < u < 1, made explicit by u = v/(1+v), v > 0).
equal     = the difference to an accepted form simplifies to 0 (uninterpreted constructor heads are compared argument-wise);
different = for every accepted form the difference is numerically non-zero (40 digits) at an exact rational point — opaque function
            applications count as arbitrary positive numbers — so the two real functions are not the same function;
undecided = neither could be established.  A numeric pre-filter skips the algebra for forms that are different at the first point.
"""
import json
import sys

import sympy as sp
from sympy.core.function import AppliedUndef
from sympy.parsing.sympy_parser import parse_expr

TEST_POINTS = [
    {"u": sp.Rational(3, 10), "pool": [sp.Rational(7, 5), sp.Rational(9, 4), sp.Rational(5, 3), sp.Rational(73, 20), sp.Rational(27, 4), sp.Rational(11, 7), sp.Rational(19, 8)]},
    {"u": sp.Rational(17, 23), "pool": [sp.Rational(2, 7), sp.Rational(3, 2), sp.Rational(11, 4), sp.Rational(25, 14), sp.Rational(9, 2), sp.Rational(13, 5), sp.Rational(8, 3)]},
    {"u": sp.Rational(1, 11), "pool": [sp.Rational(13, 3), sp.Rational(1, 3), sp.Rational(2, 9), sp.Rational(14, 3), sp.Rational(1, 1), sp.Rational(17, 6), sp.Rational(5, 9)]},
    # every symbol inside (0, 1): probabilities, unit draws (keeps sqrt(p (1 - p)), ln(1 - u), ... real)
    {"u": sp.Rational(2, 5), "pool": [sp.Rational(3, 10), sp.Rational(7, 10), sp.Rational(2, 5), sp.Rational(1, 7), sp.Rational(5, 8), sp.Rational(9, 11), sp.Rational(4, 9)]},
    {"u": sp.Rational(5, 7), "pool": [sp.Rational(4, 5), sp.Rational(1, 6), sp.Rational(5, 9), sp.Rational(3, 8), sp.Rational(2, 11), sp.Rational(6, 7), sp.Rational(1, 3)]},
]


def main():
    jobs = json.load(sys.stdin)
    import multiprocessing
    import os
    n = min(14, os.cpu_count() or 2, max(1, len(jobs) // 3))
    if n > 1:
        chunks = [jobs[i::n] for i in range(n)]
        with multiprocessing.get_context("fork").Pool(n) as pool:
            parts = pool.map(solve, chunks)
        out = {}
        for p_ in parts:
            out.update(p_)
    else:
        out = solve(jobs)
    json.dump(out, sys.stdout)


def peel(x, y):
    """Pairs of corresponding arguments under common uninterpreted function heads; None if the heads differ."""
    if isinstance(x, AppliedUndef) or isinstance(y, AppliedUndef):
        if not (isinstance(x, AppliedUndef) and isinstance(y, AppliedUndef)) or x.func.__name__ != y.func.__name__ or len(x.args) != len(y.args):
            return None
        out = []
        for a_, b_ in zip(x.args, y.args):
            p_ = peel(a_, b_)
            if p_ is None:
                return None
            out += p_
        return out
    return [(x, y)]


def is_zero(d):
    for f in (lambda x: sp.simplify(x), lambda x: sp.simplify(sp.powsimp(sp.expand_log(x, force=True), force=True)),
              lambda x: sp.simplify(sp.expand(sp.expand_power_base(x, force=True)))):
        try:
            if f(d) == 0:
                return True
        except Exception:     # noqa: BLE001
            pass
    return False


def solve(jobs):
    out = {}
    for job in jobs:
        try:
            out[job["id"]] = solve_one(job)
        except Exception as ex:      # noqa: BLE001
            out[job["id"]] = {"verdict": "undecided", "form": None, "forms": [], "detail": "internal: %s" % str(ex)[:200], "term": job.get("term", "")[:200]}
    return out


def solve_one(job):
    u = sp.Symbol("u", positive=True)
    vpos = sp.Symbol("v_", positive=True)
    env = {"u": u, "pi": sp.pi, "ln": sp.log, "log": sp.log, "exp": sp.exp, "sqrt": sp.sqrt, "tan": sp.tan, "Rational": sp.Rational,
           "eps_": sp.Symbol("eps_", positive=True), "minpos_": sp.Symbol("minpos_", positive=True), "maxval_": sp.Symbol("maxval_", positive=True),
           "log1p_": (lambda x: sp.log(1 + x))}
    names = []
    for name, kind in job["symbols"].items():
        env[name] = sp.Symbol(name, positive=(kind == "positive"), real=True)
        names.append(name)
    for name, e in job.get("subs", {}).items():
        env[name] = parse_expr(e, local_dict=env, evaluate=True)
    try:
        term = parse_expr(job["term"], local_dict=env, evaluate=True)
    except Exception as ex:      # noqa: BLE001
        return {"verdict": "undecided", "form": None, "forms": [], "detail": "term not parsed: %s" % ex, "term": job["term"][:200]}
    eqsub = {}
    unsolved = bool(job.get("guarded"))
    for lhs, rhs in job.get("assume", []):
        try:
            e = (parse_expr(lhs, local_dict=env, evaluate=True) - parse_expr(rhs, local_dict=env, evaluate=True)).subs(eqsub)
            sol = None
            for x in sorted([x for x in e.free_symbols if x.name in names], key=lambda q: q.name):
                r_ = sp.solve(e, x, dict=True)
                if len(r_) == 1:
                    sol = (x, r_[0][x])
                    break
            if sol is None:
                unsolved = True
            else:
                eqsub[sol[0]] = sol[1]
        except Exception:     # noqa: BLE001
            unsolved = True
    term = term.subs(eqsub)
    forms = []
    for acc in job["accepted"]:
        try:
            forms.append(parse_expr(acc, local_dict=env, evaluate=True).subs(eqsub))
        except Exception:      # noqa: BLE001
            forms.append(None)
    pair_lists = []
    for a in forms:
        pair_lists.append("unparsed" if a is None else peel(term, a))      # None = different heads
    apps = set(term.atoms(AppliedUndef))
    for a in forms:
        if a is not None:
            apps |= set(a.atoms(AppliedUndef))
    repl = {a_: sp.Symbol("opq%d_" % k_, positive=True) for k_, a_ in enumerate(sorted(apps, key=str))}
    # every symbol that can occur after opaque applications are replaced (also those inside their arguments, which peel() exposes)
    base = [term] + [f for f in forms if f is not None]
    syms = set(repl.values()) | {vpos}
    for x in base:
        syms |= {s_ for s_ in x.free_symbols if s_ != u}
    allsyms = sorted(syms, key=lambda s_: s_.name)

    def point(tp):
        vals = {}
        j = 0
        for s_ in allsyms:
            if s_ == vpos:
                vals[s_] = tp["u"] / (1 - tp["u"])
            else:
                vals[s_] = tp["pool"][j % len(tp["pool"])] + sp.Rational(j // len(tp["pool"]), 3)
                j += 1
        return vals

    def nval(expr, vals):
        try:
            v = sp.N(expr.xreplace(repl).subs(u, vpos / (1 + vpos)).subs(vals), 40)
            return v if v.is_number and v.is_finite else None
        except Exception:      # noqa: BLE001
            return None

    relative = bool(job.get("relative"))

    def differs_at(pairs, vals):
        for (x_, y_) in pairs:
            dv = nval(x_ - y_, vals)
            if dv is None:
                return None
            tol = sp.Float("1e-25")
            if relative:
                sc = nval(x_, vals)
                tol = sp.Float("1e-9") * (1 + (abs(sc) if sc is not None else 0))
            if abs(dv) > tol:
                return True
        return False

    verdict, form, detail = "undecided", None, ""
    eq_forms = []
    points = [point(tp) for tp in TEST_POINTS]
    refuted = []
    for i, pl in enumerate(pair_lists):
        if pl == "unparsed":
            refuted.append(None)
            continue
        if pl is None:
            refuted.append("different constructor / function heads")
            continue
        # numeric pre-filter: the first test point at which both sides are real numbers decides whether the algebra is tried at all
        w = None
        for vals in points:
            d_ = differs_at(pl, vals)
            if d_ is True:
                w = "at %s the two sides differ" % {str(k): str(v_) for k, v_ in vals.items()}
                break
            if d_ is False:
                break
        if w is not None:
            refuted.append(w)
            continue
        if all(is_zero((x_ - y_).subs(u, vpos / (1 + vpos))) for x_, y_ in pl):
            if verdict != "equal":
                verdict, form, detail = "equal", i, "term - accepted[%d] simplifies to 0" % i
            eq_forms.append(i)
            refuted.append(None)
            if job.get("variant_of") is None:
                break
            continue
        # numerically equal at one point but not shown equal: different at another point?
        w = None
        for vals in points:
            if differs_at(pl, vals) is True:
                w = "at %s the two sides differ" % {str(k): str(v_) for k, v_ in vals.items()}
                break
        refuted.append(w)
    if verdict != "equal":
        if refuted and len(refuted) == len(pair_lists) and all(r_ is not None for r_ in refuted) and not unsolved:
            verdict = "different"
            detail = refuted[0][:300] + (" (with %s)" % {str(k): str(v_) for k, v_ in eqsub.items()} if eqsub else "")
        else:
            detail = "no accepted form shown equal, and not refuted"
    return {"verdict": verdict, "form": form, "forms": eq_forms, "detail": detail, "term": str(term)[:600]}


main()
