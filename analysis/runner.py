"""Common runner plumbing: violations, known findings, floors, evidence."""
import json
import os
import re
import sys
import time

VERIF = os.path.dirname(os.path.dirname(os.path.abspath(__file__)))
EVID = os.environ.get("VERIF_EVIDENCE_DIR") or os.path.join(VERIF, "evidence")
VIOL = os.path.join(EVID, "violations")
KNOWN = os.path.join(VERIF, "known_findings.json")


def _slug(s):
    return re.sub(r"[^A-Za-z0-9_.-]+", "_", s)[:120]


class Check:
    """One run of one property's rules.  Collects obligations, violations, floors; writes evidence."""

    def __init__(self, pid, tier, level, explanation):
        self.pid = pid
        self.tier = tier
        self.level = level
        self.explanation = explanation
        self.t0 = time.time()
        self.seed = int(os.environ.get("VERIF_SEED", "0") or 0)
        self.obligations = 0
        self.discharged = 0
        self.nontrivial = set()
        self.evaluations = 0
        self.samples = []
        self.violations = []     # (key, report dict)
        self.known_hits = []
        self.unproved = []
        self.notes = []
        self.floors = {}
        self.extra = {}
        self.trusted = []
        self.assumptions = []
        self.configs = []
        self.tree = None
        self.rules = {}          # rule name -> [instances checked, discharged]
        try:
            with open(KNOWN) as fh:
                self.known = json.load(fh)
        except FileNotFoundError:
            self.known = {"findings": [], "fixed": []}

    # ---- recording ----
    def rule(self, name):
        return self.rules.setdefault(name, {"instances": 0, "ok": 0})

    def ok(self, rule, key, detail=None, nontrivial=True, sample=False):
        """An obligation that was discharged."""
        self.obligations += 1
        self.discharged += 1
        self.evaluations += 1
        r = self.rule(rule)
        r["instances"] += 1
        r["ok"] += 1
        if nontrivial:
            self.nontrivial.add(rule + "|" + key)
        if sample or (len([s for s in self.samples if s.get("rule") == rule]) < 3):
            s = {"rule": rule, "obligation": key, "status": "discharged"}
            if detail is not None:
                s["detail"] = detail
            self.samples.append(s)

    def violation(self, rule, key, what, where=None, detail=None):
        """An obligation that failed.  `key` is line-free; `where` is the human-readable location."""
        self.obligations += 1
        self.evaluations += 1
        r = self.rule(rule)
        r["instances"] += 1
        full_key = "%s|%s|%s" % (self.pid, rule, key)
        rep = {"property": self.pid, "rule": rule, "key": full_key, "what": what, "where": where, "detail": detail,
               "tier": self.tier}
        for kf in self.known.get("findings", []):
            if kf.get("key") == full_key:
                self.known_hits.append((kf, rep))
                self.samples.append({"rule": rule, "obligation": key, "status": "known-finding", "what": what})
                return
        self.violations.append((full_key, rep))
        self.samples.append({"rule": rule, "obligation": key, "status": "VIOLATED", "what": what, "where": where})

    def unproved_note(self, rule, key, reason, where=None):
        """Something the analysis could not decide; reported, never alarmed."""
        self.unproved.append({"rule": rule, "key": key, "reason": reason, "where": where})

    def floor(self, name, count, floor):
        """Fail closed when a rule matches fewer sites than were confirmed by hand on the reference tree."""
        self.floors[name] = [count, floor]
        if count < floor:
            self.violation("floor", name, "rule '%s' matched %d sites, below the confirmed floor %d: anchor lost or "
                           "extraction incomplete (fail closed)" % (name, count, floor))

    # ---- finishing ----
    def finish(self):
        os.makedirs(EVID, exist_ok=True)
        wall = time.time() - self.t0
        cov = {
            "evaluations": self.evaluations,
            "distinct_nontrivial": len(self.nontrivial),
            "rule": "one evaluation per rule instance (obligation) examined in the fact base extracted from the "
                    "current /repo tree; non-trivial = distinct (rule, line-free key) pairs whose discharge needed an "
                    "analysis result rather than a constant",
            "samples": self.samples[:60],
            "obligations": self.obligations,
            "discharged": self.discharged,
            "checker_cmd": "bin/vcheck %s --tier %s" % (self.pid, self.tier),
            "trusted_base": self.trusted,
            "explanation": self.explanation,
            "rules": self.rules,
            "floors": self.floors,
            "unproved": self.unproved[:200],
            "unproved_count": len(self.unproved),
            "known_findings": [k.get("key") for k, _ in self.known_hits],
            "configs": self.configs,
            "tree_hash": self.tree,
            "notes": self.notes,
        }
        cov.update(self.extra)
        ev = {
            "property_id": self.pid,
            "tier": self.tier,
            "seed": self.seed,
            "level": self.level,
            "coverage": cov,
            "assumptions": self.assumptions,
            "wall_s": round(wall, 2),
            "violations": len(self.violations),
        }
        with open(os.path.join(EVID, self.pid + ".json"), "w") as fh:
            json.dump(ev, fh, indent=1)
        for kf, rep in self.known_hits:
            print("KNOWN-FINDING: property=%s %s" % (self.pid, kf.get("what", rep["what"])))
        for u in self.unproved[:0]:
            pass
        if self.violations:
            os.makedirs(VIOL, exist_ok=True)
            for full_key, rep in self.violations:
                path = os.path.join(VIOL, "%s-%s.json" % (self.pid, _slug(full_key)))
                with open(path, "w") as fh:
                    json.dump(rep, fh, indent=1)
                print("[%s] %s: %s" % (rep["rule"], rep.get("where") or "-", rep["what"]))
                print("VIOLATION property=%s replay=%s" % (self.pid, path))
            return 1
        print("%s: OK  tier=%s obligations=%d discharged=%d unproved(not alarmed)=%d known=%d wall=%.1fs" % (
            self.pid, self.tier, self.obligations, self.discharged, len(self.unproved), len(self.known_hits), wall))
        return 0
