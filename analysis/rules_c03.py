"""C03 — support / NaN-inf freedom / no panic in sample(), three stated clauses (DESIGN.md 5/C03).

For every sampler family, every representative of its constructor's Ok outcomes with finite arguments (envelope E) is fed to
the abstract interpreter (E2):
  G    the *generic* run: every RNG draw ranges over the interior of its distribution (special points excluded);
  T    one *tagged* run per draw site and special point (closed end-point, exact 0, exact 1/2, extreme word): that single
       draw is pinned to the point — the property's "one adversarial word" quantifier.
Obligations:
  (a) singularity: a tagged run must not add NaN / ±inf to the generic result (except the documented cases);
  (b) range/NaN/finiteness of the generic result where it follows from signs and guards;
  (c) panic edges (Assert terminators, panicking calls, failed unwraps) reached in any run.
A proved obligation is recorded in spec/obligations_C03.json by a line-free key; the check fails when a recorded
obligation is no longer proved or when a tagged run refutes (a) at a site not listed in known_findings.json.
"""
import itertools
import json
import multiprocessing
import os
import re

import rules_c04
import spec_c04
import values as V
from absint import Interp, En, St, Rf, Vc, Top, DiscrIn, usize
from axioms import Axioms
from facts import span_str, VERIF
from values import Fl, In

BASELINE = os.path.join(VERIF, "spec", "obligations_C03.json")
D = "rand::distr::Distribution"


def _s(adt, ret="F"):
    return "<%s as rand::distr::Distribution<%s>>::sample" % (adt, ret)


# name, sampler path (generic), constructor spec path (None: unit struct), documented non-finite results, range rule
FAMILIES = [
    dict(name="StandardNormal", sample=_s("normal::StandardNormal", "f64"), ctor=None, bits=(64,)),
    dict(name="StandardNormal32", sample=_s("normal::StandardNormal", "f32"), ctor=None, bits=(32,)),
    dict(name="Exp1", sample=_s("exponential::Exp1", "f64"), ctor=None, bits=(64,), rng="ge0"),
    dict(name="Exp1_32", sample=_s("exponential::Exp1", "f32"), ctor=None, bits=(32,), rng="ge0"),
    dict(name="Normal", sample=_s("normal::Normal<F>"), ctor="normal::Normal::<F>::new"),
    dict(name="LogNormal", sample=_s("normal::LogNormal<F>"), ctor="normal::LogNormal::<F>::new", rng="ge0"),
    dict(name="Exp", sample=_s("exponential::Exp<F>"), ctor="exponential::Exp::<F>::new", rng="ge0",
         inf_ok=lambda c: c["lambda"].zero, doc="Exp with rate 0 returns +inf (documented)"),
    dict(name="Gamma", sample=_s("gamma::Gamma<F>"), ctor="gamma::Gamma::<F>::new", rng="ge0"),
    dict(name="ChiSquared", sample=_s("chi_squared::ChiSquared<F>"), ctor="chi_squared::ChiSquared::<F>::new", rng="ge0"),
    dict(name="StudentT", sample=_s("student_t::StudentT<F>"), ctor="student_t::StudentT::<F>::new"),
    dict(name="FisherF", sample=_s("fisher_f::FisherF<F>"), ctor="fisher_f::FisherF::<F>::new", rng="ge0"),
    dict(name="Beta", sample=_s("beta::Beta<F>"), ctor="beta::Beta::<F>::new"),
    dict(name="Cauchy", sample=_s("cauchy::Cauchy<F>"), ctor="cauchy::Cauchy::<F>::new"),
    dict(name="Pareto", sample=_s("pareto::Pareto<F>"), ctor="pareto::Pareto::<F>::new", rng="ge:scale"),
    dict(name="Weibull", sample=_s("weibull::Weibull<F>"), ctor="weibull::Weibull::<F>::new", rng="ge0"),
    dict(name="Gumbel", sample=_s("gumbel::Gumbel<F>"), ctor="gumbel::Gumbel::<F>::new"),
    dict(name="Frechet", sample=_s("frechet::Frechet<F>"), ctor="frechet::Frechet::<F>::new", rng="ge:location"),
    dict(name="SkewNormal", sample=_s("skew_normal::SkewNormal<F>"), ctor="skew_normal::SkewNormal::<F>::new"),
    dict(name="InverseGaussian", sample=_s("inverse_gaussian::InverseGaussian<F>"), ctor="inverse_gaussian::InverseGaussian::<F>::new"),
    dict(name="NormalInverseGaussian", sample=_s("normal_inverse_gaussian::NormalInverseGaussian<F>"),
         ctor="normal_inverse_gaussian::NormalInverseGaussian::<F>::new"),
    dict(name="Triangular", sample=_s("triangular::Triangular<F>"), ctor="triangular::Triangular::<F>::new"),
    dict(name="Pert", sample=_s("pert::Pert<F>"), ctor="pert::PertBuilder::<F>::with_mode"),
    dict(name="Poisson", sample=_s("poisson::Poisson<F>"), ctor="poisson::Poisson::<F>::new", rng="ge0"),
    # the documented +inf of Zeta needs the proposal to OVERFLOW (s very close to 1); the envelope has no overflow, so here an infinite
    # result can only come from a singular draw and is judged like everywhere else
    dict(name="Zeta", sample=_s("zeta::Zeta<F>"), ctor="zeta::Zeta::<F>::new", rng="ge1"),
    dict(name="Zipf", sample=_s("zipf::Zipf<F>"), ctor="zipf::Zipf::<F>::new", rng="ge1", hi="n"),
    dict(name="Binomial", sample=_s("binomial::Binomial", "u64"), ctor="binomial::Binomial::new", bits=(64,)),
    dict(name="Geometric", sample=_s("geometric::Geometric", "u64"), ctor="geometric::Geometric::new", bits=(64,)),
    dict(name="StandardGeometric", sample=_s("geometric::StandardGeometric", "u64"), ctor=None, bits=(64,)),
    dict(name="Hypergeometric", sample=_s("hypergeometric::Hypergeometric", "u64"), ctor="hypergeometric::Hypergeometric::new", bits=(64,)),
    dict(name="UnitCircle", sample=_s("unit_circle::UnitCircle", "[F; 2]"), ctor=None),
    dict(name="UnitDisc", sample=_s("unit_disc::UnitDisc", "[F; 2]"), ctor=None),
    dict(name="UnitSphere", sample=_s("unit_sphere::UnitSphere", "[F; 3]"), ctor=None),
    dict(name="UnitBall", sample=_s("unit_ball::UnitBall", "[F; 3]"), ctor=None),
]


def find_sample_inst(F, path, bits):
    want = "f32" if bits == 32 else "f64"
    cands = [i for i in F.instances if i.get("full") and i["path"] == path]
    if not cands:
        return None
    for i in cands:
        ts = [F.types[t]["s"] for t in i.get("targs", [])]
        if want in " ".join(ts) or all(("f32" not in t and "f64" not in t) for t in ts):
            return i
    return None


def envelope_cases(F, ax, fam, bits, tier, extremes=False, allow_mixed=False):
    """[(case name, case cells dict, self value)] : constructor Ok outcomes with finite arguments.
    With `extremes` the type's largest finite value and smallest subnormal are added as cells and IEEE rounding is on."""
    if fam["ctor"] is None:
        return [("unit", {}, St(None, ()))]
    entry = next(e for e in spec_c04.SPEC if e["path"] == fam["ctor"])
    steps = entry.get("pipeline") or [(entry["path"], None)]
    insts = [rules_c04.find_insts(F, p, bits) for p, _ in steps]
    if any(i is None for i in insts):
        return None
    consts = set()
    for i in insts:
        consts |= set(rules_c04.code_constants(F, i))
    ordered = set(entry.get("ordered") or ())
    cellsets = []
    for name, kind in entry["args"]:
        if kind == "f":
            cs = set(entry.get("cuts", {}).get(name, []))
            if name in ordered:
                cs |= set(rules_c04.LADDER)
            else:
                cs |= set(sorted(consts, key=abs)[:{1: 6, 2: 3}.get(len(entry["args"]), 1)])
            cells = [c for c in rules_c04.float_cells(bits, cs, extremes=extremes) if not (c.nan or c.pinf or c.ninf)]
            cellsets.append(cells)
        else:
            cellsets.append(rules_c04.int_cells(int(kind[1:]), kind[0] == "i", name in ordered))
    names = [a for a, _ in entry["args"]]
    out = []
    for combo in itertools.product(*cellsets):
        vals = {n: c.value for n, c in zip(names, combo)}
        outs, ev, imp, okp = rules_c04.run_case(F, ax, entry, insts, vals, ieee=bits if extremes else None)
        if (outs == {"Ok"} or (allow_mixed and "Ok" in outs)) and okp is not None:
            out.append((", ".join("%s=%s" % (n, c.name) for n, c in zip(names, combo)), dict(zip(names, combo)), okp))
    return out


def flatten_result(ip, rv):
    """The float/int leaves of a sample result (scalar, array, tuple)."""
    rv = ip.materialize(rv)
    if isinstance(rv, (Fl, In)):
        return [rv]
    if isinstance(rv, DiscrIn):
        return [rv.iv]
    if isinstance(rv, Vc):
        return flatten_result(ip, rv.elem) if rv.elem is not None else []
    if isinstance(rv, St):
        out = []
        for f in rv.fields:
            out += flatten_result(ip, f)
        return out
    return [rv]


def summarize(ip, rv):
    leaves = flatten_result(ip, rv)
    s = {"nan": False, "pinf": False, "ninf": False, "top": False, "repr": repr(rv)[:160], "lo": None}
    for l in leaves:
        if isinstance(l, Fl):
            s["nan"] |= l.nan
            s["pinf"] |= l.pinf
            s["ninf"] |= l.ninf
            lo = l.lo()
            if lo is not None and not l.nan:
                s["lo"] = lo[0] if s["lo"] is None else min(s["lo"], lo[0])
        elif isinstance(l, In):
            pass
        else:
            s["top"] = True
    return s


def src_line(F, span, cache={}):
    if not span or "file" not in span:
        return ""
    f = span["file"]
    if not os.path.isabs(f):
        f = os.path.join(os.environ.get("RDX_REPO", "/repo"), f)
    if f not in cache:
        try:
            cache[f] = open(f, errors="replace").read().splitlines()
        except OSError:
            cache[f] = []
    ln = span.get("cs_line" if "exp" in span and "cs_line" in span else "line", 0)
    lines = cache[f]
    return re.sub(r"\s+", " ", lines[ln - 1].strip()) if 0 < ln <= len(lines) else ""


def site_desc(F, inst_key, block):
    inst = F.by_key.get(inst_key)
    if not inst:
        return inst_key, None
    t = inst["blocks"][block]["term"] if isinstance(block, int) and block < len(inst["blocks"]) else None
    sp = t.get("span") if t else None
    return inst["path"], sp


_G = {}


def run_family(args):
    name, bits, tier = args
    F = _G["F"]
    fam = next(f for f in FAMILIES if f["name"] == name)
    ax = Axioms(F)
    res = {"family": name, "bits": bits, "cases": 0, "runs": 0, "oblig": [], "refuted": [], "panic_sites": {}, "missing": None, "samples": []}
    sinst = find_sample_inst(F, fam["sample"], bits)
    if sinst is None:
        res["missing"] = fam["sample"]
        return res
    cases = envelope_cases(F, ax, fam, bits, tier)
    if cases is None:
        res["missing"] = fam["ctor"]
        return res
    res["cases"] = len(cases)
    rng = Rf(None, Top(), True)
    for cname, cells, selfv in cases:
        # ---------------- generic run
        ax.tagged = None
        ax.draw_sites = {}
        ip = Interp(F, ax)
        rv, st = ip.run_root(sinst, [Rf(None, selfv, False), rng])
        res["runs"] += 1
        g = summarize(ip, rv) if st is not None else {"nan": False, "pinf": False, "ninf": False, "top": False, "repr": "diverges", "lo": None}
        events = dict(ip.events)
        sites = dict(ax.draw_sites)
        inf_ok = bool(fam.get("inf_ok") and fam["inf_ok"](cells))
        okey = "%s:f%d|%s" % (name, bits, cname)
        # (b) obligations on the generic result
        res["oblig"].append((okey + "|not-nan", not g["nan"] and not g["top"], g["repr"]))
        res["oblig"].append((okey + "|finite", (not (g["pinf"] or g["ninf"]) or inf_ok) and not g["top"] and not g["nan"], g["repr"]))
        r = fam.get("rng")

        def range_ok(g_):
            if g_["top"] or g_["nan"] or g_["ninf"] or g_["lo"] is None:
                return False
            if r == "ge0":
                return g_["lo"] >= 0
            if r == "ge1":
                return g_["lo"] >= 1
            if r.startswith("ge:"):
                c = cells[r[3:]]
                return c.lo is not None and g_["lo"] >= c.lo
            return False
        g_range_ok = bool(r) and range_ok(g)
        if r:
            res["oblig"].append((okey + "|range:" + r, g_range_ok, g["repr"]))
        if len(res["samples"]) < 3:
            res["samples"].append({"case": cname, "generic_result": g["repr"], "draw_sites": len(sites)})
        # ---------------- tagged runs
        for skey, (kind, specials, sinst_key, sblock) in sorted(sites.items(), key=lambda kv: str(kv[0])):
            for si, sp in enumerate(specials):
                ax.tagged = (skey, si)
                ip2 = Interp(F, ax)
                rv2, st2 = ip2.run_root(sinst, [Rf(None, selfv, False), rng])
                res["runs"] += 1
                for k, e in ip2.events.items():
                    events.setdefault(k, e)
                if st2 is None:
                    continue
                t = summarize(ip2, rv2)
                bad = []
                if t["nan"] and not g["nan"]:
                    bad.append("NaN")
                if t["pinf"] and not g["pinf"] and not inf_ok:
                    bad.append("+inf")
                if t["ninf"] and not g["ninf"]:
                    bad.append("-inf")
                if g_range_ok and not bad and not range_ok(t):
                    bad.append("a value below the support (%s)" % r)
                # upper end of the support, decided only where the arithmetic is exact: every parameter is a single point and the
                # tagged draw is a single point, evaluated with IEEE rounding of exactly known values
                hic = cells.get(fam["hi"]) if fam.get("hi") and isinstance(cells, dict) else None
                if hic is not None and all(getattr(c, "point", False) and not getattr(c, "inf_point", False) for c in cells.values()):
                    ip3 = Interp(F, ax)
                    ip3.ieee = bits
                    rv3, st3 = ip3.run_root(sinst, [Rf(None, selfv, False), rng])
                    res["runs"] += 1
                    if st3 is not None:
                        his = [l.hi() for l in flatten_result(ip3, rv3) if isinstance(l, Fl) and not l.nan]
                        his = [h[0] for h in his if h is not None]
                        if his and max(his) > hic.hi:
                            bad.append("a value above %s = %s" % (fam["hi"], hic.hi))
                            t = dict(t, repr=repr(rv3)[:160])
                if bad:
                    spath, sspan = site_desc(F, sinst_key, sblock)
                    res["refuted"].append({"family": name, "bits": bits, "case": cname, "draw": kind, "special": sp, "site": spath,
                                           "site_line": src_line(F, sspan), "where": span_str(sspan), "gives": bad, "result": t["repr"],
                                           "generic": g["repr"]})
        ax.tagged = None
        # (c) panic sites seen
        for k, e in events.items():
            if e.kind.startswith("panic") or e.kind.startswith("precondition"):
                pk, where = panic_key(F, e)
                res["panic_sites"].setdefault(pk, {"where": where, "cases": 0, "kind": e.kind})
                res["panic_sites"][pk]["cases"] += 1
    return res


def call_class(fn):
    rp = fn.get("res_path") or fn.get("path") or ""
    m = fn.get("method") or rp.rsplit("::", 1)[-1]
    tr = fn.get("trait") or ""
    if rp.startswith(("core::panicking::", "core::option::unwrap_failed", "core::result::unwrap_failed", "core::option::expect_failed")):
        return "panic"
    if m in ("unwrap", "expect") and ("Option" in rp or "Result" in rp):
        return "unwrap"
    if tr.endswith(("ops::Index", "ops::IndexMut")):
        return "index"
    if m == "random_range":
        return "range"
    if tr.endswith(("AddAssign", "SubAssign", "MulAssign")):
        return "assert:Overflow:" + m.split("_")[0].capitalize()
    if m == "split_at":
        return "index"
    return None


def panic_key(F, e):
    """Line-free key of a panic event, attributed to the innermost crate-local site."""
    inst = F.by_key.get(e.inst)
    cls = None
    if e.kind.startswith("panic:assert:"):
        cls = "assert:" + e.kind[len("panic:assert:"):]
    elif e.kind == "panic:index":
        cls = "index"
    elif e.kind.startswith("precondition"):
        cls = "precondition"
    else:
        cls = "range" if "random_range" in str(e.detail) else "panic"
    span = e.span
    if inst is not None and not inst.get("local"):
        # walk back to the nearest crate-local call site
        for caller_key, blk in reversed([s for s in e.sites if s]):
            ci = F.by_key.get(caller_key)
            if ci is not None and ci.get("local"):
                t = ci["blocks"][blk]["term"]
                span = t.get("span")
                c2 = call_class(t["func"].get("fn", {})) if t["k"] == "call" else None
                cls = c2 or ("call:" + inst["path"].rsplit("::", 1)[-1])
                inst = ci
                break
    path = inst["path"] if inst else str(e.inst)
    via = ""
    if cls == "panic" and getattr(e, "via", None) and F.by_key.get(e.inst, {}).get("local"):
        via = "|via#" + ",".join(str(v) for v in e.via)
        # a panicking helper (e.g. f64_to_u64) is judged per crate-local call site
        for caller_key, blk in reversed([x for x in e.sites if x]):
            ci = F.by_key.get(caller_key)
            if ci is not None and ci.get("local") and ci["path"] != path:
                line = src_line(F, ci["blocks"][blk]["term"].get("span"))
                callee = (ci["blocks"][blk]["term"]["func"].get("fn") or {}).get("path")
                same = [bj for bj, b in enumerate(ci["blocks"]) if b["term"] and b["term"]["k"] == "call" and
                        (b["term"]["func"].get("fn") or {}).get("path") == callee and src_line(F, b["term"].get("span")) == line]
                via += " @ %s#%d" % (line, same.index(blk) if blk in same else 0)
                break
    return "%s|%s|%s%s" % (path, cls, src_line(F, span), via), span_str(span)


def all_panic_sites(F, reach):
    """Every panic edge in the crate-local instances reachable from sampling roots: key -> where"""
    out = {}
    for k in reach:
        inst = F.by_key[k]
        if not inst.get("local"):
            continue
        for b in inst["blocks"]:
            t = b["term"]
            if not t:
                continue
            if t["k"] == "assert":
                out.setdefault("%s|assert:%s|%s" % (inst["path"], t["kind"], src_line(F, t.get("span"))), span_str(t.get("span")))
            elif t["k"] == "call":
                c = call_class(t["func"].get("fn", {}))
                if c:
                    out.setdefault("%s|%s|%s" % (inst["path"], c, src_line(F, t.get("span"))), span_str(t.get("span")))
    return out


def panic_key_matches(pk, sites_all):
    """A `via#..` event key belongs to the enumerated edge with the same prefix."""
    return pk in sites_all or pk.split("|via#")[0] in sites_all


def run(chk, F, tier, write_baseline=False):
    chk.trusted += ["axioms for rand's StandardUniform [0,1) / OpenClosed01 (0,1] / Open01 (0,1) / Uniform [low,high) / IntoFloat, num_traits/std float "
                    "functions, core iterators (analysis/axioms.py)",
                    "envelope semantics: finite op finite is finite; rounding-induced escapes (Zipf n+1, `<= max` up to ulps) are out of scope",
                    "single tagged draw per run (coincidences of two draws are outside the property's quantifier)"]
    _G["F"] = F
    tasks = []
    for fam in FAMILIES:
        for bits in fam.get("bits", (32, 64)):
            tasks.append((fam["name"], bits, tier))
    ncpu = min(16, os.cpu_count() or 4)
    if ncpu > 1 and not os.environ.get("VERIF_SERIAL"):
        with multiprocessing.get_context("fork").Pool(ncpu) as pool:
            results = pool.map(run_family, tasks, chunksize=1)
    else:
        results = [run_family(t) for t in tasks]
    try:
        base = json.load(open(BASELINE))
    except (OSError, ValueError):
        base = {"proved": [], "panic_unproved": []}
    proved_now, all_obl = set(), {}
    refuted = []
    panic_seen = {}
    runs = cases = 0
    for r in results:
        if r["missing"]:
            chk.violation("anchor", "%s:f%d" % (r["family"], r["bits"]), "sampler or constructor %s not found in the extracted program" % r["missing"])
            continue
        runs += r["runs"]
        cases += r["cases"]
        for key, ok, detail in r["oblig"]:
            all_obl[key] = (ok, detail)
            if ok:
                proved_now.add(key)
        refuted += r["refuted"]
        for pk, info in r["panic_sites"].items():
            panic_seen.setdefault(pk, info)
        chk.samples.extend({"rule": "generic-run", "family": "%s:f%d" % (r["family"], r["bits"]), **s} for s in r["samples"][:1])
    chk.evaluations += runs
    chk.extra["abstract_runs"] = runs
    chk.extra["envelope_cases"] = cases
    chk.floor("sampler instances analysed", len([r for r in results if not r["missing"]]), 55)
    chk.floor("envelope cases (constructor Ok outcomes with finite arguments)", cases, 500)

    # (b) recorded obligations must stay proved
    bproved = set(base.get("proved", []))
    for key in sorted(bproved):
        if key in all_obl:
            ok, detail = all_obl[key]
            if ok:
                chk.ok("result", key, nontrivial=True)
            else:
                chk.violation("result", key, "obligation was proved on the reference tree and no longer is: generic abstract result is now %s" % detail)
    new_unproved = [k for k, (ok, d) in all_obl.items() if not ok and k not in bproved]
    for k in new_unproved[:300]:
        chk.unproved_note("result", k, "not proved (never was): " + all_obl[k][1])
    chk.extra["obligations_now"] = {"proved": len(proved_now), "unproved": len(all_obl) - len(proved_now), "baseline_proved": len(bproved),
                                    "baseline_keys_not_generated_now": len([k for k in bproved if k not in all_obl])}
    chk.floor("recorded result obligations re-established", len([k for k in bproved if k in all_obl and all_obl[k][0]]), int(0.9 * len(bproved)))

    # (a) singularities
    seen = set()
    for rf in refuted:
        key = "%s|%s|%s|%s" % (rf["family"], rf["site"], rf["draw"] + "@" + rf["special"],
                               "NaN" if "NaN" in rf["gives"] else ("above-support" if any(g.startswith("a value above") for g in rf["gives"]) else
                                                                 "below-support" if any(g.startswith("a value below") for g in rf["gives"]) else "non-finite"))
        if key in seen:
            continue
        seen.add(key)
        same = [x for x in refuted if (x["family"], x["site"], x["draw"], x["special"]) == (rf["family"], rf["site"], rf["draw"], rf["special"])]
        chk.violation("singular", key, "%s::sample returns %s when the %s draw at `%s` is exactly %s (a single-word event); e.g. parameters %s: result %s, "
                      "generic result %s [%d case(s)]" % (rf["family"], "/".join(rf["gives"]), rf["draw"], rf["site_line"], rf["special"], rf["case"],
                                                          rf["result"], rf["generic"], len(same)), where=rf["where"])
    if not refuted:
        chk.ok("singular", "no tagged draw adds NaN/inf to any generic result")
    chk.extra["tagged_refutations"] = len(seen)

    # (c) panic edges
    import rules_c05
    roots, reach, edges = rules_c05.sampling_reachable(F)
    sites_all = all_panic_sites(F, reach)
    chk.floor("panic edges in sampling code (asserts, unwraps, indexing, panics)", len(sites_all), 95)
    if write_baseline:
        json.dump({"proved": sorted(proved_now), "panic_sites_all": sorted(sites_all), "panic_unproved": sorted(panic_seen)}, open(BASELINE, "w"), indent=0)
        print("baseline written: %d proved result obligations, %d panic edges of which %d not discharged" % (len(proved_now), len(sites_all), len(panic_seen)))
        base = json.load(open(BASELINE))
    ball = set(base.get("panic_sites_all", []))
    bunp = set(base.get("panic_unproved", []))
    ndis = 0
    seen_prefix = {}
    for pk, info in panic_seen.items():
        seen_prefix.setdefault(pk.split("|via#")[0], []).append(pk)
    for base_pk in sorted(sites_all):
        for pk in (seen_prefix.get(base_pk) or [base_pk]):
          if pk in panic_seen:
            info = panic_seen[pk]
            if pk in bunp:
                chk.unproved_note("panic", pk, "may panic (%s); not discharged on the reference tree either" % info["kind"], info["where"])
            elif base_pk in ball:
                chk.violation("panic", pk, "panic edge `%s` in %s may now be reached in sample() (it was discharged on the reference tree): %s"
                              % (pk.split("|")[1], pk.split("|")[0], pk.split("|")[2]), where=info["where"])
            else:
                chk.unproved_note("panic", pk, "UNREVIEWED new panic edge, not discharged", info["where"])
          else:
            ndis += 1
            chk.ok("panic", pk, nontrivial=True)
    for pk, info in panic_seen.items():
        if not panic_key_matches(pk, sites_all) and pk not in bunp:
            chk.unproved_note("panic", pk, "UNREVIEWED panic event outside the enumerated edges", info["where"])
    chk.extra["panic_edges"] = {"enumerated": len(sites_all), "discharged": ndis, "may_panic": len(panic_seen)}
