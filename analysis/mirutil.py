"""Small utilities over serialized MIR bodies: def maps, constant tracing, float decoding, CFG helpers."""
import struct


def f64_from_bits(hexs):
    return struct.unpack("<d", struct.pack("<Q", int(hexs, 16)))[0]


def f32_from_bits(hexs):
    return struct.unpack("<f", struct.pack("<I", int(hexs, 16)))[0]


def const_value(F, c):
    """Python value of a scalar constant operand (float / int / bool), or None."""
    if c.get("k") != "const" or "bits" not in c:
        return None
    t = F.types[c["ty"]]
    if t["k"] == "float":
        return f64_from_bits(c["bits"]) if t["bits"] == 64 else f32_from_bits(c["bits"])
    if t["k"] == "int":
        v = int(c["bits"], 16)
        if t["signed"] and v >= 1 << (t["bits"] - 1):
            v -= 1 << t["bits"]
        return v
    if t["k"] == "bool":
        return bool(int(c["bits"], 16))
    return int(c["bits"], 16)


class Body:
    """Indexes over one full instance."""

    def __init__(self, F, inst):
        self.F = F
        self.inst = inst
        self.blocks = inst["blocks"]
        self.defs = {}     # local -> [(bb, idx or 'term', kind, payload)]
        for bi, b in enumerate(self.blocks):
            for si, s in enumerate(b["stmts"]):
                if s["k"] == "assign":
                    pl = s["place"]
                    self.defs.setdefault(pl["l"], []).append((bi, si, "assign" if not pl["p"] else "partial", s))
                elif s["k"] == "set_discriminant":
                    self.defs.setdefault(s["place"]["l"], []).append((bi, si, "partial", s))
            t = b["term"]
            if t and t["k"] == "call":
                pl = t["dest"]
                self.defs.setdefault(pl["l"], []).append((bi, "term", "call" if not pl["p"] else "partial", t))

    def single_def(self, local):
        ds = self.defs.get(local, [])
        if len(ds) == 1 and ds[0][2] in ("assign", "call"):
            return ds[0]
        return None

    def trace(self, op, depth=0):
        """Follow use/ref/deref copies of single-assignment locals back to a constant or a call.
        Returns ('const', c) | ('call', term) | ('arg', local, proj) | ('rv', rv) | None."""
        if depth > 16:
            return None
        if op["k"] == "const":
            return ("const", op)
        l = op["l"]
        proj = [p for p in op["p"] if p["k"] != "deref"]
        if l != 0 and l <= self.inst["arg_count"] and not self.defs.get(l):
            return ("arg", l, proj)
        d = self.single_def(l)
        if d is None:
            return None
        if d[2] == "call":
            return ("call", d[3]) if not proj else None
        rv = d[3]["rv"]
        if rv["k"] == "use":
            r = self.trace(rv["op"], depth + 1)
        elif rv["k"] == "ref":
            pl = dict(rv["place"])
            pl["k"] = "copy"
            r = self.trace(pl, depth + 1)
        elif rv["k"] == "cast" and rv["kind"].startswith("PointerCoercion"):
            r = self.trace(rv["op"], depth + 1)
        else:
            return ("rv", rv) if not proj else None
        if r and proj and r[0] == "arg":
            return ("arg", r[1], r[2] + proj)
        if r and proj:
            return None
        return r

    def calls(self):
        for bi, b in enumerate(self.blocks):
            t = b["term"]
            if t and t["k"] == "call":
                yield bi, t

    def float_consts(self):
        """All float constants appearing anywhere in the body (value, span)."""
        out = []

        def visit(x, span):
            if isinstance(x, dict):
                if x.get("k") == "const" and "bits" in x and self.F.types[x["ty"]]["k"] == "float":
                    out.append((const_value(self.F, x), span))
                sp = x.get("span", span)
                for v in x.values():
                    visit(v, sp)
            elif isinstance(x, list):
                for v in x:
                    visit(v, span)
        for b in self.blocks:
            visit(b, None)
        return out


# ---------------------------------------------------------------------------------------- CFG
def successors(term, with_unwind=False):
    if term is None:
        return []
    k = term["k"]
    out = []
    if k == "goto":
        out = [term["target"]]
    elif k == "switch":
        out = [t for _, t in term["targets"]] + [term["otherwise"]]
    elif k in ("call",):
        if term.get("target") is not None:
            out = [term["target"]]
    elif k in ("assert", "drop"):
        out = [term["target"]]
    if with_unwind and isinstance(term.get("unwind"), int):
        out.append(term["unwind"])
    return out


def reachable_blocks(blocks, entry=0):
    seen = set()
    st = [entry]
    while st:
        b = st.pop()
        if b in seen:
            continue
        seen.add(b)
        st.extend(successors(blocks[b]["term"]))
    return seen


def dominators(blocks, entry=0):
    """Iterative dominator sets over normal (non-unwind) edges."""
    reach = reachable_blocks(blocks, entry)
    preds = {b: set() for b in reach}
    for b in reach:
        for s in successors(blocks[b]["term"]):
            if s in preds:
                preds[s].add(b)
    dom = {b: set(reach) for b in reach}
    dom[entry] = {entry}
    order = sorted(reach)
    changed = True
    while changed:
        changed = False
        for b in order:
            if b == entry:
                continue
            ps = [dom[p] for p in preds[b]]
            new = set.intersection(*ps) if ps else set()
            new = new | {b}
            if new != dom[b]:
                dom[b] = new
                changed = True
    return dom, preds


def natural_loops(blocks, entry=0):
    """[(header, body set, back-edge sources)] from back edges t->h with h dominating t; loops sharing a header are merged."""
    dom, preds = dominators(blocks, entry)
    loops = {}
    for b in dom:
        for s in successors(blocks[b]["term"]):
            if s in dom and s in dom[b]:
                body = {s, b}
                st = [b]
                while st:
                    x = st.pop()
                    if x == s:
                        continue
                    for p in preds[x]:
                        if p not in body:
                            body.add(p)
                            st.append(p)
                h = loops.setdefault(s, [set(), set()])
                h[0] |= body
                h[1].add(b)
    return [(h, v[0], v[1]) for h, v in sorted(loops.items())], dom, preds


def bool_branch_taken(term, nxt):
    """For a `switch` on a boolean: is the edge to block `nxt` the *true* edge?  (targets = [(0, false block)], otherwise = true block;
    target values are serialised as hex strings)"""
    for v, tg in term["targets"]:
        iv = int(v, 16) if isinstance(v, str) else v
        if iv == 0 and tg == nxt:
            return False
    return True
