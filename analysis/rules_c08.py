"""C08 — WeightedAliasIndex: the validation clause of `new` (DESIGN.md 5/C08).

`new` is run in the abstract interpreter on homogeneous weight vectors (every element in one cell) of lengths 0, 1, 3 and 7 for every
extracted weight type.  Cells: NaN, -inf, negative, -0, +0, small positive, the per-length maximum MAX/len (accepted), just above it,
the type's MAX and +inf.  The verdict must be: InvalidInput for the empty vector; InvalidWeight for NaN / negative / greater than
MAX/len; InsufficientNonZero when all weights are zero; otherwise none of the three errors and Ok among the outcomes.
Not decided: exactness of the alias table, weights() reconstruction, sampling frequencies (numerical / data-structure invariants).
"""
CONFIGS_THOROUGH = ["serde"]
ALL_WEIGHTS_THOROUGH = True

import rules_c04
from facts import span_str
import values as V
from absint import Interp, Vc, usize
from axioms import Axioms, F32_MAX, F64_MAX
from fractions import Fraction
from values import Fl, In

NEW = "weighted::weighted_alias::WeightedAliasIndex::<W>::new"


def cells_for(t, n):
    """(name, value, class) with class in bad | zero | ok"""
    if t["k"] == "float":
        mx = F32_MAX if t["bits"] == 32 else F64_MAX
        per = mx / n if n else mx
        out = [("nan", Fl(nan=True), "bad"), ("-inf", Fl(ninf=True), "bad"), ("neg", Fl.rng(V.NINF, False, 0, False), "bad"),
               ("-0", Fl(nz=True), "zero"), ("+0", Fl.point(0), "zero"), ("small", Fl.rng(0, False, 10, False), "ok"),
               ("+inf", Fl(pinf=True), "bad"), ("MAX", Fl.point(mx), "ok" if n <= 1 else "bad")]
        if n > 1:
            out.append(("(MAX/len, MAX)", Fl.rng(per * Fraction(101, 100), False, mx, False), "bad"))
            out.append(("(0, MAX/len)", Fl.rng(0, False, per * Fraction(99, 100), False), "ok"))
        return out
    full = In.of_type(t["bits"], t["signed"])
    mx = full.hi
    per = mx // n if n else mx
    mk = lambda a, b: In(a, b, t["bits"], t["signed"])  # noqa: E731
    if n > mx:
        # the length itself is not representable in W: MAX/len is 0, so every non-zero weight is too large and only all-zero vectors
        # remain (documented as InsufficientNonZero)
        out = [("0", mk(0, 0), "zero"), ("1", mk(1, 1), "bad"), ("MAX", mk(mx, mx), "bad")]
        if t["signed"]:
            out.append(("neg", mk(full.lo, -1), "bad"))
        return out
    out = [("0", mk(0, 0), "zero"), ("small", mk(1, min(5, per)), "ok"), ("MAX/len", mk(per, per), "ok"),
           ("MAX", mk(mx, mx), "ok" if n <= 1 else "bad")]
    if n > 1:
        out.append(("[MAX/len+1, MAX]", mk(per + 1, mx), "bad"))
    if t["signed"]:
        out.append(("neg", mk(full.lo, -1), "bad"))
    return out


def run(chk, F, tier):
    chk.trusted += ["axioms for Vec/slice iterators, Iterator::all/sum, Uniform::new (analysis/axioms.py)",
                    "homogeneous vectors stand for their order class; mixtures are covered by `all` being evaluated on a summary element"]
    ax = Axioms(F)
    insts = [i for i in F.instances if i.get("full") and i["path"] == NEW]
    chk.floor("instances of WeightedAliasIndex::new", len(insts), 4)
    n = ndec = 0
    for inst in insts:
        w = F.types[inst["targs"][0]]
        for ln in (0, 1, 3, 7, 300):
            for cname, val, cls in cells_for(w, ln):
                ip = Interp(F, ax)
                rv, st = ip.run_root(inst, [Vc(val, usize(ln))])
                outs = rules_c04.outcome_names(F, rv) if st is not None else {"diverges"}
                real = (outs or set()) - {"panic"}
                key = "new<%s>([%s; %d])" % (w["s"], cname, ln)
                n += 1
                if ln == 0:
                    want = {"InvalidInput"}
                elif cls == "bad":
                    want = {"InvalidWeight"}
                elif cls == "zero":
                    want = {"InsufficientNonZero"}
                else:
                    want = None
                unk = [x for x in ip.imprecise if x.startswith(("unknown call", "indirect call", "call of unknown", "step limit", "recursion"))]
                if want is not None:
                    if real == want:
                        chk.ok("validation", key + " -> " + "/".join(sorted(want)))
                        ndec += 1
                    elif unk and want <= real:
                        chk.unproved_note("validation", key, "not decided: the abstract run met code it has no model for (%s); outcomes %s" % (unk[0], sorted(outs)))
                    else:
                        chk.violation("validation", key, "%s returns %s, documented: %s" % (key, sorted(outs), sorted(want)))
                else:
                    errs = real & {"InvalidInput", "InvalidWeight", "InsufficientNonZero"}
                    if (errs or "Ok" not in real) and unk and "Ok" in real:
                        chk.unproved_note("validation", key, "not decided: the abstract run met code it has no model for (%s); outcomes %s" % (unk[0], sorted(outs)))
                    elif errs or "Ok" not in real:
                        chk.violation("validation", key, "%s returns %s for a valid weight vector (documented: Ok)" % (key, sorted(outs)))
                    else:
                        chk.ok("validation", key + " -> Ok")
                        ndec += 1
    chk.floor("validation cases", n, 60)
    chk.floor("validation cases decided", ndec, 60)
    # ---- position-sensitive vectors: one valid head followed by invalid weights, and one invalid head followed by valid weights —
    # a validation that looks only at the first element, or only at the extremes of a fold seeded with it, accepts one of them
    npos = 0
    for inst in insts:
        w = F.types[inst["targs"][0]]
        for ln in (3, 7):
            cells = cells_for(w, ln)
            good = next((v for c, v, cls in cells if cls == "ok" and c in ("small", "(0, MAX/len)")), None)
            if good is None:
                continue
            for cname, val, cls in cells:
                if cls != "bad":
                    continue
                for label, vec in (("[ok, %s, ...]" % cname, Vc(val, usize(ln), head=good)), ("[%s, ok, ...]" % cname, Vc(good, usize(ln), head=val))):
                    ip = Interp(F, ax)
                    rv, st = ip.run_root(inst, [vec])
                    outs = rules_c04.outcome_names(F, rv) if st is not None else {"diverges"}
                    real = (outs or set()) - {"panic"}
                    key = "new<%s>(%s, len %d)" % (w["s"], label, ln)
                    npos += 1
                    if real == {"InvalidWeight"}:
                        chk.ok("validation", key + " -> InvalidWeight", nontrivial=(npos <= 6))
                    else:
                        chk.violation("validation", "pos:" + key, "%s returns %s, documented: InvalidWeight (an invalid weight at that position is not rejected)" % (key, sorted(outs)))
    chk.floor("position-sensitive validation cases", npos, 40)
    # ---- the weight sum: every `AliasableWeight::sum` implementation (and what it delegates to) adds up every element.  Necessary
    # condition decided exactly: on the all-ones vector of exact length n the result is n (no rounding, any summation order).
    import rules_c11
    nsum = 0
    for inst in F.instances:
        if not (inst.get("full") and inst.get("local") and inst["arg_count"] == 1):
            continue
        if not (inst["path"].endswith("AliasableWeight>::sum") or inst["path"] == "weighted::weighted_alias::AliasableWeight::sum" or
                (inst["path"].startswith("weighted::weighted_alias::") and inst["path"].rsplit("::", 1)[-1].split("<")[0].endswith("sum"))):
            continue
        n_ok, fail = rules_c11.ones_exact(F, ax, inst)
        nsum += 1
        if fail and fail.startswith("imprecise"):
            chk.unproved_note("weight-sum", inst["key"], "could not be evaluated exactly (%s): not decided" % fail)
        elif fail:
            chk.violation("weight-sum", inst["path"] + "|" + F.types[inst["locals"][0]["ty"]]["s"], "%s does not add up every weight: %s (weight_sum would be too small: "
                          "wrong odds, spurious InsufficientNonZero)" % (inst["key"], fail), where=span_str(inst.get("span")))
        else:
            chk.ok("weight-sum", "%s: exact on the all-ones vector for %d lengths (0..69, 100, 127..129, 255..257, 300, 1000 where representable)" % (inst["key"], n_ok), nontrivial=(nsum <= 3))
    chk.floor("weight-sum implementations", nsum, 6)
    chk.notes.append("index operations inside the alias construction are not discharged (data-structure invariant): reported, not alarmed")
