"""C14 — sampling is a pure function of (distribution value, RNG stream).

Type-and-effect argument over the resolved, monomorphic program (see DESIGN.md 5/C14):
  T  every distribution type is plain data at every depth (no interior mutability, raw pointers, &mut,
     fn pointers or trait objects; Vec/Box are transparent owning containers);
  S  the crate has no mutable / interior-mutable / thread-local static, and no reachable instance refers to one;
  U  no user-written unsafe;
  E  the transitive resolved call graph from every crate-local function (sampling, constructors, Clone,
     PartialEq, Debug, accessors) stays inside an allow-listed set of crates, reaches no entropy / clock /
     thread / env / atomic / cell API, no thread-local access, no pointer-to-integer exposure, no inline asm
     outside libm's sqrt, and performs dynamic dispatch only inside core::fmt;
  C  Clone / PartialEq of distribution types are derived or field-wise;
  D  Distribution impls define `sample` only.
"""
CONFIGS_THOROUGH = ["serde", "release", "std_math"]
ALL_WEIGHTS_THOROUGH = True

import re

from facts import span_str

ALLOWED_CRATES = {"rand_distr", "core", "alloc", "num_traits", "libm", "rand", "rand_core"}
SERDE_CRATES = {"serde", "serde_core", "serde_with"}

# std is not allow-listed as a crate: only its float-math inherent methods (thin wrappers of intrinsics)
STD_OK = re.compile(r"^std::f(32|64)::<impl f(32|64)>::[a-z0-9_]+$|^std::sys::cmath::[a-z0-9_]+$")   # float math wrappers and the C libm bindings behind them

DENY = [
    (re.compile(p), why) for p, why in [
        (r"\brand::rng\b|\brand::thread_rng\b|\brand::random\b|\brand::random_iter\b|\brand::random_range\b|"
         r"\brand::random_bool\b|\brand::random_ratio\b|\brand::fill\b|\brand::make_rng\b", "global entropy source"),
        (r"\brand::rngs::", "rand's own generators (ThreadRng/SysRng/...) are entropy sources"),
        (r"\bgetrandom\b|\bSysRng\b|\bOsRng\b|\bThreadRng\b", "operating-system entropy"),
        (r"\bstd::time\b|\bstd::thread\b|\bstd::env\b|\bstd::fs\b|\bstd::io\b|\bstd::net\b|\bstd::process\b|"
         r"\bstd::os\b|\bstd::sys::(?!cmath::)", "environment access (clock / thread / env / fs / io)"),
        (r"RandomState|\bstd::hash::random\b|\bDefaultHasher\b", "randomly seeded hashing"),
        (r"\bcore::sync::atomic\b|\bstd::sync\b|\bcore::intrinsics::atomic_", "shared mutable state (atomics / locks)"),
        (r"\bcore::cell::(Cell|RefCell|OnceCell|LazyCell|UnsafeCell)|\bstd::cell\b|OnceLock|LazyLock|\bonce_cell\b|"
         r"\blazy_static\b", "interior mutability"),
        (r"\bcore::hint::black_box\b", "optimisation barrier / opaque value"),
        (r"\bcore::arch::|\bcore::core_arch::.*(rdrand|rdseed|rdtsc)", "hardware entropy / time-stamp counter"),
        (r"\bcore::ptr::write_volatile\b|\bcore::intrinsics::volatile_store\b", "volatile memory write"),
        (r"\bLocalKey\b|thread_local", "thread-local storage"),
    ]
]

# leaves (no MIR available) that are known to be pure or to diverge
LEAF_OK = [
    re.compile(p) for p in [
        r"^core::intrinsics::(?!atomic_|volatile_store|breakpoint)",   # compiler intrinsics (pure arithmetic / memory)
        r"^core::panicking::", r"^core::option::(unwrap_failed|expect_failed)$", r"^core::result::unwrap_failed$",
        r"^core::slice::index::", r"^core::str::", r"^core::fmt::", r"^<.* as core::fmt::(Display|Debug|UpperHex|LowerHex)>::fmt$",
        r"^core::slice::memchr::", r"^core::cell::panic_already", r"^core::num::", r"^core::char::", r"^core::unicode::",
        r"^alloc::alloc::(__rust_alloc|__rust_dealloc|__rust_realloc|__rust_alloc_zeroed|handle_alloc_error|__rust_no_alloc_shim_is_unstable_v2)",
        r"^alloc::raw_vec::", r"^alloc::string::", r"^alloc::fmt::", r"^alloc::vec::", r"^alloc::str::", r"^alloc::slice::",
        r"^core::ptr::", r"^core::alloc::", r"^core::f(32|64)::", r"^core::array::", r"^core::ops::", r"^core::iter::", r"^core::mem::",
        r"^core::cmp::", r"^core::convert::", r"^core::hash::", r"^core::any::", r"^core::error::", r"^core::ascii::",
        r"^core::ub_checks::", r"^std::sys::cmath::[a-z0-9_]+$",   # extern "C" libm functions (tan, tgamma, ...): pure
        r"^core::hint::(assert_unchecked|unreachable_unchecked|must_use|spin_loop)",
        r"^core::slice::",   # slice algorithms and their panic helpers (copy_from_slice's len_mismatch_fail, sort, ...): no state
        r"^core::panic::", r"^core::ffi::", r"^core::time::",    # core::time is the Duration *type*, no clock
    ]
]


def _deny(path):
    for rx, why in DENY:
        if rx.search(path):
            return why
    return None


def deep_leaves(F, ix, seen=None, trail=()):
    """Yield (kind, description, trail) for every impure leaf in the deep type tree of types[ix]."""
    if seen is None:
        seen = set()
    if ix in seen:
        return
    seen.add(ix)
    t = F.types[ix]
    k = t["k"]
    if k in ("bool", "char", "int", "float", "str", "never"):
        return
    if k == "adt":
        if t.get("unsafe_cell"):
            yield ("unsafe_cell", t["s"], trail)
            return
        if t.get("phantom"):
            return
        p = t["path"]
        if p in ("alloc::vec::Vec", "alloc::boxed::Box"):
            # owning containers: their raw pointer is an implementation detail; purity follows the element
            if t["args"]:
                yield from deep_leaves(F, t["args"][0], seen, trail + (t["name"],))
            return
        why = _deny(p)
        if why:
            yield ("denied_type", "%s (%s)" % (t["s"], why), trail)
            return
        for v in t["variants"]:
            for f in v["fields"]:
                yield from deep_leaves(F, f["ty"], seen, trail + ("%s::%s.%s" % (t["name"], v["name"], f["name"]),))
        return
    if k == "ref":
        if t["mut"]:
            yield ("mut_ref", t["s"], trail)
        yield from deep_leaves(F, t["to"], seen, trail + ("&",))
        return
    if k == "rawptr":
        yield ("raw_pointer", t["s"], trail)
        return
    if k in ("array", "slice"):
        yield from deep_leaves(F, t["elem"], seen, trail + ("[]",))
        return
    if k == "tuple":
        for e in t["elems"]:
            yield from deep_leaves(F, e, seen, trail + ("()",))
        return
    if k == "param":
        yield ("param", t["s"], trail)
        return
    if k in ("fnptr", "dyn", "closure", "fndef", "alias", "foreign", "other"):
        yield (k, t["s"], trail)
        return


def has_param(F, ix, seen=None):
    if seen is None:
        seen = set()
    if ix in seen:
        return False
    seen.add(ix)
    t = F.types[ix]
    k = t["k"]
    if k == "param":
        return True
    if k == "adt":
        return any(has_param(F, a, seen) for a in t["args"])
    if k in ("ref", "rawptr"):
        return has_param(F, t["to"], seen)
    if k in ("array", "slice"):
        return has_param(F, t["elem"], seen)
    if k == "tuple":
        return any(has_param(F, e, seen) for e in t["elems"])
    return False


def is_serde_impl(imp):
    tr = imp.get("trait") or ""
    return imp.get("trait_krate") in SERDE_CRATES or "_serde::" in tr


def run(chk, F, tier):
    meta = F.meta
    chk.trusted += [
        "rustc's type system and borrow checker (a `&self` receiver without interior mutability cannot be mutated)",
        "the resolved call graph of rustc's monomorphic MIR (Instance::try_resolve) incl. dependency MIR (-Zalways-encode-mir)",
        "leaf functions without MIR (compiler intrinsics, panic/fmt/alloc entry points of core/alloc) are pure or diverge",
    ]
    # ------------------------------------------------------------------ U: unsafe
    user_unsafe = []
    for u in F.raw["unsafe"]:
        sp = u["span"]
        compiler_generated = u.get("source") == "CompilerGenerated" or (u["kind"] == "unsafe_impl" and sp.get("exp") in ("Clone", "Copy"))
        if compiler_generated:
            continue
        user_unsafe.append(u)
        chk.violation("unsafe", "%s@%s" % (u["kind"], sp.get("file")), "user-written `unsafe` (%s): the purity argument "
                      "assumes safe Rust" % u["kind"], where=span_str(sp))
    forbid = any("forbid(unsafe_code)" in a for a in meta["crate_attrs"])
    chk.ok("unsafe", "no user-written unsafe block/fn/impl/trait/extern in the crate (HIR walk)",
           detail={"sites_seen": len(F.raw["unsafe"]), "all_compiler_generated": not user_unsafe, "forbid_unsafe_code_attr": forbid})
    chk.extra["forbid_unsafe_code"] = forbid

    # ------------------------------------------------------------------ S: statics of the crate
    nstat = 0
    for path, s in sorted(F.statics.items()):
        nstat += 1
        bad = []
        if s["mutable"]:
            bad.append("static mut")
        if not s["freeze"]:
            bad.append("interior mutability (!Freeze)")
        if s["thread_local"]:
            bad.append("thread-local")
        if s.get("has_ptrs"):
            bad.append("contains pointers")
        if bad:
            chk.violation("static", path, "static `%s: %s` is %s: sampling could keep state between calls" % (path, s["ty"], ", ".join(bad)),
                          where=span_str(s["span"]))
        else:
            chk.ok("static", path, detail={"ty": s["ty"]})
    for a in F.raw["ast_items"]:
        if a["kind"] == "macro" and any("thread_local" in x for x in a["attrs"]):
            chk.violation("static", "thread_local!@" + a["path"], "thread_local! in module %s" % a["path"])

    # ------------------------------------------------------------------ T: distribution types are plain data
    dist_adts = set()
    for imp in F.impls:
        tr = imp.get("trait") or ""
        if tr.endswith("::Distribution") or tr.endswith("::MultiDistribution"):
            if imp.get("self_adt"):
                dist_adts.add(imp["self_adt"])
    # every monomorphic instantiation of those ADTs seen anywhere in the analysed program
    ntypes = 0
    covered = set()
    for ix, t in enumerate(F.types):
        if t["k"] != "adt" or t["krate"] != "rand_distr" or t["path"] not in dist_adts:
            continue
        if has_param(F, ix):
            continue
        ntypes += 1
        covered.add(t["path"])
        leaves = list(deep_leaves(F, ix))
        if leaves:
            for kind, desc, trail in leaves[:3]:
                chk.violation("type", "%s|%s" % (t["s"], kind),
                              "distribution type `%s` contains %s `%s` (via %s): `sample(&self)` could keep state / is not plain data"
                              % (t["s"], kind.replace("_", " "), desc, " -> ".join(trail) or "itself"))
        else:
            chk.ok("type", t["s"])
    for p in sorted(dist_adts - covered):
        chk.violation("type", p + "|uninstantiated", "distribution type %s was never instantiated by the extractor: cannot decide" % p)
    chk.floor("distribution ADTs (impl Distribution/MultiDistribution)", len(dist_adts), 38)
    chk.floor("monomorphic distribution types examined", ntypes, 60)

    # ------------------------------------------------------------------ E: effects over the resolved call graph
    serde_roots = set()
    start = []
    for i in F.instances:
        if not (i.get("local") and i.get("full")):
            continue
        it = i.get("impl_trait") or ""
        if "_serde::" in it or "serde" in it.split("::")[0]:
            serde_roots.add(i["key"])
            continue
        if "_serde::" in i["key"]:
            serde_roots.add(i["key"])
            continue
        start.append(i["key"])
    seen = {}
    stack = [(k, None) for k in start]
    while stack:
        k, parent = stack.pop()
        if k in seen:
            continue
        seen[k] = parent
        inst = F.by_key.get(k)
        if inst is None:
            continue
        for ck, c in F.callees(inst):
            if ck not in seen:
                stack.append((ck, k))

    def chain(k):
        out = []
        while k is not None and len(out) < 12:
            out.append(k)
            k = seen.get(k)
        return list(reversed(out))

    n_inst = n_leaf = n_calls = 0
    crates = {}
    for k in seen:
        inst = F.by_key.get(k)
        if inst is None:
            chk.violation("effects", "missing:" + k, "callee %s was scheduled but not extracted" % k)
            continue
        n_inst += 1
        kr = inst["krate"]
        crates[kr] = crates.get(kr, 0) + 1
        path = inst["key"]
        why = _deny(path) or _deny(inst["path"])
        if why:
            chk.violation("effects", "deny:" + inst["path"], "call graph reaches `%s`: %s" % (path, why),
                          where=" -> ".join(chain(k)[-4:]))
            continue
        if kr == "std":
            if not STD_OK.match(inst["path"]):
                chk.violation("effects", "std:" + inst["path"], "call graph reaches `%s` in std (only f32/f64 math wrappers are allow-listed)" % path,
                              where=" -> ".join(chain(k)[-4:]))
                continue
        elif kr not in ALLOWED_CRATES:
            chk.violation("effects", "crate:" + kr + ":" + inst["path"], "call graph reaches crate `%s` (`%s`), outside the allow-list %s"
                          % (kr, path, sorted(ALLOWED_CRATES)), where=" -> ".join(chain(k)[-4:]))
            continue
        for e in inst.get("effects", []):
            if e["k"] == "inline_asm" and inst["path"].startswith("libm::math::arch::"):
                continue   # sqrtsd/sqrtss: pure
            chk.violation("effects", "%s:%s" % (e["k"], inst["path"]), "`%s` performs %s" % (path, e["k"].replace("_", " ")),
                          where=span_str(e.get("span")) + " via " + " -> ".join(chain(k)[-3:]))
        for s in inst.get("static_refs", []):
            if s.get("static_mut") or not s.get("static_freeze", True) or s.get("static_tls"):
                chk.violation("effects", "static:%s:%s" % (s["static"], inst["path"]),
                              "`%s` touches %s static `%s`" % (path, "mutable" if s.get("static_mut") else "interior-mutable/thread-local", s["static"]),
                              where=" -> ".join(chain(k)[-3:]))
        for c in inst.get("callees", []):
            n_calls += 1
            if c.get("indirect") or c.get("res") == "virtual" or c.get("tail"):
                # dynamic dispatch hides the callee: tolerated only inside core's formatting machinery
                if kr in ("core", "alloc") and ("fmt" in inst["path"] or "Formatter" in inst["path"] or "panic" in inst["path"]):
                    continue
                chk.violation("effects", "dyn:" + inst["path"], "`%s` makes a dynamically dispatched call (callee not resolvable)" % path,
                              where=span_str(c.get("span")))
            if c.get("res") == "unresolved" and not c.get("key"):
                # trait method on a type parameter: allowed only on the caller-supplied RNG and float/weight params
                tr = c.get("trait") or ""
                ok = (tr.startswith("rand::Rng") or tr.startswith("rand::TryRng") or tr.startswith("rand_core::") or
                      tr.startswith("rand::RngExt") or tr.startswith("core::ops::Fn") or
                      tr in ("core::cmp::PartialEq", "core::clone::Clone", "core::fmt::Debug", "core::cmp::PartialOrd", "core::fmt::Display"))
                if not ok:
                    chk.violation("effects", "unres:%s:%s" % (c.get("shown"), inst["path"]),
                                  "`%s` calls `%s`, which cannot be resolved to a body" % (path, c.get("shown")), where=span_str(c.get("span")))
        if not inst.get("has_mir"):
            n_leaf += 1
            nm = inst["key"].split(" - ")[0]
            if inst["kind"] == "virtual":
                continue
            if not any(rx.search(nm) for rx in LEAF_OK):
                chk.violation("effects", "leaf:" + inst["path"], "call graph ends in `%s` (crate %s) whose body is not available and "
                              "which is not in the reviewed list of pure leaves" % (nm, kr), where=" -> ".join(chain(k)[-4:]))
    chk.ok("effects", "transitive resolved call graph of all non-serde crate-local functions is effect-free",
           detail={"start_instances": len(start), "instances_reached": n_inst, "call_sites": n_calls, "leaves_without_mir": n_leaf, "by_crate": crates},
           sample=True)
    chk.obligations += n_inst - 1
    chk.discharged += n_inst - 1 if not chk.violations else 0
    chk.evaluations += n_inst - 1
    chk.floor("call-graph start instances", len(start), 600)
    chk.floor("instances reached", n_inst, 1500)
    chk.extra["call_graph"] = {"start": len(start), "reached": n_inst, "calls": n_calls, "leaves": n_leaf, "crates": crates}

    # sampling roots specifically (the property's subject), listed for the evidence
    sample_roots = [i["key"] for i in F.instances if i.get("local") and i.get("full") and
                    (i.get("impl_trait") or "").endswith(("::Distribution", "::MultiDistribution"))]
    chk.floor("Distribution/MultiDistribution method instances", len(sample_roots), 80)
    chk.extra["sampling_roots"] = len(sample_roots)

    # ------------------------------------------------------------------ D: Distribution impls define only `sample`
    nd = 0
    for imp in F.impls:
        tr = imp.get("trait") or ""
        if tr.endswith("::Distribution"):
            nd += 1
            names = sorted(x["name"] for x in imp["items"])
            if names != ["sample"]:
                chk.violation("dist-impl", imp["self_ty"], "impl Distribution for %s defines %s; overriding sample_iter/map can make "
                              "`sample_iter` disagree with repeated `sample`" % (imp["self_ty"], names), where=span_str(imp["span"]))
            else:
                chk.ok("dist-impl", imp["self_ty"], nontrivial=False)
    chk.floor("impl Distribution blocks", nd, 40)
    # D2: an inherent method named like a provided method of `Distribution` shadows it at every method-call site
    # (`d.sample_iter(rng)` resolves to the inherent one), so iterating could consume the RNG differently from repeated `sample`.
    SHADOW = {"sample", "sample_iter", "map"}
    ni = 0
    for imp in F.impls:
        if imp.get("trait"):
            continue
        ni += 1
        if imp.get("self_adt") in dist_adts:
            bad = sorted(x["name"] for x in imp["items"] if x["name"] in SHADOW)
            if bad:
                chk.violation("dist-impl", "inherent:%s:%s" % (imp["self_adt"], ",".join(bad)), "inherent impl of %s defines %s, which shadows the "
                              "Distribution trait method of the same name: `d.%s(..)` no longer goes through `Distribution::sample`" % (
                                  imp["self_adt"], bad, bad[0]), where=span_str(imp["span"]))
            else:
                chk.ok("dist-impl", "inherent impl of %s: no method shadows sample/sample_iter/map" % imp["self_adt"], nontrivial=False)
    chk.floor("inherent impl blocks scanned", ni, 30)

    # ------------------------------------------------------------------ C: Clone / PartialEq derived or field-wise
    closure_adts = set(dist_adts)
    # field closure over crate-local ADTs
    changed = True
    local_adt_fields = {}
    for t in F.types:
        if t["k"] == "adt" and t["krate"] == "rand_distr":
            for v in t["variants"]:
                for f in v["fields"]:
                    ft = F.types[f["ty"]]
                    stack = [ft]
                    while stack:
                        x = stack.pop()
                        if x["k"] == "adt":
                            if x["krate"] == "rand_distr":
                                local_adt_fields.setdefault(t["path"], set()).add(x["path"])
                            else:
                                stack.extend(F.types[a] for a in x["args"])
                        elif x["k"] in ("array", "slice"):
                            stack.append(F.types[x["elem"]])
                        elif x["k"] == "tuple":
                            stack.extend(F.types[e] for e in x["elems"])
    while changed:
        changed = False
        for a in list(closure_adts):
            for b in local_adt_fields.get(a, ()):
                if b not in closure_adts:
                    closure_adts.add(b)
                    changed = True
    nc = 0
    for imp in F.impls:
        tr = imp.get("trait") or ""
        if tr in ("core::clone::Clone", "core::cmp::PartialEq") and imp.get("self_adt") in closure_adts:
            nc += 1
            key = "%s for %s" % (tr.split("::")[-1], imp["self_adt"])
            if imp["derived"]:
                chk.ok("clone-eq", key, nontrivial=False)
            else:
                ok, why = fieldwise_clone(F, imp) if tr.endswith("Clone") else (False, "hand-written PartialEq")
                if ok:
                    chk.ok("clone-eq", key, detail=why)
                else:
                    chk.violation("clone-eq", key, "hand-written %s is not provably field-wise: %s — a clone/equal value could sample differently"
                                  % (key, why), where=span_str(imp["span"]))
    chk.floor("Clone/PartialEq impls of distribution types and their parts", nc, 85)
    chk.extra["distribution_adts"] = sorted(dist_adts)


def fieldwise_clone(F, imp):
    """A hand-written `clone`: every monomorphic instance must build Self from per-field clones of self's fields."""
    method = None
    extra = []
    for it in imp["items"]:
        if it["name"] == "clone":
            method = it["path"]
        elif it["name"] == "clone_from":
            extra.append(it["path"])
        else:
            return False, "unexpected item `%s` in a Clone impl" % it["name"]
    for pth in extra:
        insts = [i for i in F.instances if i.get("full") and i["path"] == pth]
        if not insts:
            return False, "clone_from is overridden but was not instantiated"
        for inst in insts:
            ok, why = _clone_from_body(F, inst)
            if not ok:
                return False, "%s: %s" % (inst["key"], why)
    if not method:
        return False, "no clone method found"
    insts = [i for i in F.instances if i.get("full") and i["path"] == method]
    if not insts:
        return False, "clone was not instantiated"
    for inst in insts:
        ok, why = _fieldwise_clone_body(F, inst)
        if not ok:
            return False, "%s: %s" % (inst["key"], why)
    return True, {"instances": [i["key"] for i in insts], "rule": "result field i = Clone::clone(&self.field i) / copy of self.field i"}


def _fieldwise_clone_body(F, inst):
    defs = {}   # local -> ("call", fn, args) | ("rv", rv)
    ret_agg = None
    for b in inst["blocks"]:
        for s in b["stmts"]:
            if s["k"] == "assign" and not s["place"]["p"]:
                defs.setdefault(s["place"]["l"], []).append(("rv", s["rv"]))
                if s["place"]["l"] == 0 and s["rv"]["k"] == "aggregate":
                    ret_agg = s["rv"]
        t = b["term"]
        if t and t["k"] == "call" and not t["dest"]["p"]:
            defs.setdefault(t["dest"]["l"], []).append(("call", t["func"].get("fn", {}), t["args"]))
    if ret_agg is None or ret_agg.get("agg") != "adt":
        return False, "return value is not built as one struct literal"
    self_ty = F.types[inst["locals"][0]["ty"]]
    nfields = len(self_ty["variants"][0]["fields"]) if self_ty["k"] == "adt" and self_ty["variants"] else -1
    if len(ret_agg["ops"]) != nfields:
        return False, "struct literal has %d operands, type has %d fields" % (len(ret_agg["ops"]), nfields)

    def source_field(op, depth=0):
        """Which field of *self does this operand carry (by clone/copy chains)?"""
        if depth > 8 or op["k"] == "const":
            return None
        proj = op["p"]
        if op["l"] == 1 and len(proj) >= 2 and proj[0]["k"] == "deref" and proj[1]["k"] == "field":
            return proj[1]["i"]
        if proj:
            if proj == [{"k": "deref"}] or (len(proj) == 1 and proj[0]["k"] == "deref"):
                pass
            else:
                return None
        ds = defs.get(op["l"], [])
        if len(ds) != 1:
            return None
        kind = ds[0][0]
        if kind == "rv":
            rv = ds[0][1]
            if rv["k"] == "use":
                return source_field(rv["op"], depth + 1)
            if rv["k"] == "ref":
                pl = dict(rv["place"])
                pl["k"] = "copy"
                return source_field(pl, depth + 1)
            return None
        fn, args = ds[0][1], ds[0][2]
        if fn.get("method") == "clone" and (fn.get("trait") or "").endswith("clone::Clone") and len(args) == 1:
            return source_field(args[0], depth + 1)
        return None

    for i, op in enumerate(ret_agg["ops"]):
        sf = source_field(op)
        if sf != i:
            return False, "field %d of the result comes from %s" % (i, "self.field %d" % sf if sf is not None else "something other than a clone of self's field")
    return True, "ok"


def _clone_from_body(F, inst):
    """A hand-written `clone_from(&mut self, source)`: on every path to the return, every field of *self is (re)written — assigned,
    mutably borrowed for an in-place copy, or *self assigned as a whole.  A field left untouched keeps the old value, so the
    'clone' samples differently from its source (must-write dataflow over the CFG, intersection at joins)."""
    from mirutil import successors
    self_ref = F.types[inst["locals"][1]["ty"]]
    self_ty = F.types[self_ref["to"]] if self_ref["k"] == "ref" else None
    if not self_ty or self_ty["k"] != "adt" or not self_ty["variants"]:
        return False, "self type not understood"
    allf = frozenset(range(len(self_ty["variants"][0]["fields"])))
    # locals that are plain copies/reborrows of the self reference
    selfs = {1}
    changed = True
    while changed:
        changed = False
        for b in inst["blocks"]:
            for s in b["stmts"]:
                if s["k"] == "assign" and not s["place"]["p"] and s["place"]["l"] not in selfs:
                    rv = s["rv"]
                    src = None
                    if rv["k"] == "use" and rv["op"]["k"] in ("copy", "move") and not rv["op"]["p"]:
                        src = rv["op"]["l"]
                    elif rv["k"] == "ref" and rv["place"]["p"] == [{"k": "deref"}]:
                        src = rv["place"]["l"]
                    if src in selfs:
                        selfs.add(s["place"]["l"])
                        changed = True

    # pointers copied out of a field of *self (elaborated Box derefs: `p = copy ((*self).f.0.0); q = p as *mut _; &mut *q`)
    derived = {}
    changed = True
    while changed:
        changed = False
        for b in inst["blocks"]:
            for s in b["stmts"]:
                if s["k"] == "assign" and not s["place"]["p"] and s["place"]["l"] not in derived:
                    rv = s["rv"]
                    op = rv.get("op") if rv["k"] in ("use", "cast") else None
                    if not op or op["k"] not in ("copy", "move"):
                        continue
                    f = None
                    if op["l"] in selfs and len(op["p"]) >= 2 and op["p"][0]["k"] == "deref" and op["p"][1]["k"] == "field":
                        f = op["p"][1]["i"]
                    elif op["l"] in derived and all(q["k"] == "field" for q in op["p"]):
                        f = derived[op["l"]]
                    if f is not None:
                        derived[s["place"]["l"]] = f
                        changed = True

    def written(place, borrow=False):
        if borrow and place["l"] in derived and place["p"] and place["p"][0]["k"] == "deref":
            return frozenset([derived[place["l"]]])
        if place["l"] not in selfs or not place["p"] or place["p"][0]["k"] != "deref":
            return frozenset()
        if len(place["p"]) == 1:
            return frozenset() if borrow else allf
        if place["p"][1]["k"] == "field":
            return frozenset([place["p"][1]["i"]])
        return frozenset()

    def transfer(bi, inn):
        out = set(inn)
        b = inst["blocks"][bi]
        for s in b["stmts"]:
            if s["k"] == "assign":
                out |= written(s["place"])
                if s["rv"]["k"] == "ref" and s["rv"].get("bk") == "mut":
                    out |= written(s["rv"]["place"], borrow=True)
        t = b["term"]
        if t and t["k"] == "call":
            out |= written(t["dest"])
        return frozenset(out)

    nb = len(inst["blocks"])
    IN = {0: frozenset()}
    work = [0]
    while work:
        bi = work.pop()
        out = transfer(bi, IN[bi])
        for s in successors(inst["blocks"][bi]["term"]):
            new = out if s not in IN else (IN[s] & out)
            if s not in IN or new != IN[s]:
                IN[s] = new
                work.append(s)
    nret = 0
    for bi, b in enumerate(inst["blocks"]):
        if b["term"] and b["term"]["k"] == "return" and bi in IN:
            nret += 1
            got = transfer(bi, IN[bi])
            miss = sorted(allf - got)
            if miss:
                names = [self_ty["variants"][0]["fields"][i].get("name", str(i)) for i in miss]
                return False, "clone_from leaves field(s) %s of *self unwritten on a path to the return" % names
    if not nret:
        return False, "clone_from has no return"
    return True, "ok"
