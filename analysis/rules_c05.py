"""C05 — sampling terminates: the structural necessary condition.

For every crate-local instance reachable from a sampling root:
  R1  the reachable crate-local call graph is acyclic (no recursion in samplers);
  R2  every natural loop has at least one non-panic exit edge, and at least one exit whose branch condition, by
      def-use inside the loop body, depends on a fresh RNG draw made inside the loop (T1) or on a loop-carried
      recurrence / iterator state (T2).  A loop whose only exits test loop-invariant values either never runs
      twice or never ends;
  R3  the three documented escape hatches are where they work: BINV's inner loop keeps a counter-bounded restart exit,
      Zeta returns on an infinite proposal before the acceptance test, Poisson::new cannot build the rejection method
      without passing the MAX_LAMBDA comparison.
Nothing here bounds the *number* of iterations (acceptance rates, data-bounded recurrences) — see DESIGN.md 5/C05.
"""
CONFIGS_THOROUGH = ["serde", "release"]

from cfgrules import FnInfo, draws_summary, op_locals
from facts import span_str
from mirutil import const_value


def sampling_reachable(F):
    roots = []
    for i in F.instances:
        if not (i.get("full") and i.get("local")):
            continue
        it = i.get("impl_trait") or ""
        if it.endswith("::Distribution") or it.endswith("::MultiDistribution") or i["path"].endswith("::try_sample"):
            roots.append(i["key"])
    seen = set()
    st = list(roots)
    edges = {}
    while st:
        k = st.pop()
        if k in seen:
            continue
        inst = F.by_key.get(k)
        if not inst or not inst.get("full"):
            continue
        seen.add(k)
        es = set()
        for b in inst["blocks"]:
            t = b["term"]
            if t and t["k"] == "call":
                fn = t["func"].get("fn", {})
                for kk in (fn.get("key"), (fn.get("dist_sample") or {}).get("key")):
                    if kk and F.by_key.get(kk, {}).get("full"):
                        es.add(kk)
            for s in b["stmts"]:
                if s["k"] == "assign" and s["rv"]["k"] == "aggregate" and s["rv"].get("agg") == "closure" and s["rv"].get("key"):
                    es.add(s["rv"]["key"])
        edges[k] = es
        st.extend(es)
    return roots, seen, edges


def sccs(nodes, edges):
    index = {}
    low = {}
    onst = set()
    st = []
    out = []
    counter = [0]

    def strong(v):
        work = [(v, iter(edges.get(v, ())))]
        index[v] = low[v] = counter[0]
        counter[0] += 1
        st.append(v)
        onst.add(v)
        while work:
            n, it = work[-1]
            adv = False
            for w in it:
                if w not in nodes:
                    continue
                if w not in index:
                    index[w] = low[w] = counter[0]
                    counter[0] += 1
                    st.append(w)
                    onst.add(w)
                    work.append((w, iter(edges.get(w, ()))))
                    adv = True
                    break
                elif w in onst:
                    low[n] = min(low[n], index[w])
            if adv:
                continue
            work.pop()
            if work:
                low[work[-1][0]] = min(low[work[-1][0]], low[n])
            if low[n] == index[n]:
                comp = []
                while True:
                    w = st.pop()
                    onst.discard(w)
                    comp.append(w)
                    if w == n:
                        break
                out.append(comp)
    for v in nodes:
        if v not in index:
            strong(v)
    return out


def run(chk, F, tier):
    chk.trusted += ["rand's Uniform/StandardUniform/Open01/OpenClosed01 samplers and the caller's RNG return (no internal unbounded loop is assumed for Uniform<float>)",
                    "core iterators over slices/ranges are finite"]
    roots, reach, edges = sampling_reachable(F)
    chk.floor("sampling roots", len(roots), 85)
    chk.floor("crate-local instances reachable from sampling roots", len(reach), 110)
    # R1
    comps = sccs(reach, edges)
    cyc = [c for c in comps if len(c) > 1 or (c[0] in edges.get(c[0], ()))]
    if cyc:
        for c in cyc:
            chk.violation("acyclic", "cycle:" + sorted(F.by_key[k]["path"] for k in c)[0], "recursion among sampling functions: %s" % sorted(c)[:4])
    else:
        chk.ok("acyclic", "crate-local sampling call graph has no cycle", detail={"instances": len(reach), "edges": sum(len(v) for v in edges.values())})
    # R2
    dsum = draws_summary(F)
    nloops = 0
    table = {}
    infos = {}
    for k in sorted(reach):
        inst = F.by_key[k]
        fi = FnInfo(F, inst, dsum)
        infos[k] = fi
        for li, (h, body, backs) in enumerate(fi.loops):
            nloops += 1
            lkey = "%s|loop#%d" % (inst["path"], li)
            where = span_str(fi.blocks[h]["term"].get("span") or inst.get("span")) + " in " + k
            exits = fi.loop_exits(body)
            if not exits:
                chk.violation("loop-exit", lkey, "loop has no exit edge other than panics: sampling cannot return from it", where=where)
                continue
            kinds = []
            for (src, dst) in exits:
                cl = fi.exit_condition_locals(src)
                sl, has_draw, rec, draws = fi.slice_flags(body, cl)
                if has_draw:
                    kinds.append("T1")
                elif rec:
                    kinds.append("T2")
                else:
                    kinds.append("invariant")
            row = table.setdefault(lkey, {"exits": len(exits), "kinds": sorted(set(kinds)), "instances": 0, "blocks": len(body)})
            row["instances"] += 1
            if all(x == "invariant" for x in kinds):
                chk.violation("loop-exit", lkey, "no exit of this loop depends on a draw made inside the loop or on a loop-carried "
                              "recurrence (%d exit(s), all loop-invariant): the loop cannot make progress towards termination" % len(exits), where=where)
            else:
                chk.ok("loop-exit", lkey + "@" + k, detail={"exits": len(exits), "kinds": sorted(set(kinds))}, nontrivial=(row["instances"] == 1))
    chk.floor("natural loops on sampling paths (instances)", nloops, 42)
    chk.floor("distinct loops on sampling paths", len(table), 28)
    chk.extra["loops"] = table

    # R3a: BINV restart
    binv = [k for k in reach if F.by_key[k]["path"] == "binomial::binv"]
    chk.floor("binomial::binv instances", len(binv), 1)
    for k in binv:
        fi = infos[k]
        loops = fi.loops
        nested = [(a, b) for a in loops for b in loops if a is not b and b[1] < a[1]]
        ok = False
        for outer, inner in nested:
            for (src, dst) in fi.loop_exits(inner[1]):
                if dst in outer[1]:
                    # exit of the inner loop that stays in the outer loop: is it governed by a counter compared with a constant?
                    cl = fi.exit_condition_locals(src)
                    sl, has_draw, rec, _ = fi.slice_flags(inner[1], cl)
                    const_cmp = _cmp_with_int_const(F, fi, src)
                    if rec and const_cmp is not None and not _is_loop_test(fi, inner, src):
                        ok = True
                        chk.ok("hatch", "binv restart: inner loop exit to the outer loop bounded by constant %s" % const_cmp, detail={"instance": k})
        if not ok:
            chk.violation("hatch", "binv-restart", "BINV's inner loop has no counter-bounded restart exit (x > BINV_MAX_X -> continue 'outer): "
                          "BINV can get stuck for u close to 1", where=span_str(F.by_key[k].get("span")))
    # R3b: Zeta early return on infinite proposal
    zs = [k for k in reach if F.by_key[k]["path"].startswith("<zeta::Zeta<") and F.by_key[k]["path"].endswith("::sample")]
    chk.floor("Zeta::sample instances", len(zs), 2)
    for k in zs:
        fi = infos[k]
        inst = F.by_key[k]
        if not fi.loops:
            chk.violation("hatch", "zeta-inf", "Zeta::sample has no loop (rule anchored on the rejection loop)", where=span_str(inst.get("span")))
            continue
        h, body, _ = fi.loops[0]
        inf_exit = None
        other = []
        for (src, dst) in fi.loop_exits(body):
            if _switch_on_call(fi, src, ("is_infinite", "is_finite")):
                inf_exit = src
            else:
                other.append(src)
        if inf_exit is None:
            chk.violation("hatch", "zeta-inf", "Zeta::sample has no exit on an infinite proposal: for s close to 1 every proposal overflows and is rejected forever",
                          where=span_str(inst.get("span")))
        elif other and not all(inf_exit in fi.dom[o] for o in other):
            chk.violation("hatch", "zeta-inf-order", "the infinite-proposal return does not dominate the acceptance test", where=span_str(inst.get("span")))
        else:
            chk.ok("hatch", "zeta: return on infinite proposal dominates the acceptance exit", detail={"instance": k}, nontrivial=(k == zs[0]))
    # R3c: Poisson::new MAX_LAMBDA
    ps = [i for i in F.local_full() if i["path"] == "poisson::Poisson::<F>::new"]
    chk.floor("Poisson::new instances", len(ps), 2)
    for inst in ps:
        fi = FnInfo(F, inst, dsum)
        maxl = None
        guard_blocks = []
        for bi, b in enumerate(inst["blocks"]):
            t = b["term"]
            if t and t["k"] == "switch" and _block_compares_const(F, fi, bi, lambda v: isinstance(v, float) and v > 1e15):
                guard_blocks.append(bi)
        rej = []
        for bi, b in enumerate(inst["blocks"]):
            t = b["term"]
            if t and t["k"] == "call" and "RejectionMethod" in (t["func"].get("fn", {}).get("res_path") or ""):
                rej.append(bi)
            for s in b["stmts"]:
                if s["k"] == "assign" and s["rv"]["k"] == "aggregate" and s["rv"].get("variant_name") == "Rejection":
                    rej.append(bi)
        if not rej:
            chk.violation("hatch", "poisson-cap", "Poisson::new: construction of the rejection method not found (anchor lost)", where=span_str(inst.get("span")))
        elif not guard_blocks or not all(any(g in fi.dom[r] for g in guard_blocks) for r in rej):
            chk.violation("hatch", "poisson-cap", "Poisson::new can build the rejection method without passing the MAX_LAMBDA comparison: "
                          "sampling with huge lambda loops (issue 1312)", where=span_str(inst.get("span")))
        else:
            chk.ok("hatch", "poisson: MAX_LAMBDA comparison dominates construction of the rejection method", detail={"instance": inst["key"]},
                   nontrivial=(inst is ps[0]))
    return_path_rule(chk, F, tier)
    trip_rule(chk, F, tier, reach, edges, infos)
    chk.notes.append("data-bounded recurrences (BTPE step 5.1, H2PE step 4.1 counting loops) are T2 loops without a constant bound; "
                     "the number of iterations is NOT decided here")


def _switch_on_call(fi, bi, methods):
    """Does the switch in block bi test (through moves) the result of a call to one of `methods`?"""
    t = fi.blocks[bi]["term"]
    if t["k"] != "switch":
        return False
    want = op_locals(t["discr"])
    # look back through predecessor chain for the call defining the discriminant
    seen = set()
    st = [bi]
    steps = 0
    while st and steps < 6:
        steps += 1
        b = st.pop()
        if b in seen:
            continue
        seen.add(b)
        for s in reversed(fi.blocks[b]["stmts"]):
            if s["k"] == "assign" and s["place"]["l"] in want and s["rv"]["k"] in ("use", "unop"):
                want = want | (op_locals(s["rv"].get("op") or s["rv"].get("a")))
        for p in fi.preds.get(b, ()):
            tp = fi.blocks[p]["term"]
            if tp["k"] == "call" and tp["dest"]["l"] in want:
                m = tp["func"].get("fn", {}).get("method") or (tp["func"].get("fn", {}).get("path") or "").split("::")[-1]
                return m in methods
            st.append(p)
    return False


def _cmp_with_int_const(F, fi, bi):
    """If the switch in block bi tests a comparison with an integer constant, return the constant."""
    return _block_compares_const(F, fi, bi, lambda v: isinstance(v, int) and not isinstance(v, bool) and v > 1, want_value=True)


def _block_compares_const(F, fi, bi, pred, want_value=False):
    t = fi.blocks[bi]["term"]
    if t["k"] != "switch":
        return None
    want = op_locals(t["discr"])
    seen = set()
    st = [bi]
    depth = 0
    while st and depth < 8:
        depth += 1
        b = st.pop()
        if b in seen:
            continue
        seen.add(b)
        for s in reversed(fi.blocks[b]["stmts"]):
            if s["k"] == "assign" and s["place"]["l"] in want:
                rv = s["rv"]
                if rv["k"] == "binop" and rv["op"] in ("Lt", "Le", "Gt", "Ge", "Eq", "Ne"):
                    for o in (rv["a"], rv["b"]):
                        v = const_value(F, o) if o.get("k") == "const" else None
                        if v is not None and pred(v):
                            return v if want_value else True
                    return None
                if rv["k"] in ("use", "unop"):
                    want = want | op_locals(rv.get("op") or rv.get("a"))
        for p in fi.preds.get(b, ()):
            tp = fi.blocks[p]["term"]
            if tp["k"] == "call" and tp["dest"]["l"] in want:
                fn = tp["func"].get("fn", {})
                m = fn.get("method") or ""
                if m in ("lt", "le", "gt", "ge", "eq", "ne"):
                    # operands are references to locals; find constants feeding them
                    for a in tp["args"]:
                        for x in op_locals(a):
                            for r in fi.referents(x):
                                v = _local_const(F, fi, r)
                                if v is not None and pred(v):
                                    return v if want_value else True
                    return None
            st.append(p)
    return None


def _local_const(F, fi, local, depth=0):
    """Constant value a local was assigned from (through NumCast::from(<const>).unwrap() chains)."""
    if depth > 6:
        return None
    for b in fi.blocks:
        for s in b["stmts"]:
            if s["k"] == "assign" and s["place"]["l"] == local and not s["place"]["p"]:
                rv = s["rv"]
                if rv["k"] == "use":
                    if rv["op"].get("k") == "const":
                        return const_value(F, rv["op"])
                    return _local_const(F, fi, rv["op"]["l"], depth + 1)
                if rv["k"] == "cast":
                    if rv["op"].get("k") == "const":
                        return const_value(F, rv["op"])
                    return _local_const(F, fi, rv["op"]["l"], depth + 1)
        t = b["term"]
        if t and t["k"] == "call" and t["dest"]["l"] == local and not t["dest"]["p"]:
            m = t["func"].get("fn", {}).get("method") or (t["func"].get("fn", {}).get("path") or "").split("::")[-1]
            if m in ("from", "unwrap", "into") and t["args"]:
                a = t["args"][0]
                if a.get("k") == "const":
                    return const_value(F, a)
                return _local_const(F, fi, a["l"], depth + 1)
    return None


def _is_loop_test(fi, loop, src):
    """True if `src` is the loop header's own test (the `while` condition), not an exit inside the body."""
    h, body, backs = loop
    return src == h


# ------------------------------------------------------------------------------------------------ R4: a return path exists
_G5 = {}


def _ret_family(args):
    name, bits = args
    import rules_c03
    from absint import Interp, Rf, Top
    from axioms import Axioms
    F = _G5["F"]
    fam = next(f for f in rules_c03.FAMILIES if f["name"] == name)
    ax = Axioms(F)
    out = {"family": name, "bits": bits, "cases": 0, "stuck": [], "missing": None}
    sinst = rules_c03.find_sample_inst(F, fam["sample"], bits)
    cases = rules_c03.envelope_cases(F, ax, fam, bits, "quick", extremes=True) if sinst else None
    if sinst is None or cases is None:
        out["missing"] = fam["sample"]
        return out
    for cname, cells, selfv in cases:
        ip = Interp(F, ax)
        ip.ieee = bits
        rv, st = ip.run_root(sinst, [Rf(None, selfv, False), Rf(None, Top(), True)])
        out["cases"] += 1
        if st is None:
            panics = [e for e in ip.events.values() if e.kind.startswith("panic")]
            out["stuck"].append({"case": cname, "panics": [str(e.detail) for e in panics][:2]})
    return out


def return_path_rule(chk, F, tier):
    """For every constructor outcome — including the largest finite float and the smallest subnormal as parameters, with IEEE
    rounding/overflow of exact points — the abstract run of sample() must contain a path to `return`.  The abstract run
    over-approximates every concrete run, so if it has no return path no stream makes sampling return: it loops forever or always panics."""
    import multiprocessing
    import os
    import rules_c03
    _G5["F"] = F
    tasks = [(f["name"], b) for f in rules_c03.FAMILIES for b in f.get("bits", (32, 64))]
    ncpu = min(16, os.cpu_count() or 4)
    if ncpu > 1 and not os.environ.get("VERIF_SERIAL"):
        with multiprocessing.get_context("fork").Pool(ncpu) as pool:
            res = pool.map(_ret_family, tasks, chunksize=1)
    else:
        res = [_ret_family(t) for t in tasks]
    total = 0
    for r in res:
        key = "%s:f%d" % (r["family"], r["bits"])
        if r["missing"]:
            chk.violation("return-path", key + ":anchor", "sampler %s not found" % r["missing"])
            continue
        total += r["cases"]
        if r["stuck"]:
            s0 = r["stuck"][0]
            chk.violation("return-path", key, "%s::sample has no path to `return` for parameters %s (%d such case(s)%s): for these valid parameters every exit test of "
                          "its loops fails on every stream" % (r["family"], s0["case"], len(r["stuck"]), "; it always panics: " + s0["panics"][0] if s0["panics"] else ""))
        else:
            chk.ok("return-path", key + ": a return path exists in all %d parameter cases (extremes included)" % r["cases"], nontrivial=True)
    chk.evaluations += total
    chk.extra["return_path_cases"] = total
    chk.floor("return-path parameter cases", total, 500)


# ------------------------------------------------------------------------------------------------ R5: counting loops are short
TRIP_LIMIT = 10 ** 5


def counting_loops(F, inst, fi=None):
    """Natural loops with an exit that compares a +1-stepped counter with a loop-invariant integer local.
    Returns [(header block, loop index, counter local, bound local, cmp op)]."""
    from symterm import Terms, affine, root_local
    fi = fi or FnInfo(F, inst)
    if not fi.loops:
        return []
    T = Terms(F, inst)
    out = []
    for li, (h, body, backs) in enumerate(fi.loops):
        indefs = {}
        for bi in body:
            b = inst["blocks"][bi]
            for s in b["stmts"]:
                if s["k"] == "assign" and not s["place"]["p"]:
                    indefs.setdefault(s["place"]["l"], []).append(s["rv"])
            t = b["term"]
            if t and t["k"] == "call" and not t["dest"]["p"]:
                indefs.setdefault(t["dest"]["l"], []).append(None)
        # `for i in a..b` / `a..=b`: Iterator::next on a Range local inside the loop
        for bi in sorted(body):
            t = inst["blocks"][bi]["term"]
            if t and t["k"] == "call" and t["func"].get("fn", {}).get("method") == "next" and (t["func"]["fn"].get("trait") or "").endswith("Iterator") and t["args"]:
                itl = None
                cur = t["args"][0]
                for _ in range(6):
                    # follow `&mut *r` / `&mut it` reborrows down to the iterator local
                    if cur.get("k") not in ("copy", "move") or cur["p"]:
                        break
                    d0 = T.body.single_def(cur["l"])
                    if d0 is None or d0[2] == "call" or d0[3]["rv"]["k"] != "ref":
                        break
                    pl = d0[3]["rv"]["place"]
                    if not pl["p"]:
                        itl = pl["l"]
                        break
                    if [q["k"] for q in pl["p"]] != ["deref"]:
                        break
                    cur = {"k": "copy", "l": pl["l"], "p": []}
                if itl is not None and itl not in indefs:
                    ty = F.types[inst["locals"][itl]["ty"]]
                    if ty["k"] == "adt" and ty["path"] in ("core::ops::Range", "core::ops::RangeInclusive") and ty["args"] and F.types[ty["args"][0]]["k"] == "int":
                        out.append((h, li, itl, None, "range"))
        for (src, dst) in fi.loop_exits(body):
            t = inst["blocks"][src]["term"]
            if t["k"] != "switch" or t["discr"].get("k") not in ("copy", "move") or t["discr"]["p"]:
                continue
            d = T.body.single_def(t["discr"]["l"])
            if d is None or d[2] == "call":
                continue
            rv = d[3]["rv"]
            if rv["k"] != "binop" or rv["op"] not in ("Eq", "Ne", "Lt", "Le", "Gt", "Ge"):
                continue
            def root(op, depth=0):
                if op.get("k") not in ("copy", "move") or op["p"] or depth > 12:
                    return None
                dd = T.body.single_def(op["l"])
                if dd is None or dd[2] == "call":
                    return op["l"]
                r_ = dd[3]["rv"]
                if r_["k"] == "use" and r_["op"].get("k") in ("copy", "move") and not r_["op"]["p"]:
                    return root(r_["op"], depth + 1)
                return op["l"]
            ra, rb = root(rv["a"]), root(rv["b"])
            if ra is None or rb is None:
                continue
            for c, bnd in ((ra, rb), (rb, ra)):
                if F.types[inst["locals"][c]["ty"]]["k"] != "int" or F.types[inst["locals"][bnd]["ty"]]["k"] != "int":
                    continue
                if bnd in indefs or c not in indefs:
                    continue
                steps = []
                for rvd in indefs[c]:
                    if rvd is None:
                        steps.append(None)
                        continue
                    if rvd["k"] == "use":
                        a = affine(T.of_operand(rvd["op"]))
                    elif rvd["k"] == "binop":
                        from symterm import BIN
                        a = affine((BIN[rvd["op"]], T.of_operand(rvd["a"]), T.of_operand(rvd["b"]))) if rvd["op"] in BIN else None
                    else:
                        a = None
                    steps.append(a)
                cname = T.var(c)[1]
                if steps and all(a is not None and a[0] == cname and a[1] == 1 and a[2] == 1 and a[3] == 1 for a in steps):
                    out.append((h, li, c, bnd, rv["op"]))
    return out


TRIP_SHARDS = 8


def _trip_family(args):
    name, bits, shard = args
    import rules_c03
    from absint import Interp, Rf, Top
    from axioms import Axioms
    F = _G5["F"]
    watch = _G5["watch"]
    fam = next(f for f in rules_c03.FAMILIES if f["name"] == name)
    ax = Axioms(F)
    out = {"family": name, "bits": bits, "cases": 0, "runs": 0, "entries": 0, "long": [], "missing": None}
    sinst = rules_c03.find_sample_inst(F, fam["sample"], bits)
    # constructor cases whose outcome is "Ok or an error" are used too (their Ok payload over-approximates the valid parameter sets
    # of the cell): a *definite* lower bound on a trip count still holds for every concrete state it covers
    cases = rules_c03.envelope_cases(F, ax, fam, bits, "quick", extremes=True, allow_mixed=True) if sinst else None
    if sinst is None or cases is None:
        out["missing"] = fam["sample"]
        return out
    rng = Rf(None, Top(), True)

    def one(cname, selfv, tag):
        ip = Interp(F, ax)
        ip.watch = watch
        ip.trips = []
        # trace partitioning on exact integers: a state in which the bound is one exact value (a saturated cast, a pinned draw)
        # is kept apart from the states of the other branches instead of being joined with them
        ip.partition = True
        ip.run_root(sinst, [Rf(None, selfv, False), rng])
        out["runs"] += 1
        for (ikey, li, up, down, vc, vb) in ip.trips:
            out["entries"] += 1
            # the counter steps by +1 until it meets the bound: at least `up` = min(bound) - max(counter) iterations
            if up > TRIP_LIMIT:
                out["long"].append({"inst": ikey, "loop": li, "case": cname, "tag": tag, "min_iterations": up, "counter": vc, "bound": vb})
    for ci, (cname, cells, selfv) in enumerate(cases):
        if ci % TRIP_SHARDS != shard:
            continue
        out["cases"] += 1
        ax.tagged = None
        ax.draw_sites = {}
        one(cname, selfv, None)
        sites = dict(ax.draw_sites)
        for skey, (kind, specials, sk, sb) in sorted(sites.items(), key=lambda kv: str(kv[0])):
            for si, sp in enumerate(specials):
                ax.tagged = (skey, si)
                path, sspan = rules_c03.site_desc(F, sk, sb)
                one(cname, selfv, "%s draw at `%s` exactly %s" % (kind, rules_c03.src_line(F, sspan), sp))
        ax.tagged = None
    return out


def trip_rule(chk, F, tier, reach, edges, infos):
    """Counting loops (`i += 1 ... until i == bound`) on sampling paths: in no abstract state that enters the loop — generic draws,
    and every single draw pinned to one of its boundary values — may the distance between the counter and its bound be
    *definitely* larger than 10^5 (every concrete state in that abstract state would walk that many iterations)."""
    import multiprocessing
    import os
    import rules_c03
    watch = {}
    nl = 0
    owners = set()
    for k in sorted(reach):
        inst = F.by_key[k]
        for (h, li, c, bnd, op) in counting_loops(F, inst, infos.get(k)):
            watch.setdefault((k, h), []).append((li, c, bnd))
            owners.add(k)
            nl += 1
    chk.floor("counting loops on sampling paths (BTPE step 5.1 and H2PE step 4.1, both directions each)", nl, 4)
    chk.extra["counting_loops"] = sorted("%s|loop#%d" % (k, li) for (k, h), v in watch.items() for (li, c, b) in v)
    # families whose sampler can reach a function with a counting loop
    fams = []
    for f in rules_c03.FAMILIES:
        for b in f.get("bits", (32, 64)):
            sinst = rules_c03.find_sample_inst(F, f["sample"], b)
            if sinst is None:
                continue
            seen, st = set(), [sinst["key"]]
            while st:
                x = st.pop()
                if x in seen:
                    continue
                seen.add(x)
                st.extend(edges.get(x, ()))
            if seen & owners:
                fams += [(f["name"], b, sh) for sh in range(TRIP_SHARDS)]
    chk.floor("families that reach a counting loop", len(fams) // TRIP_SHARDS, 2)
    _G5["F"] = F
    _G5["watch"] = watch
    ncpu = min(16, os.cpu_count() or 4)
    if ncpu > 1 and len(fams) > 1 and not os.environ.get("VERIF_SERIAL"):
        with multiprocessing.get_context("fork").Pool(min(ncpu, len(fams))) as pool:
            res = pool.map(_trip_family, fams, chunksize=1)
    else:
        res = [_trip_family(t) for t in fams]
    entries = runs = 0
    merged = {}
    for r in res:
        m = merged.setdefault((r["family"], r["bits"]), {"family": r["family"], "bits": r["bits"], "cases": 0, "runs": 0, "entries": 0, "long": [], "missing": None})
        for f_ in ("cases", "runs", "entries"):
            m[f_] += r[f_]
        m["long"] += r["long"]
        m["missing"] = m["missing"] or r["missing"]
    for r in merged.values():
        key = "%s:f%d" % (r["family"], r["bits"])
        if r["missing"]:
            chk.violation("trip-count", key + ":anchor", "sampler %s not found" % r["missing"])
            continue
        entries += r["entries"]
        runs += r["runs"]
        seen = set()
        for l in r["long"]:
            inst = F.by_key[l["inst"]]
            tg = (l["tag"] or "generic draws").split(" exactly ")
            vkey = "%s|%s|loop#%d|%s" % (r["family"], inst["path"], l["loop"], l["tag"] or "generic")
            if vkey in seen:
                continue
            seen.add(vkey)
            h = next(hh for (kk, hh), v in watch.items() if kk == l["inst"] and any(li == l["loop"] for li, _, _ in v))
            chk.violation("trip-count", vkey, "%s: the counting loop #%d in %s is entered with counter %s and bound %s, i.e. at least %s iterations, for parameters %s with the %s "
                          "(limit %d): sampling effectively never returns" % (r["family"], l["loop"], inst["path"], l["counter"], l["bound"], l["min_iterations"], l["case"],
                                                                            l["tag"] or "generic draws", TRIP_LIMIT),
                          where=span_str(inst["blocks"][h]["term"].get("span") or inst.get("span")))
        if not r["long"]:
            chk.ok("trip-count", "%s: %d abstract loop entries over %d runs (%d parameter cases x generic + tagged draws): none is definitely longer than %d"
                   % (key, r["entries"], r["runs"], r["cases"], TRIP_LIMIT), nontrivial=True)
    chk.evaluations += runs
    chk.extra["trip_rule"] = {"runs": runs, "loop_entries": entries}
    chk.floor("abstract entries into counting loops", entries, 20)
