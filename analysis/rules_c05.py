"""C05 — sampling terminates: the structural necessary condition.

For every crate-local instance reachable from a sampling root:
  R1  the reachable crate-local call graph is acyclic (no recursion in samplers);
  R2  every natural loop has at least one non-panic exit edge, and at least one exit whose branch condition, by
      def-use inside the loop body, depends on a fresh RNG draw made inside the loop (T1) or on a loop-carried
      recurrence / iterator state (T2).  A loop whose only exits test loop-invariant values either never runs
      twice or never ends;
  R3  the three documented escape hatches are where they work: BINV's inner loop keeps a counter-bounded restart exit,
      Zeta returns on an infinite proposal before the acceptance test, Poisson::new cannot build the rejection method
      without passing the MAX_LAMBDA comparison.
Nothing here bounds the *number* of iterations (acceptance rates, data-bounded recurrences) — see DESIGN.md 5/C05.
"""
CONFIGS_THOROUGH = ["serde", "release"]

from cfgrules import FnInfo, draws_summary, op_locals
from facts import span_str
from mirutil import const_value


def sampling_reachable(F):
    roots = []
    for i in F.instances:
        if not (i.get("full") and i.get("local")):
            continue
        it = i.get("impl_trait") or ""
        if it.endswith("::Distribution") or it.endswith("::MultiDistribution") or i["path"].endswith("::try_sample"):
            roots.append(i["key"])
    seen = set()
    st = list(roots)
    edges = {}
    while st:
        k = st.pop()
        if k in seen:
            continue
        inst = F.by_key.get(k)
        if not inst or not inst.get("full"):
            continue
        seen.add(k)
        es = set()
        for b in inst["blocks"]:
            t = b["term"]
            if t and t["k"] == "call":
                fn = t["func"].get("fn", {})
                for kk in (fn.get("key"), (fn.get("dist_sample") or {}).get("key")):
                    if kk and F.by_key.get(kk, {}).get("full"):
                        es.add(kk)
            for s in b["stmts"]:
                if s["k"] == "assign" and s["rv"]["k"] == "aggregate" and s["rv"].get("agg") == "closure" and s["rv"].get("key"):
                    es.add(s["rv"]["key"])
        edges[k] = es
        st.extend(es)
    return roots, seen, edges


def sccs(nodes, edges):
    index = {}
    low = {}
    onst = set()
    st = []
    out = []
    counter = [0]

    def strong(v):
        work = [(v, iter(edges.get(v, ())))]
        index[v] = low[v] = counter[0]
        counter[0] += 1
        st.append(v)
        onst.add(v)
        while work:
            n, it = work[-1]
            adv = False
            for w in it:
                if w not in nodes:
                    continue
                if w not in index:
                    index[w] = low[w] = counter[0]
                    counter[0] += 1
                    st.append(w)
                    onst.add(w)
                    work.append((w, iter(edges.get(w, ()))))
                    adv = True
                    break
                elif w in onst:
                    low[n] = min(low[n], index[w])
            if adv:
                continue
            work.pop()
            if work:
                low[work[-1][0]] = min(low[work[-1][0]], low[n])
            if low[n] == index[n]:
                comp = []
                while True:
                    w = st.pop()
                    onst.discard(w)
                    comp.append(w)
                    if w == n:
                        break
                out.append(comp)
    for v in nodes:
        if v not in index:
            strong(v)
    return out


def run(chk, F, tier):
    chk.trusted += ["rand's Uniform/StandardUniform/Open01/OpenClosed01 samplers and the caller's RNG return (no internal unbounded loop is assumed for Uniform<float>)",
                    "core iterators over slices/ranges are finite"]
    roots, reach, edges = sampling_reachable(F)
    chk.floor("sampling roots", len(roots), 85)
    chk.floor("crate-local instances reachable from sampling roots", len(reach), 110)
    # R1
    comps = sccs(reach, edges)
    cyc = [c for c in comps if len(c) > 1 or (c[0] in edges.get(c[0], ()))]
    if cyc:
        for c in cyc:
            chk.violation("acyclic", "cycle:" + sorted(F.by_key[k]["path"] for k in c)[0], "recursion among sampling functions: %s" % sorted(c)[:4])
    else:
        chk.ok("acyclic", "crate-local sampling call graph has no cycle", detail={"instances": len(reach), "edges": sum(len(v) for v in edges.values())})
    # R2
    dsum = draws_summary(F)
    nloops = 0
    table = {}
    infos = {}
    for k in sorted(reach):
        inst = F.by_key[k]
        fi = FnInfo(F, inst, dsum)
        infos[k] = fi
        for li, (h, body, backs) in enumerate(fi.loops):
            nloops += 1
            lkey = "%s|loop#%d" % (inst["path"], li)
            where = span_str(fi.blocks[h]["term"].get("span") or inst.get("span")) + " in " + k
            exits = fi.loop_exits(body)
            if not exits:
                chk.violation("loop-exit", lkey, "loop has no exit edge other than panics: sampling cannot return from it", where=where)
                continue
            kinds = []
            for (src, dst) in exits:
                cl = fi.exit_condition_locals(src)
                sl, has_draw, rec, draws = fi.slice_flags(body, cl)
                if has_draw:
                    kinds.append("T1")
                elif rec:
                    kinds.append("T2")
                else:
                    kinds.append("invariant")
            row = table.setdefault(lkey, {"exits": len(exits), "kinds": sorted(set(kinds)), "instances": 0, "blocks": len(body)})
            row["instances"] += 1
            if all(x == "invariant" for x in kinds):
                chk.violation("loop-exit", lkey, "no exit of this loop depends on a draw made inside the loop or on a loop-carried "
                              "recurrence (%d exit(s), all loop-invariant): the loop cannot make progress towards termination" % len(exits), where=where)
            else:
                chk.ok("loop-exit", lkey + "@" + k, detail={"exits": len(exits), "kinds": sorted(set(kinds))}, nontrivial=(row["instances"] == 1))
    chk.floor("natural loops on sampling paths (instances)", nloops, 42)
    chk.floor("distinct loops on sampling paths", len(table), 28)
    chk.extra["loops"] = table

    # R3a: BINV restart
    binv = [k for k in reach if F.by_key[k]["path"] == "binomial::binv"]
    chk.floor("binomial::binv instances", len(binv), 1)
    for k in binv:
        fi = infos[k]
        loops = fi.loops
        nested = [(a, b) for a in loops for b in loops if a is not b and b[1] < a[1]]
        ok = False
        for outer, inner in nested:
            for (src, dst) in fi.loop_exits(inner[1]):
                if dst in outer[1]:
                    # exit of the inner loop that stays in the outer loop: is it governed by a counter compared with a constant?
                    cl = fi.exit_condition_locals(src)
                    sl, has_draw, rec, _ = fi.slice_flags(inner[1], cl)
                    const_cmp = _cmp_with_int_const(F, fi, src)
                    if rec and const_cmp is not None and not _is_loop_test(fi, inner, src):
                        ok = True
                        chk.ok("hatch", "binv restart: inner loop exit to the outer loop bounded by constant %s" % const_cmp, detail={"instance": k})
        if not ok:
            chk.violation("hatch", "binv-restart", "BINV's inner loop has no counter-bounded restart exit (x > BINV_MAX_X -> continue 'outer): "
                          "BINV can get stuck for u close to 1", where=span_str(F.by_key[k].get("span")))
    # R3b: Zeta early return on infinite proposal
    zs = [k for k in reach if F.by_key[k]["path"].startswith("<zeta::Zeta<") and F.by_key[k]["path"].endswith("::sample")]
    chk.floor("Zeta::sample instances", len(zs), 2)
    for k in zs:
        fi = infos[k]
        inst = F.by_key[k]
        if not fi.loops:
            chk.violation("hatch", "zeta-inf", "Zeta::sample has no loop (rule anchored on the rejection loop)", where=span_str(inst.get("span")))
            continue
        h, body, _ = fi.loops[0]
        inf_exit = None
        other = []
        for (src, dst) in fi.loop_exits(body):
            if _switch_on_call(fi, src, ("is_infinite", "is_finite")):
                inf_exit = src
            else:
                other.append(src)
        if inf_exit is None:
            chk.violation("hatch", "zeta-inf", "Zeta::sample has no exit on an infinite proposal: for s close to 1 every proposal overflows and is rejected forever",
                          where=span_str(inst.get("span")))
        elif other and not all(inf_exit in fi.dom[o] for o in other):
            chk.violation("hatch", "zeta-inf-order", "the infinite-proposal return does not dominate the acceptance test", where=span_str(inst.get("span")))
        else:
            chk.ok("hatch", "zeta: return on infinite proposal dominates the acceptance exit", detail={"instance": k}, nontrivial=(k == zs[0]))
    # R3c: Poisson::new MAX_LAMBDA
    ps = [i for i in F.local_full() if i["path"] == "poisson::Poisson::<F>::new"]
    chk.floor("Poisson::new instances", len(ps), 2)
    for inst in ps:
        fi = FnInfo(F, inst, dsum)
        maxl = None
        guard_blocks = []
        for bi, b in enumerate(inst["blocks"]):
            t = b["term"]
            if t and t["k"] == "switch" and _block_compares_const(F, fi, bi, lambda v: isinstance(v, float) and v > 1e15):
                guard_blocks.append(bi)
        rej = []
        for bi, b in enumerate(inst["blocks"]):
            t = b["term"]
            if t and t["k"] == "call" and "RejectionMethod" in (t["func"].get("fn", {}).get("res_path") or ""):
                rej.append(bi)
            for s in b["stmts"]:
                if s["k"] == "assign" and s["rv"]["k"] == "aggregate" and s["rv"].get("variant_name") == "Rejection":
                    rej.append(bi)
        if not rej:
            chk.violation("hatch", "poisson-cap", "Poisson::new: construction of the rejection method not found (anchor lost)", where=span_str(inst.get("span")))
        elif not guard_blocks or not all(any(g in fi.dom[r] for g in guard_blocks) for r in rej):
            chk.violation("hatch", "poisson-cap", "Poisson::new can build the rejection method without passing the MAX_LAMBDA comparison: "
                          "sampling with huge lambda loops (issue 1312)", where=span_str(inst.get("span")))
        else:
            chk.ok("hatch", "poisson: MAX_LAMBDA comparison dominates construction of the rejection method", detail={"instance": inst["key"]},
                   nontrivial=(inst is ps[0]))
    return_path_rule(chk, F, tier)
    chk.notes.append("data-bounded recurrences (BTPE step 5.1, H2PE step 4.1 counting loops) are T2 loops without a constant bound; "
                     "the number of iterations is NOT decided here")


def _switch_on_call(fi, bi, methods):
    """Does the switch in block bi test (through moves) the result of a call to one of `methods`?"""
    t = fi.blocks[bi]["term"]
    if t["k"] != "switch":
        return False
    want = op_locals(t["discr"])
    # look back through predecessor chain for the call defining the discriminant
    seen = set()
    st = [bi]
    steps = 0
    while st and steps < 6:
        steps += 1
        b = st.pop()
        if b in seen:
            continue
        seen.add(b)
        for s in reversed(fi.blocks[b]["stmts"]):
            if s["k"] == "assign" and s["place"]["l"] in want and s["rv"]["k"] in ("use", "unop"):
                want = want | (op_locals(s["rv"].get("op") or s["rv"].get("a")))
        for p in fi.preds.get(b, ()):
            tp = fi.blocks[p]["term"]
            if tp["k"] == "call" and tp["dest"]["l"] in want:
                m = tp["func"].get("fn", {}).get("method") or (tp["func"].get("fn", {}).get("path") or "").split("::")[-1]
                return m in methods
            st.append(p)
    return False


def _cmp_with_int_const(F, fi, bi):
    """If the switch in block bi tests a comparison with an integer constant, return the constant."""
    return _block_compares_const(F, fi, bi, lambda v: isinstance(v, int) and not isinstance(v, bool) and v > 1, want_value=True)


def _block_compares_const(F, fi, bi, pred, want_value=False):
    t = fi.blocks[bi]["term"]
    if t["k"] != "switch":
        return None
    want = op_locals(t["discr"])
    seen = set()
    st = [bi]
    depth = 0
    while st and depth < 8:
        depth += 1
        b = st.pop()
        if b in seen:
            continue
        seen.add(b)
        for s in reversed(fi.blocks[b]["stmts"]):
            if s["k"] == "assign" and s["place"]["l"] in want:
                rv = s["rv"]
                if rv["k"] == "binop" and rv["op"] in ("Lt", "Le", "Gt", "Ge", "Eq", "Ne"):
                    for o in (rv["a"], rv["b"]):
                        v = const_value(F, o) if o.get("k") == "const" else None
                        if v is not None and pred(v):
                            return v if want_value else True
                    return None
                if rv["k"] in ("use", "unop"):
                    want = want | op_locals(rv.get("op") or rv.get("a"))
        for p in fi.preds.get(b, ()):
            tp = fi.blocks[p]["term"]
            if tp["k"] == "call" and tp["dest"]["l"] in want:
                fn = tp["func"].get("fn", {})
                m = fn.get("method") or ""
                if m in ("lt", "le", "gt", "ge", "eq", "ne"):
                    # operands are references to locals; find constants feeding them
                    for a in tp["args"]:
                        for x in op_locals(a):
                            for r in fi.referents(x):
                                v = _local_const(F, fi, r)
                                if v is not None and pred(v):
                                    return v if want_value else True
                    return None
            st.append(p)
    return None


def _local_const(F, fi, local, depth=0):
    """Constant value a local was assigned from (through NumCast::from(<const>).unwrap() chains)."""
    if depth > 6:
        return None
    for b in fi.blocks:
        for s in b["stmts"]:
            if s["k"] == "assign" and s["place"]["l"] == local and not s["place"]["p"]:
                rv = s["rv"]
                if rv["k"] == "use":
                    if rv["op"].get("k") == "const":
                        return const_value(F, rv["op"])
                    return _local_const(F, fi, rv["op"]["l"], depth + 1)
                if rv["k"] == "cast":
                    if rv["op"].get("k") == "const":
                        return const_value(F, rv["op"])
                    return _local_const(F, fi, rv["op"]["l"], depth + 1)
        t = b["term"]
        if t and t["k"] == "call" and t["dest"]["l"] == local and not t["dest"]["p"]:
            m = t["func"].get("fn", {}).get("method") or (t["func"].get("fn", {}).get("path") or "").split("::")[-1]
            if m in ("from", "unwrap", "into") and t["args"]:
                a = t["args"][0]
                if a.get("k") == "const":
                    return const_value(F, a)
                return _local_const(F, fi, a["l"], depth + 1)
    return None


def _is_loop_test(fi, loop, src):
    """True if `src` is the loop header's own test (the `while` condition), not an exit inside the body."""
    h, body, backs = loop
    return src == h


# ------------------------------------------------------------------------------------------------ R4: a return path exists
_G5 = {}


def _ret_family(args):
    name, bits = args
    import rules_c03
    from absint import Interp, Rf, Top
    from axioms import Axioms
    F = _G5["F"]
    fam = next(f for f in rules_c03.FAMILIES if f["name"] == name)
    ax = Axioms(F)
    out = {"family": name, "bits": bits, "cases": 0, "stuck": [], "missing": None}
    sinst = rules_c03.find_sample_inst(F, fam["sample"], bits)
    cases = rules_c03.envelope_cases(F, ax, fam, bits, "quick", extremes=True) if sinst else None
    if sinst is None or cases is None:
        out["missing"] = fam["sample"]
        return out
    for cname, cells, selfv in cases:
        ip = Interp(F, ax)
        ip.ieee = bits
        rv, st = ip.run_root(sinst, [Rf(None, selfv, False), Rf(None, Top(), True)])
        out["cases"] += 1
        if st is None:
            panics = [e for e in ip.events.values() if e.kind.startswith("panic")]
            out["stuck"].append({"case": cname, "panics": [str(e.detail) for e in panics][:2]})
    return out


def return_path_rule(chk, F, tier):
    """For every constructor outcome — including the largest finite float and the smallest subnormal as parameters, with IEEE
    rounding/overflow of exact points — the abstract run of sample() must contain a path to `return`.  The abstract run
    over-approximates every concrete run, so if it has no return path no stream makes sampling return: it loops forever or always panics."""
    import multiprocessing
    import os
    import rules_c03
    _G5["F"] = F
    tasks = [(f["name"], b) for f in rules_c03.FAMILIES for b in f.get("bits", (32, 64))]
    ncpu = min(16, os.cpu_count() or 4)
    if ncpu > 1 and not os.environ.get("VERIF_SERIAL"):
        with multiprocessing.get_context("fork").Pool(ncpu) as pool:
            res = pool.map(_ret_family, tasks, chunksize=1)
    else:
        res = [_ret_family(t) for t in tasks]
    total = 0
    for r in res:
        key = "%s:f%d" % (r["family"], r["bits"])
        if r["missing"]:
            chk.violation("return-path", key + ":anchor", "sampler %s not found" % r["missing"])
            continue
        total += r["cases"]
        if r["stuck"]:
            s0 = r["stuck"][0]
            chk.violation("return-path", key, "%s::sample has no path to `return` for parameters %s (%d such case(s)%s): for these valid parameters every exit test of "
                          "its loops fails on every stream" % (r["family"], s0["case"], len(r["stuck"]), "; it always panics: " + s0["panics"][0] if s0["panics"] else ""))
        else:
            chk.ok("return-path", key + ": a return path exists in all %d parameter cases (extremes included)" % r["cases"], nontrivial=True)
    chk.evaluations += total
    chk.extra["return_path_cases"] = total
    chk.floor("return-path parameter cases", total, 500)
