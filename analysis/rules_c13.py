"""C13 — single-draw samplers: the transform is the documented quantile function (DESIGN.md 5/C13, 11.6).

The property is the exact f32 law obtained by pushing all 2^24 values of the one uniform draw through sample(); that enumeration is
execution and is not attempted.  Decided here, for Cauchy, Pareto, Weibull, Gumbel, Frechet and Triangular (f32 and f64):

  S1  sample() has no loop, contains exactly one RNG draw site and calls no crate-local function that draws: one uniform per sample;
  S2  the value returned, as a symbolic term over that draw u and the constructor's arguments (value numbering over the MIR of sample,
      with the constructor's field expressions substituted), is identical over the reals to the documented quantile function Q(u)
      or to its mirror image Q(1-u) (for Cauchy also tan(pi u), which differs from Q by the measure-preserving rotation u -> u + 1/2);
      for Triangular the two branches are checked against the two pieces of Q and the branch condition against u < (mode-min)/(max-min).
      Equality is decided by computer algebra (sympy, tooling interpreter); an alarm needs a refutation: the difference to every
      accepted form is non-zero at an exact rational point.  Anything in between is reported as not decided.

A transform that is not the quantile function (up to these measure-preserving variants) moves the law by far more than the f32
resolution bound of the property, so S1 + S2 are necessary.  Not decided: the rounding of the f32 evaluation (the 2^-24 bound itself).
"""
CONFIGS_THOROUGH = ["serde", "release"]

import json
import os
import subprocess
from fractions import Fraction

from cfgrules import FnInfo, draws_summary, DRAW_METHODS
from facts import span_str
from symterm import Terms, fmt
import rules_c09
from mirutil import bool_branch_taken

HERE = os.path.dirname(os.path.abspath(__file__))


def _s(adt):
    return "<%s<F> as rand::distr::Distribution<F>>::sample" % adt


# name, sampler path, constructor path, struct name, parameter symbols (kind), renames, substitutions, accepted quantile forms
FAMILIES = [
    dict(name="Cauchy", sample=_s("cauchy::Cauchy"), ctor="cauchy::Cauchy::<F>::new", adt="Cauchy",
         symbols={"median": "real", "scale": "positive"},
         accepted=["median + scale*tan(pi*(u - Rational(1,2)))", "median + scale*tan(pi*(Rational(1,2) - u))", "median + scale*tan(pi*u)", "median - scale*tan(pi*u)"]),
    dict(name="Pareto", sample=_s("pareto::Pareto"), ctor="pareto::Pareto::<F>::new", adt="Pareto",
         symbols={"scale": "positive", "shape": "positive"},
         accepted=["scale*(1 - u)**(-1/shape)", "scale*u**(-1/shape)"]),
    dict(name="Weibull", sample=_s("weibull::Weibull"), ctor="weibull::Weibull::<F>::new", adt="Weibull",
         symbols={"scale": "positive", "shape": "positive"},
         accepted=["scale*(-ln(1 - u))**(1/shape)", "scale*(-ln(u))**(1/shape)"]),
    dict(name="Gumbel", sample=_s("gumbel::Gumbel"), ctor="gumbel::Gumbel::<F>::new", adt="Gumbel",
         symbols={"location": "real", "scale": "positive"},
         accepted=["location - scale*ln(-ln(u))", "location - scale*ln(-ln(1 - u))"]),
    dict(name="Frechet", sample=_s("frechet::Frechet"), ctor="frechet::Frechet::<F>::new", adt="Frechet",
         symbols={"location": "real", "scale": "positive", "shape": "positive"},
         accepted=["location + scale*(-ln(u))**(-1/shape)", "location + scale*(-ln(1 - u))**(-1/shape)"]),
    dict(name="Triangular", sample=_s("triangular::Triangular"), ctor="triangular::Triangular::<F>::new", adt="Triangular",
         symbols={"tmin": "real", "d1": "positive", "d2": "positive"}, rename={"min": "tmin", "max": "tmax", "mode": "tmode"},
         subs={"tmode": "tmin + d1", "tmax": "tmin + d1 + d2"},
         pieces={"lower": ["tmin + sqrt(u*(tmax - tmin)*(tmode - tmin))"], "upper": ["tmax - sqrt((1 - u)*(tmax - tmin)*(tmax - tmode))"]},
         cond=[("(tmax - tmin)*u - (tmode - tmin)", 1), ("u - (tmode - tmin)/(tmax - tmin)", 1), ("(tmode - tmin) - (tmax - tmin)*u", -1), ("(tmode - tmin)/(tmax - tmin) - u", -1)]),
]

BINOPS = {"add": "+", "sub": "-", "mul": "*", "div": "/"}
FUN1 = {"ln": "ln", "exp": "exp", "sqrt": "sqrt", "tan": "tan", "abs": "Abs", "ln_1p": "log1p_", "sin": "sin", "cos": "cos", "atan": "atan"}
CONST0 = {"epsilon": "eps_", "min_positive_value": "minpos_", "max_value": "maxval_"}


class NoForm(Exception):
    pass


def to_sym(t, fields, rename):
    """A symterm term as a sympy-parsable string over u, the constructor parameters and constants."""
    k = t[0]
    if k == "const":
        v = t[1]
        if isinstance(v, bool) or not isinstance(v, (int, float)):
            raise NoForm("constant %r" % (v,))
        fr = Fraction(v)
        return "Rational(%d,%d)" % (fr.numerator, fr.denominator)
    if k == "var":
        return rename.get(t[1], t[1])
    if k == "field" and t[1] == ("var", "self") and isinstance(t[2], int):
        if t[2] >= len(fields):
            raise NoForm("field %d of self" % t[2])
        return "(" + fields[t[2]] + ")"
    if k in BINOPS:
        return "((%s) %s (%s))" % (to_sym(t[1], fields, rename), BINOPS[k], to_sym(t[2], fields, rename))
    if k == "neg":
        return "(-(%s))" % to_sym(t[1], fields, rename)
    if k == "call":
        name, args = t[1], t[2:]
        if name in BINOPS and len(args) == 2:
            return "((%s) %s (%s))" % (to_sym(args[0], fields, rename), BINOPS[name], to_sym(args[1], fields, rename))
        if name == "neg" and len(args) == 1:
            return "(-(%s))" % to_sym(args[0], fields, rename)
        if name in FUN1 and len(args) == 1:
            return "%s(%s)" % (FUN1[name], to_sym(args[0], fields, rename))
        if name in ("powf", "powi", "pow") and len(args) == 2:
            return "((%s)**(%s))" % (to_sym(args[0], fields, rename), to_sym(args[1], fields, rename))
        if name == "recip" and len(args) == 1:
            return "(1/(%s))" % to_sym(args[0], fields, rename)
        if name == "PI" and not args:
            return "pi"
        if name == "cbrt" and len(args) == 1:
            return "((%s)**Rational(1,3))" % to_sym(args[0], fields, rename)
        if name in CONST0 and not args:
            return CONST0[name]
        if name == "one" and not args:
            return "1"
        if name == "zero" and not args:
            return "0"
        if name in ("unwrap", "from", "clone", "into") and len(args) >= 1:
            return to_sym(args[-1] if name == "from" else args[0], fields, rename)
        if name in DRAW_METHODS or name == "sample":
            return "u"
    raise NoForm(fmt(t)[:80])


def _names(expr):
    import re
    return set(re.findall(r"[A-Za-z_][A-Za-z_0-9]*", expr))


def find(F, path, bits):
    want = "f32" if bits == 32 else "f64"
    for i in F.instances:
        if i.get("full") and i["path"] == path and want in i["key"]:
            return i
    return None


def ctor_fields(F, inst, adt, rename):
    """Field expressions of the struct literal the constructor returns in Ok(..)."""
    T = Terms(F, inst)
    for b in inst["blocks"]:
        for s in b["stmts"]:
            if s["k"] == "assign" and s["rv"]["k"] == "aggregate" and s["rv"].get("agg") == "adt" and s["rv"].get("variant_name") == adt:
                return [to_sym(T.of_operand(o), [], rename) for o in s["rv"]["ops"]]
    return None


def ret_term_on_path(T, inst, path):
    """The term assigned to the return place by the last definition of _0 along the path."""
    last = None
    for bi in path:
        b = inst["blocks"][bi]
        for s in b["stmts"]:
            if s["k"] == "assign" and s["place"]["l"] == 0 and not s["place"]["p"]:
                rv = s["rv"]
                if rv["k"] == "use":
                    last = T.of_operand(rv["op"])
                elif rv["k"] == "binop" and rv["op"] in ("Add", "Sub", "Mul", "Div"):
                    last = (rv["op"].lower(), T.of_operand(rv["a"]), T.of_operand(rv["b"]))
                else:
                    last = ("rv", rv["k"], 0)
        t = b["term"]
        if t and t["k"] == "call" and t["dest"]["l"] == 0 and not t["dest"]["p"]:
            fn = t["func"].get("fn", {})
            name = fn.get("method") or (fn.get("res_path") or fn.get("path") or "?").rsplit("::", 1)[-1]
            last = ("call", name) + tuple(T.of_operand(a) for a in t["args"])
    return last


def float_conditions(T, inst, path):
    """Float comparisons decided along a path: (op, lhs term, rhs term, taken)."""
    out = []
    for i, bi in enumerate(path[:-1]):
        t = inst["blocks"][bi]["term"]
        if t["k"] != "switch" or t["discr"].get("k") not in ("copy", "move") or t["discr"]["p"]:
            continue
        d = T.body.single_def(t["discr"]["l"])
        if d is None:
            continue
        taken_true = bool_branch_taken(t, path[i + 1])
        if d[2] == "call":
            fn = d[3]["func"].get("fn", {})
            m = fn.get("method")
            if m in ("lt", "le", "gt", "ge", "eq", "ne") and (fn.get("trait") or "").startswith("core::cmp::Partial"):
                out.append((m, T.of_operand(d[3]["args"][0]), T.of_operand(d[3]["args"][1]), taken_true))
        else:
            rv = d[3]["rv"]
            if rv["k"] == "binop" and rv["op"] in ("Lt", "Le", "Gt", "Ge", "Eq", "Ne"):
                out.append((rv["op"].lower(), T.of_operand(rv["a"]), T.of_operand(rv["b"]), taken_true))
    return out


def run(chk, F, tier):
    chk.trusted += ["sympy's simplification (an `equal` verdict) and 40-digit evaluation at rational points (a `different` verdict)",
                    "real analysis: Q(1-u) has the law of Q(u); tan(pi u) has the law of tan(pi (u - 1/2)) (rotation of the circle)",
                    "the one draw is uniform on the unit interval (rand's StandardUniform / OpenClosed01 / Open01)"]
    dsum = draws_summary(F)
    jobs, meta = [], {}
    nfam = nsingle = 0
    for fam in FAMILIES:
        rename = fam.get("rename", {})
        for bits in (32, 64):
            key = "%s:f%d" % (fam["name"], bits)
            s = find(F, fam["sample"], bits)
            c = find(F, fam["ctor"], bits)
            if s is None or c is None:
                chk.violation("anchor", key, "sampler or constructor of %s not found in the extracted program" % fam["name"])
                continue
            nfam += 1
            # ---- S1 one draw, no loop
            fi = FnInfo(F, s, dsum)
            draws, drawing_callees = [], []
            for bi, b in enumerate(s["blocks"]):
                t = b["term"]
                if not (t and t["k"] == "call"):
                    continue
                fn = t["func"].get("fn", {})
                tr, m = fn.get("trait") or "", fn.get("method") or ""
                ds = fn.get("dist_sample") or {}
                is_draw = (fn.get("res") == "unresolved" and (tr.startswith("rand::Rng") or tr.startswith("rand::TryRng")) and m in DRAW_METHODS and not ds.get("key")) or \
                          (m == "sample" and tr.endswith("::Distribution") and fn.get("res_krate") == "rand") or ds.get("res_krate") == "rand"
                if is_draw:
                    draws.append(bi)
                else:
                    for kk in (fn.get("key"), ds.get("key")):
                        if kk and dsum.get(kk) and F.by_key.get(kk, {}).get("local"):
                            drawing_callees.append(kk)
            if fi.loops or len(draws) != 1 or drawing_callees:
                # the property itself says: a sampler that consumes more than one word is outside C13 (covered statistically by C01)
                chk.unproved_note("single-draw", key, "%s::sample no longer consumes exactly one uniform draw (%d loop(s), %d draw site(s), drawing callees %s): C13's "
                                  "premise does not hold for it, nothing is decided" % (fam["name"], len(fi.loops), len(draws), drawing_callees[:2]))
                continue
            nsingle += 1
            chk.ok("single-draw", key + ": no loop, one draw site, no drawing callee", nontrivial=True)
            # ---- S2 terms
            try:
                fields = ctor_fields(F, c, fam["adt"], rename)
            except NoForm as e:
                chk.unproved_note("quantile", key, "constructor field expression outside the term language: %s" % e)
                continue
            if fields is None:
                chk.violation("anchor", key + ":ctor", "the struct literal returned by %s was not found" % fam["ctor"])
                continue
            T = Terms(F, s)
            paths = rules_c09.return_paths(s) or []
            if not paths:
                chk.violation("anchor", key + ":paths", "no return path in %s" % fam["sample"])
                continue
            for pi_, path in enumerate(paths):
                jid = "%s|path%d" % (key, pi_)
                draw_guard = False
                try:
                    term = to_sym(ret_term_on_path(T, s, path), fields, rename)
                    conds = []
                    for op, a, b2, tk in float_conditions(T, s, path):
                        try:
                            conds.append((op, to_sym(a, fields, rename), to_sym(b2, fields, rename), tk))
                        except NoForm:
                            if "pieces" in fam:
                                raise
                            draw_guard = True       # a condition the term language cannot express: the path is only confirmed, never refuted
                except (NoForm, TypeError) as e:
                    chk.unproved_note("quantile", jid, "returned value outside the term language: %s" % e)
                    continue
                # conditions that do not involve the draw are conditions on the parameters: an equality that holds on the path is handed
                # to the algebra as an equation; any other parameter condition makes the path "guarded" (never refuted, only confirmed)
                pconds = [c_ for c_ in conds if "u" not in _names(c_[1]) and "u" not in _names(c_[2])]
                conds = [c_ for c_ in conds if c_ not in pconds]
                # a branch on the value of the draw itself (outside Triangular): the path covers part of (0,1) only, so a mismatch at
                # an arbitrary test point refutes nothing
                assume, guarded = [], draw_guard or (bool(conds) and "pieces" not in fam)
                for op, a, b2, tk in pconds:
                    if (op == "eq" and tk) or (op == "ne" and not tk):
                        assume.append([a, b2])
                    else:
                        guarded = True
                meta[jid] = {"fam": fam, "key": key, "term": term, "conds": conds, "span": s.get("span"), "guarded": guarded}
                base = {"symbols": fam["symbols"], "subs": fam.get("subs", {}), "assume": assume, "guarded": guarded}
                if "pieces" not in fam:
                    jobs.append(dict(base, id=jid, term=term, accepted=fam["accepted"]))
                else:
                    for pn, forms in fam["pieces"].items():
                        jobs.append(dict(base, id=jid + "|" + pn, term=term, accepted=forms))
                    for ci, (op, a, b2, tk) in enumerate(conds):
                        jobs.append(dict(base, id=jid + "|cond%d" % ci, term="(%s) - (%s)" % (a, b2), accepted=[f for f, _ in fam["cond"]]))
    chk.floor("single-draw sampler instances", nfam, 12)
    if not jobs:
        chk.violation("anchor", "jobs", "no symbolic job could be built")
        return
    r = subprocess.run(["python3-vt", os.path.join(HERE, "symcheck.py")], input=json.dumps(jobs), stdout=subprocess.PIPE, stderr=subprocess.PIPE, text=True, timeout=1200)
    if r.returncode != 0:
        raise SystemExit("symcheck failed: " + r.stderr[-2000:])
    res = json.loads(r.stdout)
    chk.evaluations += len(jobs)
    nq = 0
    for jid, m in sorted(meta.items()):
        fam = m["fam"]
        if "pieces" not in fam:
            v = res[jid]
            nq += 1
            if v["verdict"] == "equal":
                chk.ok("quantile", "%s: sample = %s  ==  %s" % (jid, v["term"], fam["accepted"][v["form"]]), nontrivial=True)
            elif v["verdict"] == "different":
                chk.violation("quantile", m["key"], "%s::sample returns %s, which is none of the accepted quantile forms %s (%s): the law of the sampler is not the documented one"
                              % (fam["name"], v.get("term"), fam["accepted"][:2], v["detail"]), where=span_str(m["span"]))
            else:
                chk.unproved_note("quantile", jid, "not decided: %s" % v["detail"])
            continue
        # piecewise (Triangular): which piece does the path condition select?
        side = None
        cond_ok = True
        for ci, (op, a, b2, tk) in enumerate(m["conds"]):
            cv = res[jid + "|cond%d" % ci]
            if cv["verdict"] != "equal":
                cond_ok = False
                if cv["verdict"] == "different":
                    chk.violation("quantile", m["key"] + ":condition", "%s::sample branches on `%s %s %s`, which is not the test u < (mode - min)/(max - min) that separates the two "
                                  "pieces of the triangular quantile function (%s)" % (fam["name"], a, op, b2, cv["detail"]), where=span_str(m["span"]))
                else:
                    chk.unproved_note("quantile", jid + "|cond", "branch condition not decided: %s" % cv["detail"])
                continue
            sgn = fam["cond"][cv["form"]][1]          # D = sgn * positive * (u - c)
            d_neg = (op in ("lt", "le")) == tk         # D < 0 (or <= 0) holds on this path
            below = d_neg if sgn > 0 else not d_neg    # u < c on this path
            side = "lower" if below else "upper"
        if not cond_ok or side is None:
            if cond_ok:
                chk.unproved_note("quantile", jid, "no branch condition on this path")
            continue
        v = res[jid + "|" + side]
        other = res[jid + "|" + ("upper" if side == "lower" else "lower")]
        nq += 1
        if v["verdict"] == "equal":
            chk.ok("quantile", "%s (%s piece): sample = %s  ==  %s" % (jid, side, v["term"], fam["pieces"][side][0]), nontrivial=True)
        elif v["verdict"] == "different":
            extra = " (it is the %s piece: the branches are swapped)" % ("upper" if side == "lower" else "lower") if other["verdict"] == "equal" else ""
            chk.violation("quantile", m["key"] + ":" + side, "%s::sample returns %s on the branch where u %s (mode - min)/(max - min); the %s piece of the quantile function is %s%s"
                          % (fam["name"], v.get("term"), "<" if side == "lower" else ">=", side, fam["pieces"][side][0], extra), where=span_str(m["span"]))
        else:
            chk.unproved_note("quantile", jid, "not decided: %s" % v["detail"])
    chk.floor("quantile identities decided (at least one path per single-draw instance)", nq + sum(1 for u_ in chk.unproved if u_["rule"] == "quantile"), nsingle)
