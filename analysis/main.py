import argparse
import importlib
import os
import sys
import traceback

import facts
from runner import Check

PROPS = {
    # id: (module, level, explanation)
    "C14": ("rules_c14", "proof",
            "Decided: type-and-effect purity of every crate-local function (sampling, constructors, Clone, PartialEq, "
            "Debug): plain-data types at every depth, no mutable/interior-mutable/thread-local statics, no user unsafe, "
            "effect-free transitive resolved call graph incl. dependency MIR, derived/field-wise Clone+PartialEq, "
            "Distribution impls define only `sample`. Not decided: rand's own Iter adaptor and libm/num_traits "
            "internals beyond their call graph (trusted)."),
}


def main(argv):
    ap = argparse.ArgumentParser()
    ap.add_argument("prop")
    ap.add_argument("--tier", default=os.environ.get("VERIF_TIER") or "quick", choices=["quick", "thorough"])
    a = ap.parse_args(argv)
    if a.prop not in PROPS:
        print("unknown or unclaimed property", a.prop)
        return 2
    modname, level, expl = PROPS[a.prop]
    chk = Check(a.prop, a.tier, level, expl)
    try:
        mod = importlib.import_module(modname)
        configs = getattr(mod, "CONFIGS_THOROUGH", ["serde"]) if a.tier == "thorough" else getattr(mod, "CONFIGS_QUICK", ["serde"])
        weights = facts.ALL_WEIGHTS if a.tier == "thorough" and getattr(mod, "ALL_WEIGHTS_THOROUGH", False) else facts.QUICK_WEIGHTS
        for cfg in configs:
            F = facts.extract(cfg, weights=weights)
            chk.tree = F.meta["tree_hash"]
            chk.configs.append({"config": cfg, "cfg_features": F.meta["cfg"], "extract_s": F.meta["extract_s"],
                                "instances": len(F.instances), "rustc": F.meta["rustc"], "weights": F.meta["weights"]})
            mod.run(chk, F, a.tier)
    except SystemExit as e:
        chk.violation("infrastructure", "extract", "the check could not analyse the tree: %s (fail closed)" % e)
    except Exception:
        tb = traceback.format_exc()
        sys.stderr.write(tb)
        chk.violation("infrastructure", "crash", "checker crashed (fail closed): " + tb.strip().splitlines()[-1])
    return chk.finish()
