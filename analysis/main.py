import argparse
import importlib
import os
import sys
import traceback

import facts
from runner import Check

PROPS = {
    "C11": ("rules_c11", "other",
            "Decided (structural clauses): Dirichlet::new verdict on the cell partition incl. subnormal/infinite entries; the method switch "
            "(FromBeta iff all entries <= 0.1, boundary included); length algebra with exact lengths n in {2,3,6}: sample_len() = n in both "
            "representations, sample() returns exactly n components, the buffer-length assertion and output[len-1] are discharged; the "
            "suffix-sum recurrence reads csum[j+1] and alpha[j+1] for the entry written at j, n-1 entries; sample() = one sample_to_slice "
            "on a sample_len() buffer. Not decided: components in [0,1], sum to 1 within ulps, Beta marginals (numerical)."),
    "C08": ("rules_c08", "other",
            "Decided: the validation clause of WeightedAliasIndex::new — InvalidInput on an empty vector, InvalidWeight on a NaN, negative or "
            "greater-than-MAX/len weight (incl. the exact boundary MAX/len, the type's MAX, +inf), InsufficientNonZero when all weights are "
            "zero, otherwise none of these — by abstract interpretation on homogeneous vectors of lengths 0/1/3/7 for every extracted weight "
            "type. Not decided: exactness of the alias table, weights() reconstruction, sampling frequencies, zero-weight indices never "
            "returned (numerical / data-structure invariants, not shape-of-code facts)."),
    "C09": ("rules_c09", "other",
            "Decided (structural clauses): an Err return of push/update is never preceded by a mutable reborrow of *self (CFG) and, on "
            "abstract cases, leaves the abstract tree equal to the input; every storage addition with .unwrap() is preceded by the same "
            "addition on a clone of the root total whose failure returns Err(Overflow); the weight predicate (NaN/negative -> InvalidWeight; "
            "-0, +0, positive, +inf accepted; integer overflow -> Overflow) on interval cases for new/push/update; the parent map of all "
            "ancestor walks is floor((i-1)/2), the child maps of get/try_sample are 2i+1/2i+2, mutually inverse, walks write at the stepped "
            "index; try_sample returns InsufficientNonZero iff empty or zero total. Not decided: equality with a fresh build after "
            "arbitrary histories (needs the inductive subtotal invariant)."),
    "C07": ("rules_c07", "proof",
            "Decided: a units-of-measure typing derivation (location: Point, scale: L, rate: 1/L, shape: dimensionless) of constructor "
            "-> inferred field units -> sample for 13 families x f32/f64, and of from_zscore with std_dev : L/Z, z : Z. A well-typed program "
            "is, over the reals, equivariant under x -> a + b x (b > 0), and since every branch condition compares like units the control "
            "flow and the number of RNG words cannot depend on location/scale. Not decided: the rounding error of the map itself, "
            "Pert::with_mean, negative scale beyond what the typing implies."),
    "C03": ("rules_c03", "other",
            "Decided, three clauses: (a) no single RNG draw pinned to a special point (closed end-point, exact 0 or 1/2, extreme word) adds "
            "NaN/±inf to a sampler's result, for every sampler family x float type x constructor outcome with finite arguments — by "
            "abstract interpretation with one tagged draw per run; (b) NaN-freedom, finiteness and lower bounds of the generic result "
            "where they follow from signs and guards; (c) every panic edge in sampling code is discharged or listed as not discharged. "
            "Not decided: ulp-level support (`<= max`), rounding escapes (Zipf n+1), upper bounds that need relational reasoning "
            "(Beta <= 1, Binomial <= n), weighted-index properties."),
    "C04": ("rules_c04", "other",
            "Decided: the Ok/Err(variant)/panic verdict of every public scalar constructor on every cell of a partition of its "
            "argument space (NaN, ±inf, ±0, cells between the constants the code and docs compare against; ordered ladders for "
            "mutually compared arguments), by abstract interpretation of the monomorphic MIR, against an oracle transcribed from "
            "the error-variant docs; accessors return the argument they are named after. Not decided: thresholds moved by an ulp, "
            "underflow of 0.5*k, regions the docs leave unspecified (listed)."),
    "C05": ("rules_c05", "other",
            "Decided (necessary structural condition only): the crate-local sampling call graph is acyclic; every natural loop on a "
            "sampling path has a non-panic exit whose condition depends, by def-use inside the loop, on a fresh RNG draw made in the "
            "loop or on a loop-carried recurrence/iterator; the three documented escape hatches (BINV restart, Zeta infinite-proposal "
            "return, Poisson MAX_LAMBDA cap) are present and placed where they work. Not decided: how many iterations or RNG words "
            "(acceptance rates, data-bounded recurrences such as BTPE 5.1 / H2PE 4.1), CPU time."),
    "C15": ("rules_c15", "other",
            "Decided: structural symmetry of writer and reader for every serde-enabled type: Serialize/Deserialize twins, both "
            "derive-generated; no serde attribute other than matching bound(serialize)/bound(deserialize) pairs on any item, field or "
            "variant (expanded AST); writer field/variant names (from the derived serialize MIR) == declared fields == reader FIELDS/"
            "VARIANTS constants == reader identifier visitor; PartialEq derived; field types serialise through paired or trusted impls. "
            "Not decided: fidelity of a concrete format (JSON cannot carry ±inf/NaN), float printing."),
    "C06": ("rules_c06", "other",
            "Decided: (1) all 4x257 table entries and both tail constants, as const-evaluated by rustc, satisfy the ziggurat "
            "equations (monotone, F[i]=f(X[i]) to 1e-14, equal layer areas = base strip + tail to 1e-8, end points) — exhaustive; "
            "(2) both ziggurat call sites are wired to a consistent (X,F) pair of one family, the matching symmetry flag, a pdf "
            "that is the family's density over the reals (exp-of-polynomial domain) and a tail routine using that family's R; "
            "(3) structural rules inside `ziggurat` (index mask/shift/bounds, layer-index agreement, tail entry). "
            "Not decided: the sampled law of StandardNormal/Exp1 itself."),
    "C01": ("rules_c01", "other",
            "Decided (agreement with the reference algorithm, not the law itself): for the Gamma samplers (Marsaglia-Tsang incl. the squeeze "
            "constants and the shape<1 boost), Normal/LogNormal/Exp, ChiSquared, StudentT, FisherF, InverseGaussian (Michael-Schucany-Haas root "
            "selection), NormalInverseGaussian, SkewNormal (max/min representation), Pert — every comparison of the implementation is a test of "
            "the reference, the decision functions agree on every truth assignment, every returned term and every derived constructor constant is "
            "identical over the reals (computer algebra on terms extracted from the MIR). Not decided: that the references have the documented "
            "law (cited), rounding, the ziggurat primitives (C06), the single-draw transforms (C13). Beta (Cheng BB/BC incl. Beta::new) is covered."),
    "C02": ("rules_c02", "other",
            "Decided (agreement with the reference algorithm, not the pmf): Zeta and Zipf (single-step decision lists); Poisson/Knuth, Binomial BINV and BTPE "
            "with Binomial::new, StandardGeometric, Geometric, Hypergeometric HIN, Poisson PD (Ahrens-Dieter: Poisson::new, set-up constants, procedure F with its "
            "tables, the sampler) (transition systems cut at the loop headers): every comparison is a test of "
            "the reference (integers: including strictness), equal decision functions, identical returned terms, carried-variable updates and derived constants. "
            "Hypergeometric::new (reflections, HIN/H2PE switch, H2PE set-up constants) likewise. Not examined: the H2PE sampling loop. Not decided anywhere: the probability mass function itself, rounding."),
    "C10": ("rules_c10", "other",
            "Decided (structural clauses of the descent): the target is random_range(ZERO..root subtotal); in one iteration of the descent, on every "
            "feasible path, each comparison is target' < subtotal(child) with child in {2i+1, 2i+2} and target' = target minus exactly the "
            "children already ruled out, a true outcome moves the index to that child, the all-false path subtracts both and selects the node; "
            "comparisons are strict; the returned index is the walked one — i.e. [0, subtotal) is cut into [left | right | self] at every node. "
            "Not decided: rounding of float subtractions (the final assertions), consistency of the subtotals (C09), the empirical frequencies."),
    "C12": ("rules_c12", "other",
            "Decided (algebraic clauses): for UnitCircle, UnitSphere, UnitDisc, UnitBall x f32/f64 — the proposal is k fresh draws per iteration "
            "from Uniform::new(-1, 1); the one exit of the rejection loop is taken exactly when the squared norm of the proposal is below 1; "
            "the returned array is the documented map (accepted point; von Neumann; Marsaglia) up to the symmetries of the proposal and its "
            "squared norm is identically 1 (circle, sphere) resp. the tested squared norm (disc, ball). These are the premises of the classical "
            "uniformity proofs. Not decided: the rounding error of the norm, the singular proposal (C03), the theorems themselves."),
    "C13": ("rules_c13", "other",
            "Decided (necessary clauses, not the f32 enumeration itself): for Cauchy, Pareto, Weibull, Gumbel, Frechet, Triangular x f32/f64, "
            "sample() has no loop and exactly one RNG draw site, and the returned value — as a symbolic term over that draw and the "
            "constructor's arguments — is identical over the reals to the documented quantile function Q(u), its mirror Q(1-u) or (Cauchy) "
            "tan(pi u); Triangular's branch condition and both pieces are checked. Not decided: the 2^-24 resolution bound of the f32 "
            "evaluation (rounding), which needs the enumeration the property describes."),
    # id: (module, level, explanation)
    "C14": ("rules_c14", "proof",
            "Decided: type-and-effect purity of every crate-local function (sampling, constructors, Clone, PartialEq, "
            "Debug): plain-data types at every depth, no mutable/interior-mutable/thread-local statics, no user unsafe, "
            "effect-free transitive resolved call graph incl. dependency MIR, derived/field-wise Clone+PartialEq, "
            "Distribution impls define only `sample`. Not decided: rand's own Iter adaptor and libm/num_traits "
            "internals beyond their call graph (trusted)."),
}


def main(argv):
    ap = argparse.ArgumentParser()
    ap.add_argument("prop")
    ap.add_argument("--tier", default=os.environ.get("VERIF_TIER") or "quick", choices=["quick", "thorough"])
    ap.add_argument("--write-baseline", action="store_true", help="(maintenance) record the obligations proved on this tree as the reference")
    a = ap.parse_args(argv)
    if a.prop not in PROPS:
        print("unknown or unclaimed property", a.prop)
        return 2
    modname, level, expl = PROPS[a.prop]
    chk = Check(a.prop, a.tier, level, expl)
    try:
        mod = importlib.import_module(modname)
        configs = getattr(mod, "CONFIGS_THOROUGH", ["serde"]) if a.tier == "thorough" else getattr(mod, "CONFIGS_QUICK", ["serde"])
        weights = facts.ALL_WEIGHTS if a.tier == "thorough" and getattr(mod, "ALL_WEIGHTS_THOROUGH", False) else facts.QUICK_WEIGHTS
        for cfg in configs:
            F = facts.extract(cfg, weights=weights)
            chk.tree = F.meta["tree_hash"]
            chk.configs.append({"config": cfg, "cfg_features": F.meta["cfg"], "extract_s": F.meta["extract_s"],
                                "instances": len(F.instances), "rustc": F.meta["rustc"], "weights": F.meta["weights"]})
            if a.write_baseline:
                mod.run(chk, F, a.tier, write_baseline=True)
            else:
                mod.run(chk, F, a.tier)
    except SystemExit as e:
        chk.violation("infrastructure", "extract", "the check could not analyse the tree: %s (fail closed)" % e)
    except Exception:
        tb = traceback.format_exc()
        sys.stderr.write(tb)
        chk.violation("infrastructure", "crash", "checker crashed (fail closed): " + tb.strip().splitlines()[-1])
    return chk.finish()
