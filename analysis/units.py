"""E3 — dimensional (units-of-measure) domain on the MIR walker.

A float carries a unit: S(d) — multiplied by b^d when the scale parameter is multiplied by b > 0 and unchanged by a translation
(d is a vector of rational degrees: (L, Z) with Z the z-score dimension); P — a point, transforms as a + b*x; EP — exp of a
point (log-space families); ANY — the literals 0, ±inf, NaN (fixed points of positive scaling); ERR — ill-typed.
A well-typed program computes, over the reals, a function equivariant under x -> a + b*x (b > 0); every branch condition compares
like units, so the control flow — hence the number of RNG words consumed — does not depend on location/scale.
"""
from fractions import Fraction

import absint
from absint import Interp, Bo, St, En, Rf, Vc, Ax, Top, DiscrIn, UNIT, usize, DIVERGE, NOT_HANDLED
from axioms import Axioms, norm_name
from values import In, Fl

Z0 = (Fraction(0), Fraction(0))


class Un:
    __slots__ = ("k", "d")

    def __init__(self, k, d=Z0):
        self.k, self.d = k, (tuple(Fraction(x) for x in d) if k == "S" else Z0)

    def join(self, o):
        if not isinstance(o, Un):
            return Un("ERR")
        if self == o:
            return self
        if self.k == "ANY":
            return o
        if o.k == "ANY":
            return self
        return Un("ERR")

    def __eq__(self, o):
        return isinstance(o, Un) and self.k == o.k and self.d == o.d

    def __hash__(self):
        return hash((self.k, self.d))

    def __repr__(self):
        if self.k == "S":
            if self.d == Z0:
                return "1"
            return "L^%s" % self.d[0] + ("*Z^%s" % self.d[1] if self.d[1] else "")
        return {"P": "Point", "EP": "exp(Point)", "ANY": "0/inf", "ERR": "UNIT-ERROR"}[self.k]


def S(l=0, z=0):
    return Un("S", (Fraction(l), Fraction(z)))


DIMLESS = S(0, 0)
P = Un("P")
EP = Un("EP")
ANY = Un("ANY")
ERR = Un("ERR")


def is_dimless(u):
    return isinstance(u, Un) and (u.k == "ANY" or (u.k == "S" and u.d == Z0))


def add_units(a, b, sub=False):
    if a.k == "ERR" or b.k == "ERR":
        return ERR, "operand already ill-typed"
    if a.k == "ANY":
        return (b, None) if not (sub and b.k == "P") else (ERR, "0 - Point")
    if b.k == "ANY":
        return a, None
    if a.k == "S" and b.k == "S":
        return (a, None) if a.d == b.d else (ERR, "adding %r and %r" % (a, b))
    if a.k == "P" and b.k == "P":
        return (S(1), None) if sub else (ERR, "Point + Point")
    if a.k == "P" and b.k == "S":
        return (P, None) if b.d == S(1).d else (ERR, "Point ± %r" % b)
    if a.k == "S" and b.k == "P":
        if sub:
            return ERR, "%r - Point" % a
        return (P, None) if a.d == S(1).d else (ERR, "%r + Point" % a)
    return ERR, "adding %r and %r" % (a, b)


def mul_units(a, b, div=False):
    if a.k == "ERR" or b.k == "ERR":
        return ERR, "operand already ill-typed"
    if a.k in ("P", "EP") or b.k in ("P", "EP"):
        return ERR, "%s of a Point (%r, %r)" % ("division" if div else "product", a, b)
    if a.k == "ANY" or b.k == "ANY":
        return ANY, None
    d = tuple((x - y) if div else (x + y) for x, y in zip(a.d, b.d))
    return Un("S", d), None


class UnitInterp(Interp):
    """The MIR walker with floats replaced by units; branches are not refined (all feasible)."""

    def const(self, c, fid):
        t = self.F.types[c["ty"]]
        if t["k"] == "float" and "bits" in c:
            v = super().const(c, fid)
            if isinstance(v, Fl):
                if v.nan or v.pinf or v.ninf or v.nz or (v.is_point() and v.point_value() == 0):
                    return ANY
                return DIMLESS
        return super().const(c, fid)

    def top_of(self, ix, depth=0):
        if ix is not None and self.F.types[ix]["k"] == "float":
            return ERR
        return super().top_of(ix, depth)

    def table_elem(self, path, rng):
        return DIMLESS

    def materialize(self, v):
        v = super().materialize(v)
        if isinstance(v, Fl):
            # stray concrete-float abstractions (axioms of the numeric domain) are dimensionless numbers
            if v.is_point() and (v.nan or v.pinf or v.ninf or v.nz or v.point_value() == 0):
                return ANY
            return DIMLESS
        return v

    def unit_error(self, inst, bi, what, span):
        self.event("unit", inst, bi, what, span)

    def binop(self, op, a, b, pa, pb, same, inst, bi, span):
        a = self.materialize(a)
        b = self.materialize(b)
        if isinstance(a, Un) or isinstance(b, Un):
            if not isinstance(a, Un) or not isinstance(b, Un):
                return ERR
            if op in ("Lt", "Le", "Gt", "Ge", "Eq", "Ne"):
                ok = (a == b) or a.k == "ANY" or b.k == "ANY"
                if a.k == "ERR" or b.k == "ERR":
                    ok = False
                if not ok:
                    self.unit_error(inst, bi, "comparison of unlike units %r %s %r: the branch taken would depend on location/scale" % (a, op, b), span)
                return Bo(True, True)
            if op in ("Add", "Sub"):
                r, why = add_units(a, b, op == "Sub")
            elif op in ("Mul", "Div"):
                r, why = mul_units(a, b, op == "Div")
            else:
                r, why = ERR, "operator %s on dimensional values" % op
            if r.k == "ERR" and a.k != "ERR" and b.k != "ERR":
                self.unit_error(inst, bi, why, span)
            return r
        r = super().binop(op, a, b, pa, pb, same, inst, bi, span)
        if isinstance(r, Bo):
            return Bo(True, True)
        return r

    def unop(self, op, a, pa):
        a = self.materialize(a)
        if isinstance(a, Un):
            if op == "Neg":
                return a if a.k in ("S", "ANY", "ERR") else ERR
            return ERR
        r = super().unop(op, a, pa)
        return Bo(True, True) if isinstance(r, Bo) else r

    def cast(self, kind, a, ty):
        a = self.materialize(a)
        t = self.F.types[ty]
        if kind == "IntToFloat":
            return DIMLESS
        if kind == "FloatToFloat":
            return a if isinstance(a, Un) else ERR
        if kind == "FloatToInt":
            if isinstance(a, Un) and not is_dimless(a):
                self.event("unit", None, None, "float-to-int cast of a dimensional value %r" % a, None)
            return In.of_type(t["bits"], t["signed"]) if t["k"] == "int" else Top(ty)
        return super().cast(kind, a, ty)

    def refine(self, st, origin, truth, stamp):
        return True

    def exec_switch(self, inst, fid, bi, st, t):
        d, pd = self.operand_with_place(st, fid, t["discr"])
        d = self.materialize(d)
        if isinstance(d, Bo):
            return [(tg, dict(st)) for _, tg in t["targets"]] + [(t["otherwise"], dict(st))]
        if isinstance(d, In) and not isinstance(d, DiscrIn):
            return [(tg, dict(st)) for _, tg in t["targets"]] + [(t["otherwise"], dict(st))]
        return super().exec_switch(inst, fid, bi, st, t)


def _u(ip, ax, st, v):
    v = ax.deref(ip, st, v)
    return v if isinstance(v, Un) else None


def uh_arith(op):
    def h(ax, ip, inst, fid, bi, st, t, fn, args, argpl, dty):
        a, b = ax.deref(ip, st, args[0]), ax.deref(ip, st, args[1])
        return ip.binop(op, a, b, None, None, False, inst, bi, t.get("span")), st
    return h


def uh_arith_assign(op):
    def h(ax, ip, inst, fid, bi, st, t, fn, args, argpl, dty):
        r = ip.materialize(args[0])
        a = ax.deref(ip, st, r)
        b = ax.deref(ip, st, args[1])
        val = ip.binop(op, a, b, None, None, False, inst, bi, t.get("span"))
        if isinstance(r, Rf) and r.place is not None:
            ip.write_resolved(st, ("place", r.place), val)
        return UNIT, st
    return h


def uh_cmp(ax, ip, inst, fid, bi, st, t, fn, args, argpl, dty):
    a, b = ax.deref(ip, st, args[0]), ax.deref(ip, st, args[1])
    if isinstance(a, Un) or isinstance(b, Un):
        return ip.binop("Lt", a, b, None, None, False, inst, bi, t.get("span")), st
    return Bo(True, True), st


def uh_neg(ax, ip, inst, fid, bi, st, t, fn, args, argpl, dty):
    return ip.unop("Neg", ax.deref(ip, st, args[0]), None), st


def uh_const(u):
    def h(ax, ip, inst, fid, bi, st, t, fn, args, argpl, dty):
        tt = ax.F.types[dty] if dty is not None else None
        if tt and tt["k"] == "int":
            return (In(0, 0, tt["bits"], tt["signed"]) if u is ANY else In(1, 1, tt["bits"], tt["signed"])), st
        return u, st
    return h


def uh_transcendental(name, result=DIMLESS):
    def h(ax, ip, inst, fid, bi, st, t, fn, args, argpl, dty):
        us = [ax.deref(ip, st, a) for a in args]
        if name == "exp" and isinstance(us[0], Un) and us[0].k == "P":
            return EP, st
        if name == "ln" and isinstance(us[0], Un) and us[0].k == "EP":
            return P, st
        for u in us:
            if isinstance(u, Un) and not is_dimless(u):
                if u.k != "ERR":
                    ip.unit_error(inst, bi, "%s of a dimensional value %r" % (name, u), t.get("span"))
                return ERR, st
        if all(isinstance(u, Un) and u.k == "ANY" for u in us) and us:
            return (ANY if name in ("sqrt", "abs", "floor", "ceil") else DIMLESS), st
        return result, st
    return h


def uh_sqrt(ax, ip, inst, fid, bi, st, t, fn, args, argpl, dty):
    u = ax.deref(ip, st, args[0])
    if isinstance(u, Un):
        if u.k == "S":
            return Un("S", tuple(x / 2 for x in u.d)), st
        if u.k == "ANY":
            return ANY, st
        if u.k != "ERR":
            ip.unit_error(inst, bi, "sqrt of %r" % u, t.get("span"))
    return ERR, st


def uh_same(name):
    def h(ax, ip, inst, fid, bi, st, t, fn, args, argpl, dty):
        u = ax.deref(ip, st, args[0])
        if isinstance(u, Un):
            if u.k in ("S", "ANY"):
                return u, st
            if u.k != "ERR":
                ip.unit_error(inst, bi, "%s of %r" % (name, u), t.get("span"))
        return ERR, st
    return h


def uh_recip(ax, ip, inst, fid, bi, st, t, fn, args, argpl, dty):
    u = ax.deref(ip, st, args[0])
    r, why = mul_units(DIMLESS, u if isinstance(u, Un) else ERR, div=True)
    if r.k == "ERR" and why and isinstance(u, Un) and u.k != "ERR":
        ip.unit_error(inst, bi, why, t.get("span"))
    return r, st


def uh_powi(ax, ip, inst, fid, bi, st, t, fn, args, argpl, dty):
    u = ax.deref(ip, st, args[0])
    n = ax.deref(ip, st, args[1])
    if isinstance(u, Un) and u.k == "S":
        if isinstance(n, In) and n.is_point():
            return Un("S", tuple(x * n.lo for x in u.d)), st
        if u.d == Z0:
            return DIMLESS, st
        ip.unit_error(inst, bi, "powi of %r with a non-constant exponent" % u, t.get("span"))
        return ERR, st
    if isinstance(u, Un) and u.k == "ANY":
        return ANY, st
    return ERR, st


def uh_minmax(ax, ip, inst, fid, bi, st, t, fn, args, argpl, dty):
    a, b = ax.deref(ip, st, args[0]), ax.deref(ip, st, args[1])
    if isinstance(a, Un) and isinstance(b, Un):
        j = a.join(b)
        if j.k == "ERR" and a.k != "ERR" and b.k != "ERR":
            ip.unit_error(inst, bi, "min/max of unlike units %r, %r" % (a, b), t.get("span"))
        return j, st
    return NOT_HANDLED


def uh_pred(ax, ip, inst, fid, bi, st, t, fn, args, argpl, dty):
    return Bo(True, True), st


def uh_signum(ax, ip, inst, fid, bi, st, t, fn, args, argpl, dty):
    u = ax.deref(ip, st, args[0])
    if isinstance(u, Un) and u.k in ("S", "ANY"):
        return DIMLESS, st
    if isinstance(u, Un) and u.k != "ERR":
        ip.unit_error(inst, bi, "signum of %r" % u, t.get("span"))
    return ERR, st


def uh_numcast(ax, ip, inst, fid, bi, st, t, fn, args, argpl, dty):
    a = ax.deref(ip, st, args[0])
    ot = ax.F.types[dty] if dty is not None else None
    inner = ax.F.types[ot["args"][0]] if ot and ot["k"] == "adt" and ot["args"] else None
    if inner and inner["k"] == "float":
        if isinstance(a, Un):
            return ax.option(dty, some=a), st
        if isinstance(a, Fl):
            z = a.is_point() and not (a.nan or a.pinf or a.ninf) and a.point_value() == 0
            return ax.option(dty, some=ANY if z else DIMLESS), st
        return ax.option(dty, some=DIMLESS), st
    if inner and inner["k"] == "int":
        if isinstance(a, Un) and not is_dimless(a):
            ip.unit_error(inst, bi, "conversion of %r to an integer" % a, t.get("span"))
        return ax.option(dty, some=In.of_type(inner["bits"], inner["signed"]), none=True), st
    return NOT_HANDLED


def uh_sum(ax, ip, inst, fid, bi, st, t, fn, args, argpl, dty):
    a = ip.materialize(args[0])
    if isinstance(a, Ax) and a.kind == "iter":
        e = ax.deref(ip, st, a.data[0])
        if isinstance(e, Un):
            return e, st
    return NOT_HANDLED


UNIT_TRAIT = {
    ("Mul", "mul"): uh_arith("Mul"), ("Add", "add"): uh_arith("Add"), ("Sub", "sub"): uh_arith("Sub"), ("Div", "div"): uh_arith("Div"),
    ("Neg", "neg"): uh_neg,
    ("AddAssign", "add_assign"): uh_arith_assign("Add"), ("SubAssign", "sub_assign"): uh_arith_assign("Sub"),
    ("MulAssign", "mul_assign"): uh_arith_assign("Mul"), ("DivAssign", "div_assign"): uh_arith_assign("Div"),
    ("PartialOrd", "lt"): uh_cmp, ("PartialOrd", "le"): uh_cmp, ("PartialOrd", "gt"): uh_cmp, ("PartialOrd", "ge"): uh_cmp,
    ("PartialEq", "eq"): uh_cmp, ("PartialEq", "ne"): uh_cmp,
    ("One", "one"): uh_const(DIMLESS), ("Zero", "zero"): uh_const(ANY),
    ("Float", "infinity"): uh_const(ANY), ("Float", "neg_infinity"): uh_const(ANY), ("Float", "nan"): uh_const(ANY),
    ("Float", "max_value"): uh_const(DIMLESS), ("Float", "min_value"): uh_const(DIMLESS), ("Float", "min_positive_value"): uh_const(DIMLESS),
    ("Float", "epsilon"): uh_const(DIMLESS),
    ("FloatConst", "PI"): uh_const(DIMLESS), ("FloatConst", "E"): uh_const(DIMLESS), ("FloatConst", "FRAC_PI_2"): uh_const(DIMLESS),
    ("FloatConst", "TAU"): uh_const(DIMLESS), ("FloatConst", "SQRT_2"): uh_const(DIMLESS), ("FloatConst", "LN_2"): uh_const(DIMLESS),
    ("Float", "ln"): uh_transcendental("ln"), ("Float", "exp"): uh_transcendental("exp"), ("Float", "tan"): uh_transcendental("tan"),
    ("Float", "powf"): uh_transcendental("powf"), ("Float", "floor"): uh_transcendental("floor"), ("Float", "ceil"): uh_transcendental("ceil"),
    ("Float", "sqrt"): uh_sqrt, ("Float", "abs"): uh_same("abs"), ("Float", "recip"): uh_recip, ("Float", "powi"): uh_powi,
    ("Float", "max"): uh_minmax, ("Float", "min"): uh_minmax, ("Float", "signum"): uh_signum,
    ("Float", "is_nan"): uh_pred, ("Float", "is_finite"): uh_pred, ("Float", "is_infinite"): uh_pred, ("Float", "is_normal"): uh_pred,
    ("Float", "is_sign_negative"): uh_pred, ("Float", "is_sign_positive"): uh_pred,
    ("NumCast", "from"): uh_numcast, ("Iterator", "sum"): uh_sum,
}

UNIT_PATH = [
    ("::ln", uh_transcendental("ln")), ("::exp", uh_transcendental("exp")), ("::tan", uh_transcendental("tan")), ("::powf", uh_transcendental("powf")),
    ("::floor", uh_transcendental("floor")), ("::ceil", uh_transcendental("ceil")), ("::sqrt", uh_sqrt), ("::abs", uh_same("abs")),
    ("::recip", uh_recip), ("::powi", uh_powi), ("::max", uh_minmax), ("::min", uh_minmax), ("::signum", uh_signum),
    ("::is_nan", uh_pred), ("::is_finite", uh_pred), ("::is_infinite", uh_pred),
]


class UnitAxioms(Axioms):
    def try_call(self, ip, inst, fid, bi, st, t, fn, args, argpl):
        name = norm_name(fn)
        trait = fn.get("trait") or ""
        method = fn.get("method") or name.rsplit("::", 1)[-1]
        dty = self.dest_ty(inst, t)
        h = UNIT_TRAIT.get((trait.rsplit("::", 1)[-1] if trait else "", method))
        if h is None and (name.startswith("std::F::<impl F>::") or name.startswith("core::F::<impl F>::")):
            for suf, hh in UNIT_PATH:
                if name.endswith(suf):
                    h = hh
                    break
        if h is not None:
            r = h(self, ip, inst, fid, bi, st, t, fn, args, argpl, dty)
            if r is not NOT_HANDLED:
                return r
        return super().try_call(ip, inst, fid, bi, st, t, fn, args, argpl)

    # RNG draws are dimensionless
    def draw(self, ip, inst, bi, kind, generic, specials):
        self.draw_sites.setdefault(self.site_key(ip, inst, bi), (kind,))
        if isinstance(generic, Fl):
            return DIMLESS
        return generic

    def uniform_float(self, ip, inst, bi, lo, hi):
        if isinstance(lo, Un) and isinstance(hi, Un):
            j = lo.join(hi)
            self.draw_sites.setdefault(self.site_key(ip, inst, bi), ("Uniform",))
            return j
        return DIMLESS

    def rand_dist_value(self, ip, inst, bi, st, ds, distr, dty):
        p = ds.get("res_path") or ds.get("shown") or ""
        tt = self.F.types[dty] if dty is not None else {"k": "?"}
        if "Uniform" in p and "Standard" not in p:
            d = self.deref(ip, st, distr)
            if isinstance(d, Ax) and d.kind == "uniform" and isinstance(d.data[0], Un):
                return self.uniform_float(ip, inst, bi, d.data[0], d.data[1])
        if tt["k"] == "float":
            self.draw_sites.setdefault(self.site_key(ip, inst, bi), ("draw",))
            return DIMLESS
        return super().rand_dist_value(ip, inst, bi, st, ds, distr, dty)

    def standard_uniform(self, ip, inst, bi, dty):
        tt = self.F.types[dty] if dty is not None else {"k": "?"}
        if tt["k"] == "float":
            self.draw_sites.setdefault(self.site_key(ip, inst, bi), ("draw",))
            return DIMLESS
        return super().standard_uniform(ip, inst, bi, dty)


