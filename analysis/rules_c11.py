"""C11 — Dirichlet: the structural clauses (DESIGN.md 5/C11).

  R1  Dirichlet::new verdict on the cell partition (shared engine and oracle with C04): too short, non-positive/NaN, infinite,
      subnormal entries are rejected with the documented variant, valid vectors accepted, never a panic;
  R2  length algebra and method switch (abstract interpretation with exact vector lengths): for n in {2, 3, 6} and entries on either side
      of 0.1, `new` picks FromBeta iff all entries <= 0.1, `sample_len()` = n in both representations, the Vec returned by `sample`
      has exactly n elements, the buffer-length assertion and `output[len - 1]` are discharged;
  R3  suffix-sum index agreement in DirichletFromBeta::new (symbolic index terms): the entry written at j is computed from
      alpha_rev_csum[j + 1] and alpha[j + 1] (same offset), the fill is alpha[n - 1] repeated n - 1 times, and the zip pairs
      alpha[..n - 1] with alpha_rev_csum;
  R4  Distribution<Vec<F>>::sample calls sample_to_slice exactly once on a buffer of sample_len() elements and returns it.
Not decided: components in [0,1], sum = 1 within ulps, Beta marginals (numerical).
"""
import rules_c04
import values as V
from absint import Interp, En, St, Rf, Vc, Top, usize
from axioms import Axioms
from cfgrules import FnInfo
from facts import span_str
from symterm import Terms, linear, lin_sub, fmt
from values import Fl, In

NEW = "multi::dirichlet::Dirichlet::<F>::new"


def find(F, path, bits, contains=None):
    want = "f32" if bits == 32 else "f64"
    for i in F.instances:
        if i.get("full") and i["path"] == path and want in i["key"] and (contains is None or contains in i["key"]):
            return i
    return None


def run(chk, F, tier):
    chk.trusted += ["axioms for Vec/slice/iterator functions (zip, iter_mut, from_elem, push, into_boxed_slice) in analysis/axioms.py"]
    ax = Axioms(F)
    # ---------------------------------------------------------------- R1
    rules_c04._G["F"] = F
    for bits in (32, 64):
        r = rules_c04.run_entry((NEW, bits, tier))
        key = "Dirichlet::new:f%d" % bits
        if r["missing"]:
            chk.violation("new-verdict", key, "Dirichlet::new instance not found")
            continue
        for v in r["violations"][:4]:
            chk.violation("new-verdict", key + "|" + v["kind"] + "|" + "/".join(v.get("outs", [])), "Dirichlet::new (f%d) with %s %s" % (bits, v["case"], v["what"]), where=v.get("where"))
        for e in r["errors"][:2]:
            chk.violation("new-verdict", key + ":oracle", e)
        chk.obligations += r["decided"]
        chk.discharged += r["decided"]
        chk.evaluations += r["cases"]
        chk.nontrivial.add("new-verdict|" + key)
        chk.samples.extend({"rule": "new-verdict", "bits": bits, **s} for s in r["samples"][:2])
        chk.floor("decided Dirichlet::new cases f%d" % bits, r["decided"], 40)
        for u in r["undecided"][:10]:
            chk.unproved_note("new-verdict", key + "|" + u["case"], u["why"])
    # ---------------------------------------------------------------- R2 / R4 (E2)
    nlen = 0
    for bits in (32, 64):
        new = find(F, NEW, bits)
        slen = find(F, "<multi::dirichlet::Dirichlet<F> as multi::MultiDistribution<F>>::sample_len", bits)
        samp = find(F, "<multi::dirichlet::Dirichlet<F> as rand::distr::Distribution<alloc::vec::Vec<F>>>::sample", bits)
        if not (new and slen and samp):
            chk.violation("length", "anchor:f%d" % bits, "Dirichlet new/sample_len/sample instances not found")
            continue
        tty = F.types[new["locals"][0]["ty"]]
        for rep, elem, want_variant in (("all<=0.1", Fl.rng("0.01", False, "0.05", False), "FromBeta"), ("all>0.1", Fl.rng("0.5", False, 2, False), "FromGamma"),
                                         ("=0.1", Fl.point(0.1), "FromBeta")):
            for n in (2, 3, 6, 17, 64):
                if n > 17 and rep == "=0.1":
                    continue        # exact multiples of 0.1 make the suffix sums expensive; the boundary itself is covered up to n = 17
                key = "f%d %s n=%d" % (bits, rep, n)
                ip = Interp(F, ax)
                ip.partition = True
                ip.max_partitions = n + 8
                rv, st = ip.run_root(new, [Rf(None, Vc(elem, usize(n)), False)])
                if not (isinstance(rv, En) and set(rv.variants) == {0}):
                    chk.violation("length", key + ":new", "Dirichlet::new on a valid vector (%s) returns %s" % (key, rules_c04.outcome_names(F, rv)))
                    continue
                d = rv.variants[0][0]
                # representation chosen
                repr_v = ip.materialize(d.fields[0]) if isinstance(d, St) and d.fields else None
                names = None
                if isinstance(repr_v, En) and isinstance(repr_v.ty, int):
                    names = {F.types[repr_v.ty]["variants"][i]["name"] for i in repr_v.variants}
                nlen += 1
                if names != {want_variant}:
                    chk.violation("length", key + ":method", "Dirichlet::new picks %s for entries %s; the documented switch is FromBeta iff all entries <= 0.1" % (names, rep))
                    continue
                ip2 = Interp(F, ax)
                ln, _ = ip2.run_root(slen, [Rf(None, d, False)])
                if not (isinstance(ln, In) and ln.is_point() and ln.lo == n):
                    chk.violation("length", key + ":sample_len", "sample_len() = %r for an alpha of length %d (%s)" % (ln, n, want_variant))
                    continue
                if n > 17:
                    chk.ok("length", key + ": %s, sample_len = %d (sample() itself is run for n <= 17)" % (want_variant, n))
                    continue
                ip3 = Interp(F, ax)
                ip3.partition = True
                ip3.max_partitions = n + 8
                out, st3 = ip3.run_root(samp, [Rf(None, d, False), Rf(None, Top(), True)])
                bad = [e for e in ip3.events.values() if (e.kind == "panic:call" and "assert_failed" in str(e.detail)) or
                       (e.kind in ("panic:assert:BoundsCheck", "panic:index") and "sample_to_slice" in str(e.inst))]
                out = ip3.materialize(out)
                if not (isinstance(out, Vc) and out.len.is_point() and out.len.lo == n):
                    chk.violation("length", key + ":sample", "sample() returns %r; a Dirichlet sample has exactly alpha.len() = %d components" % (out, n))
                elif bad:
                    chk.violation("length", key + ":assert", "sample(): %s may fail in %s (buffer length / last index not established)" % (bad[0].kind, bad[0].inst),
                                  where=span_str(bad[0].span))
                else:
                    chk.ok("length", key + ": %s, sample_len = %d, sample() has %d components, length assertion discharged" % (want_variant, n, n))
    chk.floor("length-algebra cases", nlen, 28)
    normaliser(chk, F, ax)
    write_all(chk, F)
    # R4 call structure
    for bits in (32, 64):
        samp = find(F, "<multi::dirichlet::Dirichlet<F> as rand::distr::Distribution<alloc::vec::Vec<F>>>::sample", bits)
        if samp:
            calls = [t["func"].get("fn", {}).get("method") for b in samp["blocks"] for t in [b["term"]] if t and t["k"] == "call"]
            if calls.count("sample_to_slice") == 1 and calls.count("sample_len") == 1:
                chk.ok("sample-shape", "f%d: sample() = one sample_len() + one sample_to_slice() on that buffer" % bits)
            else:
                chk.violation("sample-shape", "f%d" % bits, "sample() calls %s; expected exactly one sample_len and one sample_to_slice" % calls)
    # ---------------------------------------------------------------- R3 suffix sums
    nidx = 0
    for bits in (32, 64):
        inst = find(F, "multi::dirichlet::DirichletFromBeta::<F>::new", bits)
        if not inst:
            chk.violation("suffix-sum", "anchor:f%d" % bits, "DirichletFromBeta::new not found")
            continue
        T = Terms(F, inst)
        fi = FnInfo(F, inst)
        key = "DirichletFromBeta::new:f%d" % bits
        # the loop that contains an IndexMut on a local vector
        found = False
        for h, body, _ in fi.loops:
            writes, reads = [], []
            for bi in sorted(body):
                t = inst["blocks"][bi]["term"]
                if t and t["k"] == "call":
                    tr = t["func"].get("fn", {}).get("trait") or ""
                    if tr.endswith("ops::IndexMut"):
                        writes.append((fmt(T.of_operand(t["args"][0])), linear(T.of_operand(t["args"][1])), t.get("span")))
                    elif tr.endswith("ops::Index"):
                        reads.append((fmt(T.of_operand(t["args"][0])), linear(T.of_operand(t["args"][1])), t.get("span")))
                # slices are indexed with a place projection, not a call
                for s in inst["blocks"][bi]["stmts"]:
                    if s["k"] == "assign":
                        for op in (s["rv"].get("op"), s["rv"].get("a"), s["rv"].get("b")):
                            if isinstance(op, dict) and op.get("k") in ("copy", "move"):
                                for p in op["p"]:
                                    if p["k"] == "index":
                                        reads.append((fmt(T.of_local(op["l"])), linear(T.of_local(p["local"])), s.get("span")))
            if len(writes) == 1 and len(reads) >= 2:
                found = True
                wc, wl, wsp = writes[0]
                same = [r for r in reads if r[0] == wc]
                other = [r for r in reads if r[0] != wc]
                nidx += 1
                if wl is None or not same or not other or same[0][1] is None or other[0][1] is None:
                    chk.violation("suffix-sum", key + ":terms", "index terms of the suffix-sum loop are not linear (write %s, reads %s)" % (writes, reads), where=span_str(wsp))
                    continue
                d1 = lin_sub(same[0][1], wl)
                d2 = lin_sub(other[0][1], same[0][1])
                if d1 != ({}, 1) or d2 != ({}, 0):
                    chk.violation("suffix-sum", key, "suffix-sum loop: the entry written at j is computed from %s[j%+d] and %s[j%+d]; the recurrence "
                                  "csum[j] = csum[j+1] + alpha[j+1] needs both at j+1" % (wc, int(d1[1]) if not d1[0] else 99, other[0][0], int(d1[1] + d2[1]) if not (d1[0] or d2[0]) else 99),
                                  where=span_str(wsp))
                else:
                    chk.ok("suffix-sum", key + ": csum[j] = csum[j+1] + alpha[j+1] (both reads one past the write)")
        if not found:
            chk.violation("suffix-sum", key + ":anchor", "suffix-sum loop (one indexed write, two indexed reads) not found")
        # fill and zip bounds
        for bi, b in enumerate(inst["blocks"]):
            t = b["term"]
            if t and t["k"] == "call" and (t["func"].get("fn", {}).get("res_path") or "") == "alloc::vec::from_elem":
                cnt = linear(T.of_operand(t["args"][1]))
                if cnt is not None and len(cnt[0]) == 1 and list(cnt[0].values()) == [1] and cnt[1] == -1:
                    chk.ok("suffix-sum", key + ": alpha_rev_csum has n - 1 entries")
                    nidx += 1
                else:
                    chk.violation("suffix-sum", key + ":fill", "alpha_rev_csum is created with %s entries; n - 1 are needed" % fmt(T.of_operand(t["args"][1])), where=span_str(t.get("span")))
                # the fill value seeds every tail sum: it must be the LAST alpha, alpha[n - 1]
                fv = T.of_operand(t["args"][0])
                fi_ = linear(fv[2]) if fv[0] == "idx" else None
                nvar = list(cnt[0])[0] if cnt is not None and len(cnt[0]) == 1 else None
                if fv[0] == "idx" and fmt(fv[1]) == "alpha" and fi_ is not None and fi_ == ({nvar: 1}, -1):
                    chk.ok("suffix-sum", key + ": tail sums are seeded with alpha[n - 1]")
                    nidx += 1
                else:
                    chk.violation("suffix-sum", key + ":seed", "the tail sums are seeded with %s; the last tail sum is alpha[n - 1]" % fmt(fv), where=span_str(t.get("span")))
    chk.floor("suffix-sum rule instances", nidx, 4)


# ------------------------------------------------------------------------------------------------ R5: the normaliser covers every component
def ones_exact(F, ax, inst, lens=None):
    """A function `fn(&[T]) -> T` that claims to add up a slice: on the all-ones vector of exact length n it must return exactly n
    (ones are summed without rounding in any order, so every correct summation algorithm passes).  Returns (checked, failure or None)."""
    et = None
    t0 = F.types[inst["locals"][0]["ty"]]
    if t0["k"] not in ("float", "int"):
        return 0, "return type %s is not a scalar" % t0["s"]
    lens = lens or (list(range(0, 70)) + [100, 127, 128, 129, 255, 256, 257, 300, 1000])
    n_ok = 0
    for n in lens:
        if t0["k"] == "int":
            mx = In.of_type(t0["bits"], t0["signed"]).hi
            if n > mx:
                continue
            one = In(1, 1, t0["bits"], t0["signed"])
        else:
            one = Fl.point(1)
        ip = Interp(F, ax)
        ip.partition = True
        rv, st = ip.run_root(inst, [Rf(None, Vc(one, usize(n)), False)])
        rv = ip.materialize(rv) if st is not None else None
        good = (isinstance(rv, Fl) and rv == Fl.point(n)) or (isinstance(rv, In) and rv.lo == rv.hi == n)
        if not good:
            # definitely wrong (the abstract result excludes n) or merely not evaluated precisely?
            contains = rv is None or not isinstance(rv, (Fl, In)) or (isinstance(rv, Fl) and rv.contains(n)) or (isinstance(rv, In) and rv.lo <= n <= rv.hi)
            msg = "on %d ones it returns %r, not %d" % (n, rv, n)
            return n_ok, (("imprecise: " + msg) if contains else msg)
        n_ok += 1
    return n_ok, None


def normaliser(chk, F, ax):
    """DirichletFromGamma::sample_to_slice divides every slot by `sum`.  Accepted shapes of `sum`: (a) accumulated inside the loop that
    writes the slots, from the slot just written; (b) a crate-local `fn(&[F]) -> F` applied to the whole output slice that passes
    the ones test.  Anything else is reported as not recognised."""
    from symterm import root_local
    nn = 0
    for bits in (32, 64):
        inst = find(F, "<multi::dirichlet::DirichletFromGamma<F> as multi::MultiDistribution<F>>::sample_to_slice", bits)
        key = "DirichletFromGamma::sample_to_slice:f%d" % bits
        if not inst:
            chk.violation("normaliser", key + ":anchor", "instance not found")
            continue
        T = Terms(F, inst)
        fi = FnInfo(F, inst)
        # the divisor: operand b of the Div whose numerator is the constant one (invacc = 1 / sum), or of a slot division
        divs = [s_["rv"] for b in inst["blocks"] for s_ in b["stmts"] if s_["k"] == "assign" and s_["rv"]["k"] == "binop" and s_["rv"]["op"] == "Div"]
        calls_div = [b["term"] for b in inst["blocks"] if b["term"] and b["term"]["k"] == "call" and (b["term"]["func"].get("fn", {}).get("trait") or "").endswith("ops::Div")]
        cands = [rv["b"] for rv in divs] + [t["args"][1] for t in calls_div if len(t["args"]) == 2]
        if not cands:
            chk.violation("normaliser", key + ":anchor", "no division by the normaliser found")
            continue
        nn += 1
        verdicts = []
        for op in cands:
            rl = root_local(T, op)
            if rl is None:
                verdicts.append(("?", "divisor is not a plain local: %s" % fmt(T.of_operand(op))))
                continue
            defs = T.body.defs.get(rl, [])
            # (a) in-loop accumulation: a definition of the divisor inside a loop that also writes through the output iterator, of the
            # form sum = Add(sum, <value read back from the slot / value written to the slot>)
            inloop = [d for d in defs if any(d[0] in body for _, body, _ in fi.loops)]
            if inloop:
                def is_add_of(d, depth=0):
                    """Is this definition `rl + something` (an Add call or binop whose left operand is the accumulator itself)?"""
                    if depth > 4:
                        return False
                    if d[2] == "call":
                        fn = d[3]["func"].get("fn", {})
                        return (fn.get("trait") or "").endswith("ops::Add") and root_local(T, d[3]["args"][0]) == rl
                    rv_ = d[3]["rv"]
                    if rv_["k"] == "binop" and rv_["op"] == "Add":
                        return root_local(T, rv_["a"]) == rl
                    if rv_["k"] == "use" and rv_["op"].get("k") in ("copy", "move") and not rv_["op"]["p"]:
                        d2 = T.body.single_def(rv_["op"]["l"])
                        return d2 is not None and is_add_of(d2, depth + 1)
                    return False
                ok_a = all(is_add_of(d) for d in inloop)
                verdicts.append(("a" if ok_a else "?", "accumulated in the writing loop" if ok_a else "defined in a loop but not as sum = sum + slot"))
                continue
            # (b) a helper applied to the output slice
            d1 = T.body.single_def(rl)
            if d1 is not None and d1[2] == "call":
                fn = d1[3]["func"].get("fn", {})
                callee = F.by_key.get(fn.get("key") or "")
                if callee is not None and callee.get("full") and callee.get("local") and callee["arg_count"] == 1:
                    arg_root = root_local(T, d1[3]["args"][0])
                    if arg_root != 3:
                        verdicts.append(("?", "helper %s is applied to something other than the whole output slice" % callee["path"]))
                        continue
                    n_ok, fail = ones_exact(F, ax, callee)
                    if fail and fail.startswith("imprecise"):
                        chk.unproved_note("normaliser", key + ":helper", "summation helper %s could not be evaluated exactly (%s): not decided" % (callee["path"], fail))
                        verdicts.append(("b", "helper %s (not evaluated exactly)" % callee["path"]))
                    elif fail:
                        verdicts.append(("bad", "the summation helper %s does not add up every element: %s" % (callee["path"], fail)))
                    else:
                        verdicts.append(("b", "helper %s passes the ones test for %d lengths" % (callee["path"], n_ok)))
                    continue
            verdicts.append(("?", "normaliser %s is neither accumulated in the writing loop nor a checked helper over the output slice" % fmt(T.of_operand(op))))
        kinds = {v[0] for v in verdicts}
        if kinds <= {"a", "b"}:
            chk.ok("normaliser", key + ": " + "; ".join(sorted({v[1] for v in verdicts})), nontrivial=True)
        else:
            bad = next(v for v in verdicts if v[0] not in ("a", "b"))
            chk.violation("normaliser", key, "the components are divided by a normaliser that cannot be shown to be the sum of all components: %s" % bad[1], where=span_str(inst.get("span")))
    chk.floor("normaliser sites", nn, 2)


# ------------------------------------------------------------------------------------------------ R6: every slot is written
def write_all(chk, F):
    """In every MultiDistribution::sample_to_slice of the crate, a loop that walks `output.iter_mut()` (possibly zipped) may be left
    only when its iterator is exhausted: any other exit (break, return) leaves slots of the caller's buffer unwritten."""
    nw = 0
    for inst in F.instances:
        if not (inst.get("full") and inst.get("local") and inst["path"].endswith("::sample_to_slice") and (inst.get("impl_trait") or "").endswith("MultiDistribution")):
            continue
        fi = FnInfo(F, inst)
        for li, (h, body, backs) in enumerate(fi.loops):
            nexts = [bi for bi in body if inst["blocks"][bi]["term"] and inst["blocks"][bi]["term"]["k"] == "call" and
                     inst["blocks"][bi]["term"]["func"].get("fn", {}).get("method") == "next"]
            if not nexts:
                continue
            exits = fi.loop_exits(body)
            # the exhaustion exit: the switch on the discriminant of the Option returned by `next`
            okx = []
            for (src, dst) in exits:
                t = inst["blocks"][src]["term"]
                if t["k"] == "switch":
                    for s_ in inst["blocks"][src]["stmts"]:
                        if s_["k"] == "assign" and s_["rv"]["k"] == "discriminant":
                            okx.append((src, dst))
            other = [e for e in exits if e not in okx]
            nw += 1
            key = "%s loop#%d" % (inst["key"], li)
            if other:
                chk.violation("write-all", "%s|loop#%d" % (inst["path"], li), "%s: the loop over the output buffer can be left through an exit other than iterator "
                              "exhaustion (block %d -> %d): the remaining slots keep the caller's old contents" % (inst["path"], other[0][0], other[0][1]),
                              where=span_str(inst["blocks"][other[0][0]]["term"].get("span")))
            else:
                chk.ok("write-all", key + ": left only on iterator exhaustion", nontrivial=(nw <= 4))
    chk.floor("output-walking loops in sample_to_slice impls", nw, 6)
