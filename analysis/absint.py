"""E2 — abstract interpreter over serialized monomorphic MIR (forward worklist analysis, callee bodies analysed in place).

Values: Fl (float), In (integer interval), Bo (boolean with provenance for branch refinement), St (struct/tuple/closure),
En (enum: possible variants with payloads), Rf (reference: resolved place + snapshot), Vc (vector/slice/array summary),
Ax (axiomatised opaque object: Uniform sampler, iterator), Top (unknown, with the type for lazy materialisation).
Panics / failed asserts / unknown calls are recorded as *events* ("may happen" over-approximations).
"""
from fractions import Fraction

import values as V
from values import Fl, In
from mirutil import f64_from_bits, f32_from_bits, successors

WIDEN_AFTER = 3
MAX_PARTITIONS = 10
MAX_DEPTH = 24
MAX_STEPS = 200000


class Bo:
    __slots__ = ("t", "f", "origin", "stamp", "site")

    def __init__(self, t, f, origin=None, stamp=0, site=None):
        self.t, self.f, self.origin, self.stamp, self.site = t, f, origin, stamp, site

    def join(self, o):
        if self.origin is o.origin:
            return Bo(self.t or o.t, self.f or o.f, self.origin, max(self.stamp, o.stamp), self.site)
        if self.site is not None and self.site == o.site:
            # the same comparison instruction evaluated on two paths / iterations: provenance is kept structurally
            m = merge_origin(self.origin, o.origin)
            if m is not None:
                return Bo(self.t or o.t, self.f or o.f, m, max(self.stamp, o.stamp), self.site)
        return Bo(self.t or o.t, self.f or o.f)

    def __eq__(self, o):
        return isinstance(o, Bo) and self.t == o.t and self.f == o.f

    def __hash__(self):
        return hash((self.t, self.f))

    def __repr__(self):
        return "Bo<%s>" % ("T|F" if self.t and self.f else "T" if self.t else "F" if self.f else "bottom")


def merge_origin(a, b):
    if a is None or b is None or a[0] != b[0]:
        return None
    k = a[0]
    if k == "cmp":
        if a[1] != b[1] or a[2][0] != b[2][0] or a[3][0] != b[3][0]:
            return None
        return ("cmp", a[1], (a[2][0], join(a[2][1], b[2][1])), (a[3][0], join(a[3][1], b[3][1])))
    if k == "not":
        m = merge_origin(a[1], b[1])
        return ("not", m) if m is not None else None
    if k == "and":
        m1, m2 = merge_origin(a[1], b[1]), merge_origin(a[2], b[2])
        return ("and", m1, m2) if m1 is not None and m2 is not None else None
    if k == "pred":
        if a[1] != b[1] or a[2][0] != b[2][0]:
            return None
        return ("pred", a[1], (a[2][0], join(a[2][1], b[2][1])))
    if k == "variant":
        return a if a[1:] == b[1:] else None
    return None


class St:
    __slots__ = ("ty", "fields")

    def __init__(self, ty, fields):
        self.ty, self.fields = ty, tuple(fields)

    def __eq__(self, o):
        return isinstance(o, St) and self.fields == o.fields

    def __hash__(self):
        return hash(self.fields)

    def __repr__(self):
        return "St%r" % (self.fields,)


class En:
    """variants: {variant index: tuple of payload values}"""
    __slots__ = ("ty", "variants")

    def __init__(self, ty, variants):
        self.ty, self.variants = ty, dict(variants)

    def __eq__(self, o):
        return isinstance(o, En) and self.variants == o.variants

    def __hash__(self):
        return hash(tuple(sorted(self.variants)))

    def __repr__(self):
        return "En%r" % (self.variants,)


class Rf:
    """Reference. place = (fid, local, proj) fully resolved (no deref inside) or None; snap = value at creation."""
    __slots__ = ("place", "snap", "mut")

    def __init__(self, place, snap, mut=False):
        self.place, self.snap, self.mut = place, snap, mut

    def __eq__(self, o):
        return isinstance(o, Rf) and self.place == o.place and self.snap == o.snap

    def __hash__(self):
        return hash(self.place)

    def __repr__(self):
        return "Rf<%r=%r>" % (self.place, self.snap)


class Vc:
    """Summary of a vector / slice / array / boxed slice: a summary element and a length interval; optionally the element at
    index 0 is tracked separately (`head`), so that code treating the first element differently is visible."""
    __slots__ = ("elem", "len", "head")

    def __init__(self, elem, length, head=None):
        self.elem, self.len, self.head = elem, length, head

    def all_elems(self):
        """Join of every element (head included)."""
        if self.head is None:
            return self.elem
        return join(self.head, self.elem) if self.elem is not None else self.head

    def at(self, lo, hi):
        """Element(s) at indices lo..=hi (None = unknown)."""
        if self.head is None or lo is None:
            return self.all_elems()
        if hi == 0:
            return self.head
        if lo > 0:
            return self.elem
        return self.all_elems()

    def __eq__(self, o):
        return isinstance(o, Vc) and self.elem == o.elem and self.len == o.len and self.head == o.head

    def __hash__(self):
        return hash(self.len)

    def __repr__(self):
        if self.head is not None:
            return "Vc<[0]=%r, rest=%r; len=%r>" % (self.head, self.elem, self.len)
        return "Vc<%r; len=%r>" % (self.elem, self.len)


class Ax:
    """Axiomatised opaque object (kind, data tuple)."""
    __slots__ = ("kind", "data")

    def __init__(self, kind, data):
        self.kind, self.data = kind, tuple(data)

    def __eq__(self, o):
        return isinstance(o, Ax) and self.kind == o.kind and self.data == o.data

    def __hash__(self):
        return hash(self.kind)

    def __repr__(self):
        return "Ax<%s %r>" % (self.kind, self.data)


class Top:
    __slots__ = ("ty",)

    def __init__(self, ty=None):
        self.ty = ty

    def __eq__(self, o):
        return isinstance(o, Top)

    def __hash__(self):
        return 7

    def __repr__(self):
        return "Top"


UNIT = St(None, ())
USIZE = (64, False)


def usize(lo, hi=None):
    return In(lo, lo if hi is None else hi, 64, False)


def join(a, b):
    if a is b:
        return a
    if type(a) is Fl and type(b) is Fl and a == b:
        return a
    if a is None:
        return b
    if b is None:
        return a
    ta, tb = type(a), type(b)
    if ta.__name__ == "Un" or tb.__name__ == "Un":
        # units domain (units.py): joining a unit with a non-unit is a unit error
        if ta is tb:
            return a.join(b)
        return (a if ta.__name__ == "Un" else b).__class__("ERR")
    if ta is Top or tb is Top:
        return a if ta is Top else b
    if ta is not tb:
        return Top(getattr(a, "ty", None))
    if ta is Fl or ta is In or ta is Bo:
        return a.join(b)
    if ta is St:
        if len(a.fields) != len(b.fields):
            return Top(a.ty)
        return St(a.ty, [join(x, y) for x, y in zip(a.fields, b.fields)])
    if ta is En:
        vs = dict(a.variants)
        for k, p in b.variants.items():
            if k in vs:
                vs[k] = tuple(join(x, y) for x, y in zip(vs[k], p))
            else:
                vs[k] = p
        return En(a.ty, vs)
    if ta is Rf:
        return Rf(a.place if a.place == b.place else None, join(a.snap, b.snap), a.mut or b.mut)
    if ta is Vc:
        if a.head is not None and b.head is not None:
            return Vc(join(a.elem, b.elem), a.len.join(b.len), join(a.head, b.head))
        return Vc(join(a.all_elems(), b.all_elems()), a.len.join(b.len))
    if ta is Ax:
        if a.kind == b.kind and len(a.data) == len(b.data):
            return Ax(a.kind, [join(x, y) if not isinstance(x, (str, int, bool, type(None))) or isinstance(x, bool) and False else (x if x == y else None)
                               for x, y in zip(a.data, b.data)])
        return Top()
    return a if a == b else Top()


def widen(a, b, lm):
    """a: previous, b: new contribution"""
    if a is None:
        return b
    if b is None or a is b:
        return a
    ta, tb = type(a), type(b)
    if ta is not tb:
        return join(a, b)
    if ta is Fl:
        return a.widen(b, lm[0])
    if ta is In:
        return a.widen(b, lm[1])
    if ta is St and len(a.fields) == len(b.fields):
        return St(a.ty, [widen(x, y, lm) for x, y in zip(a.fields, b.fields)])
    if ta is En:
        vs = dict(a.variants)
        for k, p in b.variants.items():
            vs[k] = tuple(widen(x, y, lm) for x, y in zip(vs[k], p)) if k in vs else p
        return En(a.ty, vs)
    if ta is Vc:
        if a.head is not None and b.head is not None:
            return Vc(widen(a.elem, b.elem, lm), a.len.widen(b.len, lm[1]), widen(a.head, b.head, lm))
        return Vc(widen(a.all_elems(), b.all_elems(), lm), a.len.widen(b.len, lm[1]))
    if ta is Rf:
        return Rf(a.place if a.place == b.place else None, widen(a.snap, b.snap, lm), a.mut or b.mut)
    if ta is Ax and a.kind == b.kind and len(a.data) == len(b.data):
        return Ax(a.kind, [widen(x, y, lm) if isinstance(x, (Fl, In, St, En, Vc, Rf, Ax, Bo, Top)) else (x if x == y else None) for x, y in zip(a.data, b.data)])
    return join(a, b)


class Event:
    __slots__ = ("kind", "inst", "block", "chain", "detail", "span", "sites", "via")

    def __init__(self, kind, inst, block, chain, detail, span, sites=()):
        self.kind, self.inst, self.block, self.chain, self.detail, self.span = kind, inst, block, chain, detail, span
        self.sites = sites      # call sites (caller key, block) from the root down to the event
        self.via = ()           # ordinals of the CFG predecessors through which a panicking block was entered

    def key(self):
        return (self.kind, self.inst, self.block, self.sites, self.detail)

    def __repr__(self):
        return "Event(%s @%s bb%s %s)" % (self.kind, self.inst, self.block, self.detail)


class Interp:
    def __init__(self, F, axioms=None, inline_pred=None):
        self.F = F
        self.axioms = axioms
        self.events = {}
        self.fid = 0
        self.step = 0
        self.stamp = 0
        self.depth = 0
        self.call_stack = []
        self.site_stack = []
        self.imprecise = []
        self.landmarks = self._landmarks()
        self.inline_pred = inline_pred
        self.hooks = {}          # optional callbacks: 'draw'
        import os
        self.trace = bool(os.environ.get("VERIF_TRACE"))

    def _landmarks(self):
        fl = {Fraction(0), Fraction(1), Fraction(-1)}
        it = {0, 1, -1}
        cache = getattr(self.F, "_landmarks", None)
        if cache:
            return cache

        def visit(x):
            if isinstance(x, dict):
                if x.get("k") == "const" and "bits" in x:
                    t = self.F.types[x["ty"]]
                    if t["k"] == "float":
                        v = f64_from_bits(x["bits"]) if t["bits"] == 64 else f32_from_bits(x["bits"])
                        if v == v and abs(v) != float("inf"):
                            fl.add(Fraction(v))
                    elif t["k"] == "int":
                        v = int(x["bits"], 16)
                        if t["signed"] and v >= 1 << (t["bits"] - 1):
                            v -= 1 << t["bits"]
                        if abs(v) < 1 << 70:
                            it.add(v)
                for y in x.values():
                    if isinstance(y, (dict, list)):
                        visit(y)
            elif isinstance(x, list):
                for y in x:
                    visit(y)
        for inst in self.F.instances:
            if inst.get("full"):
                visit(inst["blocks"])
        lm = (sorted(fl), sorted(it))
        self.F._landmarks = lm
        return lm

    # ------------------------------------------------------------------ events
    def event(self, kind, inst, block, detail, span=None, fid=None):
        chain = tuple(self.call_stack)
        e = Event(kind, inst["key"] if inst else None, block, chain, detail, span, tuple(self.site_stack))
        if fid is not None and inst is not None:
            fl = getattr(self, "flow_preds", {}).get(fid, {}).get(block, ())
            e.via = tuple(sorted(static_preds(inst).get(block, []).index(p) for p in fl if p in static_preds(inst).get(block, [])))
        self.events.setdefault(e.key(), e)
        old = self.events[e.key()]
        if fid is not None and getattr(e, "via", None):
            old.via = tuple(sorted(set(getattr(old, "via", ()) or ()) | set(e.via)))

    # ------------------------------------------------------------------ types
    def ty(self, ix):
        return self.F.types[ix]

    def top_of(self, ix, depth=0):
        if ix is None or depth > 6:
            return Top(ix)
        t = self.F.types[ix]
        k = t["k"]
        if k == "float":
            return Fl.top()
        if k == "int":
            return In.of_type(t["bits"], t["signed"])
        if k == "bool":
            return Bo(True, True)
        if k == "tuple":
            return St(ix, [self.top_of(e, depth + 1) for e in t["elems"]])
        if k == "ref":
            return Rf(None, self.top_of(t["to"], depth + 1), t["mut"])
        if k in ("array", "slice"):
            n = t.get("len")
            return Vc(self.top_of(t["elem"], depth + 1), usize(n) if isinstance(n, int) else usize(0, (1 << 63) - 1))
        if k == "adt":
            p = t["path"]
            if p == "alloc::vec::Vec" or (p == "alloc::boxed::Box" and t["args"] and self.F.types[t["args"][0]]["k"] == "slice"):
                et = t["args"][0]
                if p == "alloc::boxed::Box":
                    et = self.F.types[et]["elem"]
                return Vc(self.top_of(et, depth + 1), usize(0, (1 << 63) - 1))
            if t["adt_kind"] == "enum":
                return En(ix, {i: tuple(self.top_of(f["ty"], depth + 1) for f in v["fields"]) for i, v in enumerate(t["variants"])})
            if t["adt_kind"] == "struct" and t["variants"]:
                return St(ix, [self.top_of(f["ty"], depth + 1) for f in t["variants"][0]["fields"]])
        return Top(ix)

    def materialize(self, v):
        if isinstance(v, Top) and v.ty is not None:
            m = self.top_of(v.ty)
            return m
        return v

    # ------------------------------------------------------------------ constants
    def const(self, c, fid):
        t = self.F.types[c["ty"]]
        k = t["k"]
        if "bits" in c:
            if k == "float":
                v = f64_from_bits(c["bits"]) if t["bits"] == 64 else f32_from_bits(c["bits"])
                return Fl.point(v)
            if k == "int":
                v = int(c["bits"], 16)
                if t["signed"] and v >= 1 << (t["bits"] - 1):
                    v -= 1 << t["bits"]
                return In(v, v, t["bits"], t["signed"])
            if k == "bool":
                b = int(c["bits"], 16) != 0
                return Bo(b, not b)
            if k == "char":
                v = int(c["bits"], 16)
                return In(v, v, 32, False)
            if k == "adt" and t["adt_kind"] == "enum":
                # C-like enum constant stored as scalar
                v = int(c["bits"], 16)
                for i, var in enumerate(t["variants"]):
                    if var.get("discr", i) == v:
                        return En(c["ty"], {i: ()})
            return Top(c["ty"])
        if "fn" in c:
            return Ax("fn", (c["fn"].get("key") or c["fn"].get("shown"), FnRef(c["fn"])))
        if c.get("val"):
            v = self.decode_val(c["val"])
            if v is not None:
                return v
        if "static" in c:
            s = self.F.statics.get(c["static"])
            if s and "float_bits" in s:
                vals = [f64_from_bits(b) for b in s["float_bits"]]
                return Rf(("static", c["static"], ()), Ax("table", (c["static"],)), False)
            return Rf(None, Top(), False)
        if c.get("zst"):
            if k == "adt" and t["adt_kind"] == "enum":
                return En(c["ty"], {0: ()})
            if k == "closure":
                return St(c["ty"], ())
            return St(c["ty"], ())
        if "str" in c:
            return Ax("str", (c["str"],))
        return Top(c["ty"])

    def decode_val(self, d):
        """Typed constant memory decoded by the extractor -> abstract value"""
        if not d:
            return None
        k = d["k"]
        if k == "scalar":
            return self.const({"ty": d["ty"], "bits": d["bits"], "k": "const"}, None)
        if k == "ref":
            inner = self.decode_val(d.get("to"))
            return Rf(None, inner if inner is not None else Top(), False)
        if k == "struct":
            fs = [self.decode_val(f) for f in d["fields"]]
            return St(d["ty"], [f if f is not None else Top() for f in fs])
        if k == "array":
            e = None
            for x in d["elems"]:
                v = self.decode_val(x)
                v = v if v is not None else Top()
                e = v if e is None else join(e, v)
            return Vc(e if e is not None else Top(), usize(len(d["elems"])))
        return None

    # ------------------------------------------------------------------ places
    def resolve(self, st, fid, pl):
        """-> ('place', (fid, local, proj)) or ('value', value, rest_proj)"""
        base = (fid, pl["l"])
        proj = []
        for e in pl["p"]:
            k = e["k"]
            if k == "deref":
                cur = self.read_resolved(st, ("place", (base[0], base[1], tuple(proj))))
                cur = self.materialize(cur)
                if isinstance(cur, Rf):
                    if cur.place is not None:
                        base = (cur.place[0], cur.place[1])
                        proj = list(cur.place[2])
                    else:
                        return self._value_proj(st, fid, cur.snap, pl["p"][pl["p"].index(e) + 1:])
                else:
                    # Box / unknown pointer: treat the pointee as the value itself
                    if isinstance(cur, Top):
                        return ("value", Top(), ())
                    # stay on the same place (Box<T> modelled transparently)
                continue
            if k == "field":
                proj.append(("f", e["i"], e.get("ty")))
            elif k == "downcast":
                proj.append(("v", e["variant"]))
            elif k == "index":
                iv = st.get((fid, e["local"]))
                iv = iv.iv if isinstance(iv, DiscrIn) else iv
                proj.append(("e", (iv.lo, iv.hi)) if isinstance(iv, In) and not iv.is_bottom() else ("e",))
            elif k == "constindex":
                proj.append(("e", (e["offset"], e["offset"])) if not e.get("from_end") else ("e",))
            elif k == "subslice":
                proj.append(("s",))
            else:
                proj.append(("?",))
        return ("place", (base[0], base[1], tuple(proj)))

    def _value_proj(self, st, fid, val, rest):
        proj = []
        for e in rest:
            k = e["k"]
            if k == "deref":
                val = self._apply_proj(val, tuple(proj))
                proj = []
                val = self.materialize(val)
                if isinstance(val, Rf):
                    if val.place is not None:
                        r2 = {"l": val.place[1], "p": []}
                        # continue from the place
                        base = val.place
                        tail = rest[rest.index(e) + 1:]
                        fake = self.resolve_from(st, base, tail)
                        return fake
                    val = val.snap
                continue
            if k == "field":
                proj.append(("f", e["i"], e.get("ty")))
            elif k == "downcast":
                proj.append(("v", e["variant"]))
            elif k in ("index", "constindex"):
                proj.append(("e",))
            elif k == "subslice":
                proj.append(("s",))
            else:
                proj.append(("?",))
        return ("value", self._apply_proj(val, tuple(proj)), ())

    def resolve_from(self, st, base, rest):
        pl = {"l": base[1], "p": list(rest)}
        # re-resolve with a synthetic base projection
        r = self.resolve(st, base[0], {"l": base[1], "p": []})
        proj = list(base[2])
        fid = base[0]
        b = (fid, base[1])
        for e in rest:
            k = e["k"]
            if k == "deref":
                cur = self.materialize(self.read_resolved(st, ("place", (b[0], b[1], tuple(proj)))))
                if isinstance(cur, Rf) and cur.place is not None:
                    b = (cur.place[0], cur.place[1])
                    proj = list(cur.place[2])
                elif isinstance(cur, Rf):
                    return self._value_proj(st, fid, cur.snap, rest[rest.index(e) + 1:])
                continue
            if k == "field":
                proj.append(("f", e["i"], e.get("ty")))
            elif k == "downcast":
                proj.append(("v", e["variant"]))
            elif k in ("index", "constindex"):
                proj.append(("e",))
            elif k == "subslice":
                proj.append(("s",))
            else:
                proj.append(("?",))
        return ("place", (b[0], b[1], tuple(proj)))

    def _apply_proj(self, val, proj):
        for e in proj:
            val = self.materialize(val)
            if e[0] == "f":
                if isinstance(val, St):
                    val = val.fields[e[1]] if e[1] < len(val.fields) else Top(e[2] if len(e) > 2 else None)
                elif isinstance(val, En) and len(val.variants) == 1:
                    p = next(iter(val.variants.values()))
                    val = p[e[1]] if e[1] < len(p) else Top()
                elif isinstance(val, tuple):
                    val = val[e[1]] if e[1] < len(val) else Top()
                elif isinstance(val, Vc):
                    pass      # Box<[T]> / Vec<T> internals (Unique -> NonNull -> pointer) are transparent: still the same sequence
                else:
                    val = Top(e[2] if len(e) > 2 else None)
            elif e[0] == "v":
                if isinstance(val, En):
                    p = val.variants.get(e[1])
                    val = p if p is not None else None
                    if val is None:
                        return None
                else:
                    val = Top()
            elif e[0] == "e":
                if isinstance(val, Vc):
                    rng = e[1] if len(e) > 1 else (None, None)
                    val = val.at(rng[0], rng[1])
                elif isinstance(val, Ax) and val.kind == "table":
                    val = self.table_elem(val.data[0], e[1] if len(e) > 1 else None)
                else:
                    val = Top()
            elif e[0] == "s":
                pass
            else:
                val = Top()
        return val

    def table_elem(self, path, rng):
        """Hull of the entries of a constant f64 table over an index range (exact values from const evaluation)."""
        s = self.F.statics.get(path)
        if not s or "float_bits" not in s:
            return Top()
        vals = getattr(self, "_tables", {}).get(path)
        if vals is None:
            vals = [f64_from_bits(b) for b in s["float_bits"]]
            if not hasattr(self, "_tables"):
                self._tables = {}
            self._tables[path] = vals
        lo, hi = (0, len(vals) - 1) if rng is None else (max(rng[0], 0), min(rng[1], len(vals) - 1))
        if lo > hi:
            return Fl()
        sub = vals[lo:hi + 1]
        return Fl([(Fraction(min(sub)), True, Fraction(max(sub)), True)])

    def read_resolved(self, st, r):
        if r[0] == "value":
            return r[1]
        fid, local, proj = r[1]
        if fid == "static":
            return self._apply_proj(Ax("table", (local,)), proj)
        base = st.get((fid, local))
        if base is None:
            base = Top(self._local_ty(fid, local))
        return self._apply_proj(base, proj)

    def read_place(self, st, fid, pl):
        return self.read_resolved(st, self.resolve(st, fid, pl))

    def _local_ty(self, fid, local):
        inst = self.frames.get(fid)
        if inst is None:
            return None
        try:
            return inst["locals"][local]["ty"]
        except (IndexError, KeyError):
            return None

    def write_resolved(self, st, r, val, weak=False):
        if r[0] != "place":
            self.imprecise.append("write through untracked reference")
            return
        fid, local, proj = r[1]
        if fid == "static":
            return
        old = st.get((fid, local))
        if old is None and proj:
            old = Top(self._local_ty(fid, local))
        st[(fid, local)] = self._update(old, proj, val, weak)
        self.stamp += 1
        st[("w", fid, local)] = self.stamp

    def _update(self, old, proj, val, weak):
        if not proj:
            return join(old, val) if weak and old is not None else val
        e = proj[0]
        old = self.materialize(old)
        if e[0] == "f":
            if isinstance(old, St):
                fs = list(old.fields)
                while len(fs) <= e[1]:
                    fs.append(Top())
                fs[e[1]] = self._update(fs[e[1]], proj[1:], val, weak)
                return St(old.ty, fs)
            if isinstance(old, tuple):
                fs = list(old)
                while len(fs) <= e[1]:
                    fs.append(Top())
                fs[e[1]] = self._update(fs[e[1]], proj[1:], val, weak)
                return tuple(fs)
            if isinstance(old, En) and len(old.variants) == 1:
                k, p = next(iter(old.variants.items()))
                fs = list(p)
                while len(fs) <= e[1]:
                    fs.append(Top())
                fs[e[1]] = self._update(fs[e[1]], proj[1:], val, weak)
                return En(old.ty, {k: tuple(fs)})
            return Top(getattr(old, "ty", None))
        if e[0] == "v":
            if isinstance(old, En):
                vs = dict(old.variants)
                p = vs.get(e[1], ())
                vs[e[1]] = self._update(tuple(p), proj[1:], val, weak)
                if not isinstance(vs[e[1]], tuple):
                    vs[e[1]] = (vs[e[1]],)
                return En(old.ty, vs)
            return Top(getattr(old, "ty", None))
        if e[0] == "e":
            if isinstance(old, Vc):
                rng = e[1] if len(e) > 1 else (None, None)
                if old.head is not None and rng[0] is not None:
                    if rng[1] == 0:
                        return Vc(old.elem, old.len, self._update(old.head, proj[1:], val, weak))
                    if rng[0] > 0:
                        return Vc(self._update(old.elem, proj[1:], val, True), old.len, old.head)
                    return Vc(self._update(old.elem, proj[1:], val, True), old.len, self._update(old.head, proj[1:], val, True))
                if old.head is not None:
                    return Vc(self._update(old.elem, proj[1:], val, True), old.len, self._update(old.head, proj[1:], val, True))
                return Vc(self._update(old.elem, proj[1:], val, True), old.len)
            return Top(getattr(old, "ty", None))
        if e[0] == "s":
            return self._update(old, proj[1:], val, True)
        return Top(getattr(old, "ty", None))

    # ------------------------------------------------------------------ operands / rvalues
    def operand(self, st, fid, op):
        if op["k"] == "const":
            return self.const(op, fid)
        if op["k"] == "runtime_checks":
            return Bo(True, True)
        v = self.read_place(st, fid, op)
        return v

    def operand_with_place(self, st, fid, op):
        if op["k"] in ("copy", "move"):
            r = self.resolve(st, fid, op)
            v = self.read_resolved(st, r)
            return v, (r[1] if r[0] == "place" else None)
        return self.operand(st, fid, op), None

    def rvalue(self, st, fid, rv, inst, bi, span, dest_ty=None):
        k = rv["k"]
        if k == "use":
            return self.operand(st, fid, rv["op"])
        if k == "ref":
            r = self.resolve(st, fid, rv["place"])
            val = self.read_resolved(st, r)
            return Rf(r[1] if r[0] == "place" else None, val, rv["bk"] == "mut")
        if k == "rawptr":
            r = self.resolve(st, fid, rv["place"])
            return Rf(r[1] if r[0] == "place" else None, self.read_resolved(st, r), True)
        if k == "binop":
            a, pa = self.operand_with_place(st, fid, rv["a"])
            b, pb = self.operand_with_place(st, fid, rv["b"])
            same = pa is not None and pa == pb
            return self.binop(rv["op"], a, b, pa, pb, same, inst, bi, span)
        if k == "unop":
            a, pa = self.operand_with_place(st, fid, rv["a"])
            return self.unop(rv["op"], a, pa)
        if k == "cast":
            a = self.operand(st, fid, rv["op"])
            return self.cast(rv["kind"], a, rv["ty"])
        if k == "aggregate":
            ops = [self.operand(st, fid, o) for o in rv["ops"]]
            agg = rv["agg"]
            if agg == "tuple":
                return St(dest_ty, ops)
            if agg == "adt":
                t = self.F.types[rv["ty"]]
                if t["adt_kind"] == "enum":
                    return En(rv["ty"], {rv["variant"]: tuple(ops)})
                return St(rv["ty"], ops)
            if agg == "array":
                e = None
                for o in ops:
                    e = join(e, o) if e is not None else o
                return Vc(e if e is not None else Top(rv.get("elem")), usize(len(ops)))
            if agg == "closure":
                return St(("closure", rv.get("key")), ops)
            return Top(dest_ty)
        if k == "discriminant":
            r = self.resolve(st, fid, rv["place"])
            v = self.materialize(self.read_resolved(st, r))
            if isinstance(v, En):
                t = self.F.types[v.ty] if isinstance(v.ty, int) else None
                ds = []
                for i in v.variants:
                    d = i
                    if t and i < len(t["variants"]):
                        d = t["variants"][i].get("discr", i)
                    ds.append(d)
                bits, signed = 64, True
                if dest_ty is not None and self.F.types[dest_ty]["k"] == "int":
                    bits, signed = self.F.types[dest_ty]["bits"], self.F.types[dest_ty]["signed"]
                iv = In(min(ds), max(ds), bits, signed) if ds else In(1, 0, bits, signed)
                return DiscrIn(iv, r[1] if r[0] == "place" else None, dict(zip(ds, v.variants)), self.stamp)
            bits, signed = 64, True
            return In.of_type(bits, signed)
        if k == "len":
            v = self.read_place(st, fid, rv["place"])
            return v.len if isinstance(v, Vc) else usize(0, (1 << 63) - 1)
        if k == "repeat":
            e = self.operand(st, fid, rv["op"])
            n = rv.get("n")
            return Vc(e, usize(n) if isinstance(n, int) else usize(0, (1 << 63) - 1))
        if k == "thread_local_ref":
            return Rf(None, Top(), True)
        return Top(dest_ty)

    def fl_post(self, v):
        """Optional IEEE-range mode (self.ieee = 32 | 64): round exact points, add overflow/underflow outcomes."""
        bits = getattr(self, "ieee", None)
        if bits and isinstance(v, Fl):
            return V.fl_round(v, bits)
        return v

    # ---- arithmetic
    def binop(self, op, a, b, pa, pb, same, inst, bi, span):
        a = self.materialize(a)
        b = self.materialize(b)
        cmpops = {"Lt": "lt", "Le": "le", "Gt": "gt", "Ge": "ge", "Eq": "eq", "Ne": "ne"}
        if isinstance(a, Fl) and isinstance(b, Fl):
            if op in cmpops:
                t, f = V.cmp_outcomes(cmpops[op], a, b, same)
                return Bo(t, f, ("cmp", cmpops[op], (pa, a), (pb, b)), self.stamp, (inst["key"] if inst else None, bi))
            if op == "Add":
                return self.fl_post(V.fl_add(a, b))
            if op == "Sub":
                if same and a.is_finite():
                    return Fl.point(0)
                return self.fl_post(V.fl_sub(a, b))
            if op == "Mul":
                return self.fl_post(V.fl_mul(a, b, same))
            if op == "Div":
                if same and a.is_finite() and not a.has_zero():
                    return Fl.point(1)
                return self.fl_post(V.fl_div(a, b))
            if op == "Rem":
                return Fl.top()
            return Top()
        if isinstance(a, (In, DiscrIn)) and isinstance(b, (In, DiscrIn)):
            ai = a.iv if isinstance(a, DiscrIn) else a
            bi_ = b.iv if isinstance(b, DiscrIn) else b
            if op in cmpops:
                t, f = V.in_cmp(cmpops[op], ai, bi_)
                if same:
                    t, f = (True, False) if cmpops[op] in ("eq", "le", "ge") else (False, True)
                return Bo(t, f, ("cmp", cmpops[op], (pa, a), (pb, b)), self.stamp, (inst["key"] if inst else None, bi))
            return self.int_binop(op, ai, bi_, inst, bi, span)
        if isinstance(a, Bo) and isinstance(b, Bo):
            if op in ("BitAnd",):
                return Bo(a.t and b.t, a.f or b.f)
            if op in ("BitOr",):
                return Bo(a.t or b.t, a.f and b.f)
            if op in ("Eq", "Ne", "BitXor"):
                eq_t = (a.t and b.t) or (a.f and b.f)
                eq_f = (a.t and b.f) or (a.f and b.t)
                return Bo(eq_t, eq_f) if op == "Eq" else Bo(eq_f, eq_t)
        if op in cmpops:
            return Bo(True, True)
        return Top()

    def int_binop(self, op, a, b, inst, bi, span):
        bits, signed = a.bits, a.signed
        full = In.of_type(bits, signed)
        if a.is_bottom() or b.is_bottom():
            return In(1, 0, bits, signed)
        base = op.replace("WithOverflow", "").replace("Unchecked", "")
        lo = hi = None
        if base == "Add":
            lo, hi = a.lo + b.lo, a.hi + b.hi
        elif base == "Sub":
            lo, hi = a.lo - b.hi, a.hi - b.lo
        elif base == "Mul":
            c = [a.lo * b.lo, a.lo * b.hi, a.hi * b.lo, a.hi * b.hi]
            lo, hi = min(c), max(c)
        elif base == "Div":
            if b.lo <= 0 <= b.hi:
                if b.lo == b.hi:
                    return In(1, 0, bits, signed)
                # exclude 0 (the preceding Assert established it)
                cands = []
                for bb in ([b.lo, -1] if b.lo < 0 else []) + ([1, b.hi] if b.hi > 0 else []):
                    for aa in (a.lo, a.hi):
                        cands.append(int(aa / bb) if bb else 0)
                lo, hi = min(cands), max(cands)
            else:
                c = [_tdiv(a.lo, b.lo), _tdiv(a.lo, b.hi), _tdiv(a.hi, b.lo), _tdiv(a.hi, b.hi)]
                lo, hi = min(c), max(c)
        elif base == "Rem":
            m = max(abs(b.lo), abs(b.hi))
            if m == 0:
                return In(1, 0, bits, signed)
            if a.lo >= 0:
                lo, hi = 0, min(a.hi, m - 1)
            else:
                lo, hi = -(m - 1), m - 1
        elif base == "BitAnd":
            if a.lo >= 0 and b.lo >= 0:
                lo, hi = 0, min(a.hi, b.hi)
                if a.is_point() and b.is_point():
                    lo = hi = a.lo & b.lo
            else:
                return full
        elif base == "BitOr" or base == "BitXor":
            if a.lo >= 0 and b.lo >= 0:
                n = max(a.hi, b.hi).bit_length()
                lo, hi = 0, (1 << n) - 1
                if a.is_point() and b.is_point():
                    lo = hi = (a.lo | b.lo) if base == "BitOr" else (a.lo ^ b.lo)
            else:
                return full
        elif base == "Shl":
            if b.lo >= 0 and b.hi < bits and a.lo >= 0:
                lo, hi = a.lo << b.lo, a.hi << b.hi
            else:
                return full
        elif base == "Shr":
            if b.lo >= 0 and b.hi < bits and a.lo >= 0:
                lo, hi = a.lo >> b.hi, a.hi >> b.lo
            elif b.lo >= 0 and b.hi < bits:
                lo, hi = a.lo >> b.lo if a.lo < 0 else a.lo >> b.hi, a.hi >> b.lo if a.hi >= 0 else a.hi >> b.hi
            else:
                return full
        elif base in ("Offset", "Cmp"):
            return Top()
        else:
            return full
        if op.endswith("WithOverflow"):
            may_over = lo < full.lo or hi > full.hi
            may_ok = not (hi < full.lo or lo > full.hi)
            val = In(max(lo, full.lo), min(hi, full.hi), bits, signed)
            return St(None, [val, Bo(may_over, may_ok)])
        if lo < full.lo or hi > full.hi:
            if base in ("Shl",):
                return full
            # wrapping
            return full
        return In(lo, hi, bits, signed)

    def unop(self, op, a, pa):
        a = self.materialize(a)
        if op == "Not":
            if isinstance(a, Bo):
                return Bo(a.f, a.t, ("not", a.origin) if a.origin else None, a.stamp, a.site)
            if isinstance(a, In):
                if a.signed:
                    return In(-a.hi - 1, -a.lo - 1, a.bits, True)
                m = (1 << a.bits) - 1
                return In(m - a.hi, m - a.lo, a.bits, False)
        if op == "Neg":
            if isinstance(a, Fl):
                return V.fl_neg(a)
            if isinstance(a, In):
                r = In(-a.hi, -a.lo, a.bits, a.signed)
                return r if r.lo >= r.tmin() and r.hi <= r.tmax() else In.of_type(a.bits, a.signed)
        if op == "PtrMetadata":
            if isinstance(a, Rf):
                tgt = self.materialize(a.snap)
                if isinstance(tgt, Vc):
                    return tgt.len
            return usize(0, (1 << 63) - 1)
        return Top()

    def cast(self, kind, a, ty):
        t = self.F.types[ty]
        a = self.materialize(a)
        if isinstance(a, DiscrIn):
            a = a.iv
        if kind == "IntToInt":
            if isinstance(a, Bo):
                a = In(0 if a.f else 1, 1 if a.t else 0, 8, False)
            if isinstance(a, In) and t["k"] == "int":
                full = In.of_type(t["bits"], t["signed"])
                if a.is_bottom():
                    return In(1, 0, t["bits"], t["signed"])
                if a.lo >= full.lo and a.hi <= full.hi:
                    return In(a.lo, a.hi, t["bits"], t["signed"])
                return full
            return self.top_of(ty)
        if kind == "IntToFloat":
            if isinstance(a, Bo):
                a = In(0 if a.f else 1, 1 if a.t else 0, 8, False)
            if isinstance(a, In):
                if a.is_bottom():
                    return Fl()
                return Fl.rng(a.lo, True, a.hi, True)
            return Fl.finite()
        if kind == "FloatToInt":
            if isinstance(a, Fl) and t["k"] == "int":
                full = In.of_type(t["bits"], t["signed"])
                lo, hi = full.hi, full.lo
                if a.nan:
                    lo, hi = min(lo, 0), max(hi, 0)
                if a.pinf:
                    hi = full.hi
                    lo = min(lo, full.hi)
                if a.ninf:
                    lo = full.lo
                    hi = max(hi, full.lo)
                for (l, lc, h, hc) in a.ivs:
                    import math
                    li = full.lo if l == V.NINF else max(full.lo, min(full.hi, math.trunc(l)))
                    hi_ = full.hi if h == V.INF else max(full.lo, min(full.hi, math.trunc(h)))
                    lo, hi = min(lo, li), max(hi, hi_)
                return In(lo, hi, t["bits"], t["signed"])
            return self.top_of(ty)
        if kind == "FloatToFloat":
            if isinstance(a, Fl) and getattr(self, "ieee", None) and t["k"] == "float":
                return V.fl_round(a, t["bits"])
            return a if isinstance(a, Fl) else Fl.top()
        if kind.startswith("PointerCoercion"):
            return a
        if kind in ("PtrToPtr", "Transmute", "Subtype"):
            if kind == "Transmute" and t["k"] in ("rawptr", "ref") and isinstance(a, (Vc, Rf)):
                return a
            return a if kind != "Transmute" else self.top_of(ty)
        return self.top_of(ty)

    # ------------------------------------------------------------------ refinement
    def refine(self, st, origin, truth, stamp):
        """Refine `st` in place under the assumption that the boolean with this origin is `truth`.
        Returns False when the assumption is infeasible."""
        if origin is None:
            return True
        k = origin[0]
        if k == "not":
            return self.refine(st, origin[1], not truth, stamp)
        if k == "and":
            if truth:
                return self.refine(st, origin[1], True, stamp) and self.refine(st, origin[2], True, stamp)
            return True
        if k == "cmp":
            _, op, (pa, a), (pb, b) = origin
            for (pl, x, y, o) in ((pa, a, b, op), (pb, b, a, {"lt": "gt", "le": "ge", "gt": "lt", "ge": "le", "eq": "eq", "ne": "ne"}[op])):
                if pl is None or pl[0] == "static":
                    continue
                if st.get(("w", pl[0], pl[1]), 0) > stamp:
                    continue
                cur = self.read_resolved(st, ("place", pl))
                cur = self.materialize(cur)
                if isinstance(cur, DiscrIn):
                    cur = cur.iv
                xv = x.iv if isinstance(x, DiscrIn) else x
                yv = y.iv if isinstance(y, DiscrIn) else y
                if isinstance(cur, Fl) and isinstance(yv, Fl):
                    new = V.refine_cmp(cur, o, yv, truth)
                    if new.is_bottom():
                        return False
                    if new != cur:
                        self._write_refined(st, pl, new)
                elif isinstance(cur, In) and isinstance(yv, In):
                    new = V.in_refine(cur, o, yv, truth)
                    if new.is_bottom():
                        return False
                    if new != cur:
                        self._write_refined(st, pl, new)
            return True
        if k == "pred":
            _, name, (pl, val) = origin
            if pl is None or st.get(("w", pl[0], pl[1]), 0) > stamp:
                return True
            cur = self.materialize(self.read_resolved(st, ("place", pl)))
            if isinstance(cur, Fl):
                new = fl_pred_refine(cur, name, truth)
                if new.is_bottom():
                    return False
                if new != cur:
                    self._write_refined(st, pl, new)
            return True
        if k == "variant":
            _, pl, keep = origin[:3]
            if not truth:
                keep_neg = origin[3]
                keep = keep_neg
            if pl is None or st.get(("w", pl[0], pl[1]), 0) > stamp:
                return True
            cur = self.materialize(self.read_resolved(st, ("place", pl)))
            if isinstance(cur, En):
                vs = {i: p for i, p in cur.variants.items() if i in keep}
                if not vs:
                    return False
                if len(vs) != len(cur.variants):
                    self._write_refined(st, pl, En(cur.ty, vs))
            return True
        return True

    def _write_refined(self, st, pl, new, depth=0):
        fid, local, proj = pl
        old = st.get((fid, local))
        if old is None:
            old = Top(self._local_ty(fid, local))
        st[(fid, local)] = self._update(old, proj, new, False)
        # the refined local may be a plain copy of another place that has not been written since: refine that too
        if not proj and depth < 4:
            c = st.get(("c", fid, local))
            if c is not None:
                src, stamp = c
                if st.get(("w", src[0], src[1]), 0) <= stamp:
                    cur = self.materialize(self.read_resolved(st, ("place", src)))
                    if type(cur) is type(new) and isinstance(new, (Fl, In)):
                        m = new if isinstance(new, In) else new
                        if isinstance(new, In) and isinstance(cur, In):
                            m = In(max(cur.lo, new.lo), min(cur.hi, new.hi), cur.bits, cur.signed)
                            if m.is_bottom():
                                return
                        elif isinstance(new, Fl):
                            m = cur.meet_ivs(new.ivs, new.pinf, new.ninf, new.nan) if True else new
                            m = Fl(m.ivs, cur.pinf and new.pinf, cur.ninf and new.ninf, cur.nan and new.nan, cur.nz and new.nz)
                            if m.is_bottom():
                                return
                        if m != cur:
                            self._write_refined(st, src, m, depth + 1)

    # ------------------------------------------------------------------ function analysis
    frames = {}

    def run_root(self, inst, args, st=None):
        self.frames = {}
        self.call_stack = []
        self.site_stack = []
        self.depth = 0
        return self.run_fn(inst, args, dict(st or {}), None)

    def run_fn(self, inst, args, st, call_site):
        if self.depth > MAX_DEPTH or inst["key"] in [c for c in self.call_stack[-MAX_DEPTH:]] and self.call_stack.count(inst["key"]) > 10:
            self.imprecise.append("recursion/depth limit at " + inst["key"])
            return Top(inst["locals"][0]["ty"]), st
        self.fid += 1
        fid = self.fid
        self.frames[fid] = inst
        self.depth += 1
        self.call_stack.append(inst["key"])
        self.site_stack.append(call_site)
        blocks = inst["blocks"]
        st0 = dict(st)
        nargs = inst["arg_count"]
        spread = inst.get("spread_arg")
        for i in range(nargs):
            v = args[i] if i < len(args) else Top(inst["locals"][i + 1]["ty"])
            st0[(fid, i + 1)] = v
        if spread is not None and len(args) > nargs:
            # closure call shims pass a tuple that is spread; not needed for crate-local closures
            pass
        # block -> {partition signature -> state}; with self.partition the states whose exact counters (integer points,
        # exact vector / iterator lengths) differ are kept apart (bounded loop unrolling by trace partitioning)
        in_states = {0: {None: st0}}
        visits = {}
        collapsed = set()
        work = [(0, None)]
        self.flow_preds = getattr(self, "flow_preds", {})
        flow = {}
        self.flow_preds[fid] = flow
        ret_val = None
        ret_state = None
        order = _rpo_index(blocks)
        live_in, always_live = liveness(inst)
        part = getattr(self, "partition", False)
        widen_after = getattr(self, "widen_after", WIDEN_AFTER)
        while work:
            self.step += 1
            if self.step > MAX_STEPS:
                self.imprecise.append("step limit")
                break
            work.sort(key=lambda w: -order.get(w[0], 0))
            bi, sg = work.pop()
            cur = in_states.get(bi, {}).get(sg)
            if cur is None:
                continue
            s = dict(cur)
            wt = getattr(self, "watch", None)
            if wt and sg != ("back",) and (inst["key"], bi) in wt:
                # entry state of a watched counting loop: how far is the counter from its bound?
                for (li, c, bnd) in wt[(inst["key"], bi)]:
                    if bnd is None:
                        # a Range / RangeInclusive iterator: (start, end[, exhausted])
                        it = self.materialize(s.get((fid, c)))
                        if isinstance(it, St) and len(it.fields) >= 2:
                            vc, vb = self.materialize(it.fields[0]), self.materialize(it.fields[1])
                        else:
                            continue
                    else:
                        vc, vb = s.get((fid, c)), s.get((fid, bnd))
                    if isinstance(vc, In) and isinstance(vb, In):
                        self.trips.append((inst["key"], li, vb.lo - vc.hi, vc.lo - vb.hi, repr(vc), repr(vb)))
            outs = self.exec_block(inst, fid, bi, s)
            for succ, s2 in outs:
                if succ != "return":
                    flow.setdefault(succ, set()).add(bi)
                if succ == "return":
                    rv = s2.get((fid, 0))
                    if rv is None:
                        rv = UNIT if self.F.types[inst["locals"][0]["ty"]]["k"] == "tuple" else Top(inst["locals"][0]["ty"])
                    ret_val = rv if ret_val is None else join(ret_val, rv)
                    ret_state = s2 if ret_state is None else join_states(ret_state, s2)
                    continue
                # drop this frame's dead locals (they would only pollute joins, e.g. stale branch conditions)
                lv = live_in[succ]
                s2 = {k: v for k, v in s2.items() if not ((k[0] == fid and k[1] not in lv and k[1] not in always_live) or
                                                          (k[0] in ("w", "c") and k[1] == fid and k[2] not in lv and k[2] not in always_live))}
                sg2 = exact_signature(s2, fid) if part and succ not in collapsed else None
                if sg2 is None and succ not in collapsed and order.get(succ, 0) <= order.get(bi, 0):
                    # back edge into a loop header: keep the states arriving over back edges apart from the entry state
                    # (one level of loop peeling: the first evaluation of the loop test sees the initial values only)
                    sg2 = ("back",)
                slot = in_states.setdefault(succ, {})
                if part and succ not in collapsed and sg2 not in slot and len(slot) >= getattr(self, "max_partitions", MAX_PARTITIONS):
                    # too many partitions: collapse this block to one ordinary (joined, widened) state
                    merged = None
                    for x in slot.values():
                        merged = x if merged is None else join_states(merged, x)
                    slot.clear()
                    slot[None] = merged
                    collapsed.add(succ)
                    sg2 = None
                    work[:] = [w for w in work if w[0] != succ]
                old = slot.get(sg2)
                vk = (succ, sg2)
                if old is None:
                    slot[sg2] = s2
                    visits[vk] = 1
                    if (succ, sg2) not in work:
                        work.append((succ, sg2))
                else:
                    visits[vk] = visits.get(vk, 0) + 1
                    if visits[vk] > widen_after:
                        new = widen_states(old, s2, self.landmarks)
                    else:
                        new = join_states(old, s2)
                    if not states_equal(new, old):
                        slot[sg2] = new
                        if (succ, sg2) not in work:
                            work.append((succ, sg2))
        self.call_stack.pop()
        self.site_stack.pop()
        self.depth -= 1
        self.frames.pop(fid, None)
        self.flow_preds.pop(fid, None)
        if ret_state is None:
            return None, None       # diverges
        out = {k: v for k, v in ret_state.items() if not (k[0] == fid or (k[0] in ("w", "c") and k[1] == fid))}
        return ret_val, out

    def exec_block(self, inst, fid, bi, st):
        b = inst["blocks"][bi]
        for s in b["stmts"]:
            k = s["k"]
            if k == "assign":
                pl = s["place"]
                dty = inst["locals"][pl["l"]]["ty"] if not pl["p"] else None
                val = self.rvalue(st, fid, s["rv"], inst, bi, s.get("span"), dty)
                if self.trace:
                    print("%s[%s] bb%d _%d%s = %r" % ("  " * self.depth, inst["path"][-40:], bi, pl["l"], "." if pl["p"] else "", val))
                if val is None:
                    return []     # unreachable projection (downcast of an impossible variant)
                if not pl["p"]:
                    st[(fid, pl["l"])] = val
                    self.stamp += 1
                    st[("w", fid, pl["l"])] = self.stamp
                    rv_ = s["rv"]
                    if rv_["k"] == "use" and rv_["op"].get("k") in ("copy", "move") and isinstance(val, (Fl, In)):
                        r_ = self.resolve(st, fid, rv_["op"])
                        if r_[0] == "place" and r_[1][0] != "static":
                            st[("c", fid, pl["l"])] = (r_[1], self.stamp)
                    else:
                        st.pop(("c", fid, pl["l"]), None)
                else:
                    self.write_resolved(st, self.resolve(st, fid, pl), val)
            elif k == "set_discriminant":
                r = self.resolve(st, fid, s["place"])
                cur = self.materialize(self.read_resolved(st, r))
                if isinstance(cur, En):
                    p = cur.variants.get(s["variant"], ())
                    self.write_resolved(st, r, En(cur.ty, {s["variant"]: p}))
            elif k == "assume":
                v = self.operand(st, fid, s["op"])
                if isinstance(v, Bo):
                    if not v.t:
                        return []
                    self.refine(st, v.origin, True, v.stamp)
        t = b["term"]
        k = t["k"]
        if k == "goto":
            return [(t["target"], st)]
        if k == "return":
            return [("return", st)]
        if k in ("unreachable", "resume", "abort"):
            return []
        if k == "drop":
            return [(t["target"], st)]
        if k == "switch":
            return self.exec_switch(inst, fid, bi, st, t)
        if k == "assert":
            c = self.operand(st, fid, t["cond"])
            exp = t["expected"]
            if isinstance(c, Bo):
                may_pass = c.t if exp else c.f
                may_fail = c.f if exp else c.t
                if may_fail:
                    self.event("panic:assert:" + t["kind"], inst, bi, t["kind"], t.get("span"))
                if not may_pass:
                    return []
                self.refine(st, c.origin, exp, c.stamp)
                self._assert_refine(st, fid, t)
            else:
                self.event("panic:assert:" + t["kind"], inst, bi, t["kind"] + " (undecided)", t.get("span"))
            return [(t["target"], st)]
        if k == "call":
            return self.exec_call(inst, fid, bi, st, t)
        self.imprecise.append("unknown terminator " + k)
        return []

    def _assert_refine(self, st, fid, t):
        """After a passed overflow/bounds assertion the checked quantity is in range (already clamped at creation)."""
        return

    def exec_switch(self, inst, fid, bi, st, t):
        d, pd = self.operand_with_place(st, fid, t["discr"])
        d = self.materialize(d)
        outs = []
        targets = [(int(v, 16), tg) for v, tg in t["targets"]]
        if isinstance(d, Bo):
            for v, tg in targets:
                truth = v != 0
                if (truth and d.t) or (not truth and d.f):
                    s2 = dict(st)
                    if self.refine(s2, d.origin, truth, d.stamp):
                        if pd is not None:
                            self._write_refined(s2, pd, Bo(truth, not truth))
                        outs.append((tg, s2))
            listed = {v != 0 for v, _ in targets}
            for truth in (True, False):
                if truth not in listed and ((truth and d.t) or (not truth and d.f)):
                    s2 = dict(st)
                    if self.refine(s2, d.origin, truth, d.stamp):
                        outs.append((t["otherwise"], s2))
            return outs
        if isinstance(d, DiscrIn):
            listed = set()
            for v, tg in targets:
                listed.add(v)
                if v in d.vmap:
                    s2 = dict(st)
                    if d.place is not None and s2.get(("w", d.place[0], d.place[1]), 0) <= d.stamp:
                        cur = self.materialize(self.read_resolved(s2, ("place", d.place)))
                        if isinstance(cur, En) and d.vmap[v] in cur.variants:
                            self._write_refined(s2, d.place, En(cur.ty, {d.vmap[v]: cur.variants[d.vmap[v]]}))
                    outs.append((tg, s2))
            rest = [v for v in d.vmap if v not in listed]
            if rest:
                s2 = dict(st)
                if d.place is not None and s2.get(("w", d.place[0], d.place[1]), 0) <= d.stamp:
                    cur = self.materialize(self.read_resolved(s2, ("place", d.place)))
                    if isinstance(cur, En):
                        keep = {d.vmap[v] for v in rest}
                        self._write_refined(s2, d.place, En(cur.ty, {i: p for i, p in cur.variants.items() if i in keep}))
                outs.append((t["otherwise"], s2))
            return outs
        if isinstance(d, In):
            tys = self.F.types[t["discr_ty"]]
            listed = []
            for v, tg in targets:
                if tys["k"] == "int" and tys["signed"] and v >= 1 << (tys["bits"] - 1):
                    v -= 1 << tys["bits"]
                listed.append(v)
                if d.lo <= v <= d.hi:
                    s2 = dict(st)
                    if pd is not None:
                        self._write_refined(s2, pd, In(v, v, d.bits, d.signed))
                    outs.append((tg, s2))
            n_in = sum(1 for v in listed if d.lo <= v <= d.hi)
            if (d.hi - d.lo + 1) > n_in:
                s2 = dict(st)
                if pd is not None:
                    nd = d
                    for v in sorted(listed):
                        nd = V.in_refine(nd, "ne", In(v, v, d.bits, d.signed), True)
                    if not nd.is_bottom():
                        self._write_refined(s2, pd, nd)
                outs.append((t["otherwise"], s2))
            return outs
        # unknown discriminant: all targets
        for v, tg in targets:
            outs.append((tg, dict(st)))
        outs.append((t["otherwise"], dict(st)))
        return outs

    # ------------------------------------------------------------------ calls
    def exec_call(self, inst, fid, bi, st, t):
        fn = t["func"].get("fn")
        args = []
        argpl = []
        for a in t["args"]:
            v, p = self.operand_with_place(st, fid, a)
            args.append(v)
            argpl.append(p)
        if fn is None:
            # call through a value: closure / fn item stored in a local
            fv = self.operand(st, fid, t["func"])
            fv = self.materialize(fv)
            if isinstance(fv, Ax) and fv.kind == "fn":
                fn = fv.data[1].fn
            else:
                self.imprecise.append("indirect call")
                return self._finish_call(inst, fid, bi, st, t, self.top_of(inst["locals"][t["dest"]["l"]]["ty"]) if not t["dest"]["p"] else Top())
        res = self.call(inst, fid, bi, st, t, fn, args, argpl)
        if res is DIVERGE:
            return []
        val, st2 = res
        return self._finish_call(inst, fid, bi, st2, t, val)

    def _finish_call(self, inst, fid, bi, st, t, val):
        if self.trace:
            print("%s[%s] bb%d _%d = CALL %s -> %r" % ("  " * self.depth, inst["path"][-40:], bi, t["dest"]["l"], (t["func"].get("fn") or {}).get("shown", "?")[:70], val))
        if t.get("target") is None:
            return []
        pl = t["dest"]
        if not pl["p"]:
            st[(fid, pl["l"])] = val
            self.stamp += 1
            st[("w", fid, pl["l"])] = self.stamp
        else:
            self.write_resolved(st, self.resolve(st, fid, pl), val)
        return [(t["target"], st)]

    def call(self, inst, fid, bi, st, t, fn, args, argpl):
        """-> (value, state) or DIVERGE"""
        key = fn.get("key")
        callee = self.F.by_key.get(key) if key else None
        # 1. axioms take precedence when they claim the function
        if self.axioms is not None:
            r = self.axioms.try_call(self, inst, fid, bi, st, t, fn, args, argpl)
            if r is not NOT_HANDLED:
                return r
        # 2. crate-local (and serialised shim / whitelisted core) bodies are analysed in place
        if callee is not None and callee.get("full") and (self.inline_pred is None or self.inline_pred(callee)):
            args2 = args
            if "closure_of" in callee and len(args) == 2:
                # closure bodies are invoked with the rust-call convention: (env, (a, b, ..)) -> env, a, b, ..
                tup = self.materialize(args[1])
                if isinstance(tup, St):
                    args2 = [args[0]] + list(tup.fields)
            rv, st2 = self.run_fn(callee, args2, st, (inst["key"], bi))
            if st2 is None:
                return DIVERGE
            return rv, st2
        # 3. unknown: havoc
        name = fn.get("res_path") or fn.get("path") or "?"
        self.event("unknown-call", inst, bi, name, t.get("span"))
        self.imprecise.append("unknown call " + name)
        for a in args:
            self.havoc(st, a)
        dty = inst["locals"][t["dest"]["l"]]["ty"] if not t["dest"]["p"] else None
        return (self.top_of(dty) if dty is not None else Top()), st

    def havoc(self, st, v):
        if isinstance(v, Rf) and v.mut and v.place is not None and v.place[0] != "static":
            fid, local, proj = v.place
            ty = None
            self.write_resolved(st, ("place", v.place), Top(ty))

    def call_value(self, fval, args, st, inst, bi):
        """Call a closure / fn item value with already evaluated args (for axioms of higher-order functions)."""
        fval = self.materialize(fval)
        if isinstance(fval, Rf):
            inner = self.materialize(fval.snap if fval.place is None else self.read_resolved(st, ("place", fval.place)))
            return self.call_value(inner, args, st, inst, bi)
        if isinstance(fval, St) and isinstance(fval.ty, tuple) and fval.ty[0] == "closure":
            callee = self.F.by_key.get(fval.ty[1])
            if callee is not None and callee.get("full"):
                # closure body: _1 = closure env (by ref or value), _2.. = args
                self_arg = Rf(None, fval, False)
                t1 = self.F.types[callee["locals"][1]["ty"]]
                a1 = self_arg if t1["k"] == "ref" else fval
                rv, st2 = self.run_fn(callee, [a1] + list(args), st, (inst["key"], bi))
                if st2 is None:
                    return DIVERGE
                return rv, st2
        if isinstance(fval, Ax) and fval.kind == "fn":
            fn = fval.data[1].fn
            callee = self.F.by_key.get(fn.get("key"))
            fake_t = {"args": [], "dest": {"l": 0, "p": []}, "target": 0, "span": None, "func": {"fn": fn}}
            return self.call(inst, None, bi, st, fake_t, fn, list(args), [None] * len(args))
        self.imprecise.append("call of unknown function value")
        return Top(), st


class FnRef:
    __slots__ = ("fn",)

    def __init__(self, fn):
        self.fn = fn

    def __eq__(self, o):
        return isinstance(o, FnRef) and self.fn.get("key") == o.fn.get("key") and self.fn.get("shown") == o.fn.get("shown")

    def __hash__(self):
        return hash(self.fn.get("shown"))

    def __repr__(self):
        return "fn:" + str(self.fn.get("shown"))


class DiscrIn:
    """Discriminant value with a link back to the enum place (for switch refinement)."""
    __slots__ = ("iv", "place", "vmap", "stamp")

    def __init__(self, iv, place, vmap, stamp):
        self.iv, self.place, self.vmap, self.stamp = iv, place, vmap, stamp

    def join(self, o):
        if isinstance(o, DiscrIn) and o.place == self.place:
            vm = dict(self.vmap)
            vm.update(o.vmap)
            return DiscrIn(self.iv.join(o.iv), self.place, vm, max(self.stamp, o.stamp))
        return self.iv.join(o.iv if isinstance(o, DiscrIn) else o)

    def __eq__(self, o):
        return isinstance(o, DiscrIn) and self.iv == o.iv and self.vmap == o.vmap

    def __hash__(self):
        return hash(self.iv)

    def __repr__(self):
        return "Discr%r" % (sorted(self.vmap),)


DIVERGE = object()
NOT_HANDLED = object()


def static_preds(inst):
    c = inst.get("_preds")
    if c is None:
        c = {}
        for bi, b in enumerate(inst["blocks"]):
            for sc in successors(b["term"]):
                c.setdefault(sc, []).append(bi)
        for k in c:
            c[k] = sorted(set(c[k]))
        inst["_preds"] = c
    return c


def _op_uses(op, out):
    if isinstance(op, dict) and op.get("k") in ("copy", "move"):
        out.add(op["l"])
        for p in op["p"]:
            if p["k"] == "index":
                out.add(p["local"])


def _place_uses(pl, out):
    for p in pl["p"]:
        if p["k"] == "index":
            out.add(p["local"])


def liveness(inst):
    """live-in sets of locals per block (address-taken locals are always live); cached on the instance."""
    c = inst.get("_live")
    if c is not None:
        return c
    blocks = inst["blocks"]
    n = len(blocks)
    use = [set() for _ in range(n)]
    defs = [set() for _ in range(n)]
    always = set(range(0, inst["arg_count"] + 1))
    for bi, b in enumerate(blocks):
        u, d = use[bi], defs[bi]

        def read(l):
            if l not in d:
                u.add(l)
        for s in b["stmts"]:
            k = s["k"]
            if k == "assign":
                rv = s["rv"]
                tmp = set()
                rk = rv["k"]
                if rk in ("use", "repeat", "cast"):
                    _op_uses(rv["op"], tmp)
                elif rk == "binop":
                    _op_uses(rv["a"], tmp)
                    _op_uses(rv["b"], tmp)
                elif rk == "unop":
                    _op_uses(rv["a"], tmp)
                elif rk in ("ref", "rawptr"):
                    always.add(rv["place"]["l"])
                    tmp.add(rv["place"]["l"])
                    _place_uses(rv["place"], tmp)
                elif rk in ("discriminant", "len"):
                    tmp.add(rv["place"]["l"])
                    _place_uses(rv["place"], tmp)
                elif rk == "aggregate":
                    for o in rv["ops"]:
                        _op_uses(o, tmp)
                for l in tmp:
                    read(l)
                pl = s["place"]
                _tmp2 = set()
                _place_uses(pl, _tmp2)
                for l in _tmp2:
                    read(l)
                if pl["p"]:
                    read(pl["l"])
                else:
                    d.add(pl["l"])
            elif k == "set_discriminant":
                read(s["place"]["l"])
            elif k == "assume":
                tmp = set()
                _op_uses(s["op"], tmp)
                for l in tmp:
                    read(l)
        t = b["term"]
        if t:
            tmp = set()
            tk = t["k"]
            if tk == "switch":
                _op_uses(t["discr"], tmp)
            elif tk == "assert":
                _op_uses(t["cond"], tmp)
                for o in t.get("ops", []):
                    _op_uses(o, tmp)
            elif tk == "call":
                _op_uses(t["func"], tmp)
                for a in t["args"]:
                    _op_uses(a, tmp)
                _place_uses(t["dest"], tmp)
            elif tk == "drop":
                tmp.add(t["place"]["l"])
            elif tk == "return":
                tmp.add(0)
            for l in tmp:
                read(l)
            if tk == "call":
                if t["dest"]["p"]:
                    read(t["dest"]["l"])
                else:
                    d.add(t["dest"]["l"])
    live_in = [set() for _ in range(n)]
    succs = [successors(b["term"]) for b in blocks]
    changed = True
    while changed:
        changed = False
        for bi in range(n - 1, -1, -1):
            out = set()
            for sc in succs[bi]:
                out |= live_in[sc]
            new = use[bi] | (out - defs[bi])
            if new != live_in[bi]:
                live_in[bi] = new
                changed = True
    res = (live_in, always)
    inst["_live"] = res
    return res


def _tdiv(a, b):
    q = abs(a) // abs(b)
    return q if (a >= 0) == (b >= 0) else -q


def _rpo_index(blocks):
    seen = set()
    order = []
    st = [(0, iter(successors(blocks[0]["term"])))]
    seen.add(0)
    while st:
        n, it = st[-1]
        adv = False
        for s in it:
            if s not in seen:
                seen.add(s)
                st.append((s, iter(successors(blocks[s]["term"]))))
                adv = True
                break
        if not adv:
            order.append(n)
            st.pop()
    return {b: i for i, b in enumerate(reversed(order))}


def _exact(v):
    """A hashable description of the exact counters inside a value, or None."""
    if isinstance(v, In):
        return ("i", v.lo) if v.lo == v.hi else None
    if isinstance(v, DiscrIn):
        return None
    if isinstance(v, Fl):
        # a float that is definitely one infinity (ln 0, a division by an exact zero): kept apart like an exact counter, so that
        # what is computed from it (a saturated cast, a range bound) stays exact
        if not v.ivs and not v.nan and not v.nz and (v.pinf != v.ninf):
            return ("f", "+inf" if v.pinf else "-inf")
        return None
    if isinstance(v, Vc):
        return ("v", v.len.lo) if v.len.lo == v.len.hi else None
    if isinstance(v, Ax):
        if v.kind == "iter" and isinstance(v.data[1], In) and v.data[1].lo == v.data[1].hi:
            return ("it", v.data[1].lo)
        return None
    if isinstance(v, St):
        parts = tuple(_exact(f) for f in v.fields)
        return ("s",) + parts if any(p is not None for p in parts) else None
    return None


def exact_signature(st, fid):
    sig = []
    for k, v in st.items():
        if k[0] == fid and isinstance(k[1], int):
            e = _exact(v)
            if e is not None:
                sig.append((k[1], e))
    return tuple(sorted(sig, key=repr)) if sig else None


def join_states(a, b):
    out = dict(a)
    for k, v in b.items():
        if k in out:
            if k[0] == "w":
                out[k] = max(out[k], v)
            elif k[0] == "c":
                if out[k] != v:
                    out[k] = (v[0], min(out[k][1], v[1])) if out[k][0] == v[0] else None
                    if out[k] is None:
                        del out[k]
            else:
                o = out[k]
                if o is not v:
                    if isinstance(o, DiscrIn) or isinstance(v, DiscrIn):
                        out[k] = o.join(v) if isinstance(o, DiscrIn) else v.join(o)
                    else:
                        out[k] = join(o, v)
        else:
            if k[0] != "c":
                out[k] = v
    for k in [k for k in out if k[0] == "c" and k not in b]:
        del out[k]
    return out


def widen_states(old, new, lm):
    out = dict(old)
    for k, v in new.items():
        if k in out:
            if k[0] == "w":
                out[k] = max(out[k], v)
            elif k[0] == "c":
                if out[k] != v:
                    del out[k]
            else:
                o = out[k]
                if isinstance(o, DiscrIn) or isinstance(v, DiscrIn):
                    out[k] = o.join(v) if isinstance(o, DiscrIn) else v.join(o)
                else:
                    out[k] = widen(o, v, lm)
        else:
            out[k] = v
    return out


def states_equal(a, b):
    if len(a) != len(b):
        # stamps may add keys; compare values of non-stamp keys
        pass
    for k, v in a.items():
        if k[0] == "w" or k[0] == "c":
            continue
        if k not in b or not (b[k] == v):
            return False
    for k in b:
        if k[0] != "w" and k[0] != "c" and k not in a:
            return False
    return True


def fl_pred_refine(x, name, truth):
    """Restrict a float to members satisfying (truth) or violating a classification predicate."""
    if name == "is_nan":
        return Fl(nan=x.nan) if truth else Fl(x.ivs, x.pinf, x.ninf, False, x.nz)
    if name == "is_finite":
        return Fl(x.ivs, nz=x.nz) if truth else Fl((), x.pinf, x.ninf, x.nan)
    if name == "is_infinite":
        return Fl((), x.pinf, x.ninf) if truth else Fl(x.ivs, False, False, x.nan, x.nz)
    if name == "is_sign_negative":
        if truth:
            r = Fl(x.ivs).meet_ivs([(V.NINF, False, Fraction(0), False)])
            return Fl(r.ivs, False, x.ninf, x.nan, x.nz)
        r = Fl(x.ivs).meet_ivs([(Fraction(0), True, V.INF, False)])
        return Fl(r.ivs, x.pinf, False, x.nan, False)
    if name == "is_sign_positive":
        return fl_pred_refine(x, "is_sign_negative", not truth)
    if name.startswith("is_normal"):
        mp = Fraction(name.split(":")[1])
        if truth:
            r = Fl(x.ivs).meet_ivs([(V.NINF, False, -mp, True), (mp, True, V.INF, False)])
            return Fl(r.ivs)
        r = Fl(x.ivs).meet_ivs([(-mp, False, mp, False)])
        return Fl(r.ivs, x.pinf, x.ninf, x.nan, x.nz)
    return x
