"""C15 — serde round trip: structural symmetry of writer and reader.

For every crate-local type with a Serialize impl: a Deserialize twin exists, both derive-generated; the only serde
attributes anywhere are symmetric `bound(..)` pairs; the field/variant names the derived writer emits, the names the
derived reader accepts (FIELDS/VARIANTS constants and the field-identifier visitor) and the type's declared fields agree;
PartialEq (what "compares equal" means) is derived, i.e. looks at every field; field types' own Serialize impls are
crate-local paired ones or belong to rand/core/alloc.
"""
CONFIGS_THOROUGH = ["serde", "std_math"]

import re

from facts import span_str
from mirutil import reachable_blocks, successors

ASYMMETRIC = ("skip", "skip_serializing", "skip_deserializing", "skip_serializing_if", "default", "rename", "rename_all",
              "alias", "with", "serialize_with", "deserialize_with", "from", "try_from", "into", "flatten", "untagged",
              "tag", "content", "other", "transparent", "remote", "getter", "borrow", "deny_unknown_fields", "expecting",
              "variant_identifier", "field_identifier", "crate")


def is_ser(tr):
    return tr.endswith("_serde::Serialize") or tr == "serde::Serialize" or tr.endswith("serde_core::Serialize") or tr.endswith("::ser::Serialize")


def is_de(tr):
    return tr.endswith("_serde::Deserialize") or tr == "serde::Deserialize" or tr.endswith("serde_core::Deserialize") or tr.endswith("::de::Deserialize")


def rpo(blocks):
    seen = set()
    order = []

    def dfs(b):
        st = [(b, iter(successors(blocks[b]["term"])))]
        seen.add(b)
        while st:
            n, it = st[-1]
            adv = False
            for s in it:
                if s not in seen:
                    seen.add(s)
                    st.append((s, iter(successors(blocks[s]["term"]))))
                    adv = True
                    break
            if not adv:
                order.append(n)
                st.pop()
    dfs(0)
    return list(reversed(order))


def str_args(t):
    return [a.get("str") for a in t["args"]]


def flat_strs(x, out):
    if isinstance(x, str):
        if x.startswith("mem:"):
            out.append(x[4:])
    elif isinstance(x, list):
        for y in x:
            flat_strs(y, out)
    return out


def writer_table(F, inst):
    """(container name, [field names in order], {variant names}) from a derived `serialize` body."""
    fields, variants, containers = [], [], set()
    order = rpo(inst["blocks"])
    for bi in order:
        t = inst["blocks"][bi]["term"]
        if not t or t["k"] != "call":
            continue
        fn = t["func"].get("fn", {})
        m = fn.get("method") or ""
        sa = str_args(t)
        if m in ("serialize_struct", "serialize_tuple_struct", "serialize_unit_struct", "serialize_newtype_struct"):
            containers.add(sa[1])
        elif m == "serialize_field" and (fn.get("trait") or "").endswith(("SerializeStruct", "SerializeStructVariant")):
            fields.append(sa[1])
        elif m in ("serialize_unit_variant", "serialize_newtype_variant", "serialize_struct_variant", "serialize_tuple_variant"):
            containers.add(sa[1])
            variants.append(sa[3])
    return containers, fields, variants


def reader_tables(F, adt_path, generic_path_prefix):
    """Names accepted by the derived reader: FIELDS/VARIANTS constant and the identifier visitor's visit_str."""
    consts, visit = None, None
    for i in F.instances:
        if not i.get("full"):
            continue
        p = i["path"]
        if generic_path_prefix not in p:
            continue
        if p.endswith("::deserialize") and "__" not in p.split(generic_path_prefix)[-1]:
            for b in i["blocks"]:
                t = b["term"]
                if t and t["k"] == "call":
                    m = t["func"].get("fn", {}).get("method") or ""
                    if m in ("deserialize_struct", "deserialize_enum", "deserialize_tuple_struct", "deserialize_unit_struct"):
                        for a in t["args"]:
                            if isinstance(a.get("mem"), dict) and a["mem"].get("has_ptrs"):
                                consts = flat_strs(a["mem"].get("ptr_targets", []), [])
                        if consts is None and m == "deserialize_unit_struct":
                            consts = []
        if "__FieldVisitor" in p and p.endswith("::visit_str") and visit is None and "::visit_enum::" not in p:
            v = []
            for bi in rpo(i["blocks"]):
                t = i["blocks"][bi]["term"]
                if t and t["k"] == "call" and (t["func"].get("fn", {}).get("shown") or "").startswith("<str as core::cmp::PartialEq>::eq"):
                    for a in t["args"]:
                        if a.get("str") is not None:
                            v.append(a["str"])
            visit = v
    return consts, visit


def run(chk, F, tier):
    chk.trusted += ["serde_derive generates mutually inverse Serialize/Deserialize impls for a type whose only serde attributes are bounds",
                    "rand's own Serialize/Deserialize impls for Uniform*/Open01… (feature rand/serde)",
                    "fidelity of the concrete data format (e.g. JSON cannot carry ±inf/NaN) is out of scope"]
    if "serde" not in F.meta["cfg"]:
        chk.violation("config", "serde-feature", "extraction was not done with feature serde")
        return
    ser, de = {}, {}
    for imp in F.impls:
        tr = imp.get("trait") or ""
        adt = imp.get("self_adt")
        if not adt or adt not in F.adts:
            continue
        if "__" in adt.split("::")[-1]:
            continue  # derive-internal helper types (__Field, __Visitor)
        if is_ser(tr):
            ser.setdefault(adt, []).append(imp)
        elif is_de(tr):
            de.setdefault(adt, []).append(imp)
    types = sorted(set(ser) | set(de))
    chk.floor("serde-enabled types", len(types), 45)
    for adt in types:
        s, d = ser.get(adt, []), de.get(adt, [])
        where = span_str(F.adts[adt]["span"])
        if len(s) != 1 or len(d) != 1:
            chk.violation("pairing", adt, "%s has %d Serialize and %d Deserialize impl(s): a serialised value cannot be read back "
                          "(or the reverse)" % (adt, len(s), len(d)), where=where)
            continue
        if not s[0]["derived"] or not d[0]["derived"]:
            which = "Serialize" if not s[0]["derived"] else "Deserialize"
            chk.violation("pairing", adt + ":handwritten", "%s for %s is hand-written: symmetry with its twin is not established by the derive"
                          % (which, adt), where=span_str((s[0] if not s[0]["derived"] else d[0])["span"]))
            continue
        chk.ok("pairing", adt, nontrivial=False)

    # ---- attribute audit on the expanded AST (all structs/enums, their fields and variants)
    n_attr = 0
    for path, a in sorted(F.ast.items()):
        spots = [("item", x) for x in a["attrs"]]
        for f in a["fields"]:
            spots += [("field " + f["name"], x) for x in f["attrs"]]
        for v in a["variants"]:
            spots += [("variant " + v["name"], x) for x in v["attrs"]]
            for f in v["fields"]:
                spots += [("field %s.%s" % (v["name"], f["name"]), x) for x in f["attrs"]]
        bounds = {}
        for spot, x in spots:
            x1 = " ".join(x.split())
            if not re.match(r"#\[\s*(serde|serde_as|serde_with)\b", x1):
                continue
            n_attr += 1
            inner = x1[x1.index("(") + 1: x1.rindex(")")] if "(" in x1 else ""
            m = re.match(r"bound\s*\(\s*(serialize|deserialize)\s*=\s*\"(.*)\"\s*\)$", inner)
            if spot == "item" and m:
                bounds[m.group(1)] = m.group(2)
                continue
            key = re.split(r"[\s(=]", inner.strip(), 1)[0] if inner else x1
            why = "an asymmetric or lossy serde attribute" if key in ASYMMETRIC else "a serde attribute the symmetry rule does not know"
            chk.violation("attributes", "%s|%s|%s" % (path, spot, key), "%s on %s of %s: %s — the value read back may differ from the one written"
                          % (x1, spot, path, why))
        if bounds:
            sb = bounds.get("serialize")
            db = bounds.get("deserialize")
            norm = lambda b, w: sorted(re.sub(r"\s+", "", p).replace(w, "@") for p in b.split(",")) if b is not None else None  # noqa: E731
            if sb is None or db is None or norm(sb, "Serialize") != norm(db, "Deserialize<'de>"):
                chk.violation("attributes", path + "|bounds", "serde bounds of %s are not a matching serialize/deserialize pair: %r vs %r" % (path, sb, db))
            else:
                chk.ok("attributes", path + ": bound(serialize)/bound(deserialize) correspond", detail={"serialize": sb, "deserialize": db})
    chk.ok("attributes", "no serde attribute other than paired bounds on any struct/enum/field/variant of the crate",
           detail={"serde_attributes_seen": n_attr, "items_scanned": len(F.ast)})
    chk.floor("structs/enums scanned in the expanded AST", len(F.ast), 70)

    # ---- writer / reader tables
    n_tab = 0
    for adt in types:
        if adt not in ser or adt not in de or len(ser[adt]) != 1:
            continue
        decl = F.adts[adt]
        where = span_str(decl["span"])
        spath = ser[adt][0]["items"][0]["path"]
        sinst = [i for i in F.instances if i.get("full") and i["path"] == spath]
        if not sinst:
            chk.violation("tables", adt + ":writer", "derived serialize of %s was not extracted" % adt, where=where)
            continue
        containers, wfields, wvariants = writer_table(F, sinst[0])
        name = decl["name"]
        if containers and containers != {name}:
            chk.violation("tables", adt + ":container", "writer names the container %s, the type is %s" % (sorted(containers), name), where=where)
        if decl["kind"] == "struct":
            dfields = [f["name"] for f in decl["variants"][0]["fields"]]
            named = not all(f.isdigit() for f in dfields) or not dfields
            if named:
                if wfields != dfields:
                    chk.violation("tables", adt + ":writer-fields", "derived writer emits fields %s, the struct declares %s (a field is skipped, "
                                  "renamed or reordered)" % (wfields, dfields), where=where)
                    continue
                dprefix = de[adt][0]["items"][0]["path"].rsplit("::deserialize", 1)[0]
                consts, visit = reader_tables(F, adt, dprefix)
                if dfields:
                    if consts is None or visit is None:
                        chk.violation("tables", adt + ":reader", "reader tables of %s not found (FIELDS=%s, visit_str=%s)" % (adt, consts, visit), where=where)
                        continue
                    if consts != dfields or visit != dfields:
                        chk.violation("tables", adt + ":reader-fields", "reader accepts FIELDS=%s / identifiers %s, the writer emits %s" % (consts, visit, dfields), where=where)
                        continue
                n_tab += 1
                chk.ok("tables", adt + ": writer fields == declared fields == reader FIELDS == reader identifiers", detail={"fields": dfields})
            else:
                n_tab += 1
                chk.ok("tables", adt + ": tuple/unit struct, container name agrees", nontrivial=False)
        else:
            dvars = [v["name"] for v in decl["variants"]]
            if sorted(wvariants) != sorted(dvars):
                chk.violation("tables", adt + ":writer-variants", "derived writer emits variants %s, the enum declares %s" % (sorted(wvariants), sorted(dvars)), where=where)
                continue
            dprefix = de[adt][0]["items"][0]["path"].rsplit("::deserialize", 1)[0]
            consts, visit = reader_tables(F, adt, dprefix)
            if consts is None or visit is None or consts != dvars or visit[:len(dvars)] != dvars:
                chk.violation("tables", adt + ":reader-variants", "reader accepts VARIANTS=%s / identifiers %s, the enum declares %s" % (consts, visit, dvars), where=where)
                continue
            n_tab += 1
            chk.ok("tables", adt + ": writer variants == declared variants == reader VARIANTS", detail={"variants": dvars})
    chk.floor("writer/reader tables compared", n_tab, 45)

    # ---- equality looks at every field: PartialEq derived (or absent)
    peq = {}
    for imp in F.impls:
        if imp.get("trait") == "core::cmp::PartialEq" and imp.get("self_adt") in types:
            peq[imp["self_adt"]] = imp
    for adt in types:
        if adt in peq:
            if peq[adt]["derived"]:
                chk.ok("equality", adt + ": PartialEq is derived (all fields)", nontrivial=False)
            else:
                chk.violation("equality", adt, "PartialEq of serde-enabled %s is hand-written: 'compares equal after the round trip' may ignore a field" % adt,
                              where=span_str(peq[adt]["span"]))

    # ---- closure: Serialize impls reached for field types
    ext = set()
    for i in F.instances:
        if i.get("full") and "_serde::Serialize for " in i["key"]:
            for k, c in F.callees(i):
                if c.get("method") == "serialize" and c.get("res") == "item":
                    rp = c.get("res_path") or ""
                    rk = c.get("res_krate")
                    if rk == "rand_distr":
                        continue
                    ext.add("%s (%s)" % (rp, rk))
                    if rk not in ("rand", "serde", "serde_core", "core", "alloc"):
                        chk.violation("closure", rp, "field serialised through %s in crate %s, outside the trusted set" % (rp, rk))
    chk.ok("closure", "field types serialise through crate-local paired impls or rand/serde/core/alloc impls",
           detail={"external_serialize_impls_used": sorted(ext)[:40]})
    chk.extra["serde_types"] = types
    not_enabled = sorted(p for p, a in F.adts.items() if a["pub"] and a["kind"] == "struct" and p not in types and "Error" not in p)
    chk.notes.append("public structs without serde support (outside the statement 'every type that implements Serialize/Deserialize'): %s" % not_enabled)
