"""C10 — WeightedTreeIndex samples proportionally: the structural clauses of the descent (DESIGN.md 5/C10, 11.7).

try_sample draws a target in [0, total) and walks down the implicit heap.  Sampling index i with probability w_i / total for *every*
tree means: at every node the interval [0, subtotal(node)) is cut into the pieces [left subtree | right subtree | the node itself]
(in some fixed order) and the target is passed on relative to the piece it falls in.  Decided, for every weight type:

  T1  the target is `rng.random_range(ZERO..total)` with total = the root subtotal (`subtotals.first()`), and an empty tree or a zero
      total returns InsufficientNonZero before any draw (the latter is C09's R6);
  T2  path-sensitive walk of the loop body (one iteration, every feasible path, drop flags followed): every comparison is
      `target' < subtotal(child)` with child in {2i+1, 2i+2} and target' = target minus exactly the subtotals of the children already
      compared on this path; a `true` outcome descends into *that* child (index := child) without further subtraction; the path on which
      every comparison is false subtracts both children and leaves the loop with the index unchanged; both children occur;
  T3  the comparisons are strict (`<`): with `<=` a node of weight 0 could be chosen for target 0 (never-zero-weight clause, integers);
  T4  the index returned in Ok(..) is the walked index.

Not decided: rounding of the float subtractions (the two assertions at the end of try_sample are C03's panic edges), and that the
stored subtotals are consistent with the weights (C09).
"""
CONFIGS_THOROUGH = ["serde"]
ALL_WEIGHTS_THOROUGH = True

from cfgrules import FnInfo
from facts import span_str
from mirutil import bool_branch_taken, dominators, successors
from symterm import Terms, affine, fmt, linear

TS = "weighted::weighted_tree::WeightedTreeIndex::<W>::try_sample"


def _ref_target(T, op):
    """The local a `&x` / `&mut x` operand points to (through one level of temporaries)."""
    if op.get("k") not in ("copy", "move") or op["p"]:
        return None
    d = T.body.single_def(op["l"])
    if d is None or d[2] == "call":
        return None
    rv = d[3]["rv"]
    if rv["k"] == "ref" and not rv["place"]["p"]:
        return rv["place"]["l"]
    return None


def _value_root(T, op, depth=0):
    """The local a by-value operand is a plain copy/move of."""
    if op.get("k") not in ("copy", "move") or op["p"] or depth > 6:
        return None
    d = T.body.single_def(op["l"])
    if d is None or d[2] == "call":
        return op["l"]
    rv = d[3]["rv"]
    if rv["k"] == "use" and rv["op"].get("k") in ("copy", "move") and not rv["op"]["p"]:
        return _value_root(T, rv["op"], depth + 1)
    return op["l"]


def _inlined_child_form(T, inst, local):
    """The body of `subtotal` written out at the use site: `local = if X < self.subtotals.len() { self.subtotals[X].clone() } else { ZERO }`.
    Accepted only in exactly that shape: two definitions, a clone of `subtotals[X]` whose block is dominated by the true edge of a test
    `X < len(subtotals)`, and the constant zero on the false edge of the same test.  Returns the affine form of X, else None."""
    ds = T.body.defs.get(local, [])
    if len(ds) != 2:
        return None
    reads = [d for d in ds if d[2] == "call"]
    zeros = [d for d in ds if d[2] == "assign"]
    if len(reads) != 1 or len(zeros) != 1:
        return None
    rd, zd = reads[0], zeros[0]
    rv = zd[3]["rv"]
    if rv["k"] != "use" or rv["op"].get("k") != "const":
        return None
    zt = T.of_operand(rv["op"])
    if not (isinstance(zt, tuple) and zt[0] == "const" and zt[1] == 0):
        return None
    fn = rd[3]["func"].get("fn", {})
    if (fn.get("method") or (fn.get("res_path") or "").rsplit("::", 1)[-1]) != "clone" or not rd[3]["args"]:
        return None
    at = T.of_operand(rd[3]["args"][0])
    if not (isinstance(at, tuple) and len(at) == 4 and at[0] == "call" and at[1] == "index"):
        return None
    a = affine(at[3])
    if a is None or a[3] != 1:
        return None
    lx = linear(at[3])
    if lx is None:
        return None
    blocks = inst["blocks"]
    dom, _ = dominators(blocks)
    for sb in dom.get(rd[0], ()):
        t = blocks[sb]["term"]
        if not t or t["k"] != "switch" or t["discr"].get("k") not in ("copy", "move") or t["discr"]["p"]:
            continue
        dd = T.body.single_def(t["discr"]["l"])
        if dd is None or dd[2] == "call":
            continue
        c = dd[3]["rv"]
        if c["k"] != "binop" or c["op"] != "Lt":
            continue
        la, lb = linear(T.of_operand(c["a"])), linear(T.of_operand(c["b"]))
        if la is None or lb is None or la != lx:
            continue
        vs, k0 = lb
        if k0 != 0 or len(vs) != 1 or not list(vs)[0].startswith("len(") or list(vs.values())[0] != 1:
            continue
        succ = successors(t)
        tr = [x for x in succ if bool_branch_taken(t, x)]
        fa = [x for x in succ if not bool_branch_taken(t, x)]
        if len(tr) == 1 and len(fa) == 1 and tr[0] in dom.get(rd[0], ()) and fa[0] in dom.get(zd[0], ()):
            return (a[0], int(a[1]), int(a[2]))
    return None


def child_form(T, inst, local):
    """If `local` holds subtotal(self, X) — as a call, or written out at the use site — the affine form (coef, const) of X in the walking index, else None."""
    d = T.body.single_def(local)
    if d is None:
        return _inlined_child_form(T, inst, local)
    if d[2] != "call":
        return None
    fn = d[3]["func"].get("fn", {})
    if not (fn.get("res_path") or "").endswith("WeightedTreeIndex::<W>::subtotal"):
        return None
    a = affine(T.of_operand(d[3]["args"][1]))
    if a is None or a[3] != 1:
        return None
    return (a[0], int(a[1]), int(a[2]))


def run(chk, F, tier):
    chk.trusted += ["rand's random_range(low..high) is uniform on [low, high)", "the subtotals satisfy subtotal(i) = w_i + subtotal(2i+1) + subtotal(2i+2) (decided structurally under C09)"]
    insts = [i for i in F.instances if i.get("full") and i["path"] == TS]
    chk.floor("instances of try_sample", len(insts), 3)
    nwalk = 0
    for inst in insts:
        w = F.types[inst["targs"][0]]["s"] if inst.get("targs") else "?"
        key = "try_sample<%s>" % w
        where = span_str(inst.get("span"))
        T = Terms(F, inst)
        fi = FnInfo(F, inst)
        blocks = inst["blocks"]
        if len(fi.loops) != 1:
            chk.violation("descent", key + ":shape", "%s: expected exactly one descent loop, found %d" % (key, len(fi.loops)), where=where)
            continue
        h, body, _ = fi.loops[0]
        # ---- the target: the local that is mutably borrowed for sub_assign inside the loop
        target = None
        for bi in range(len(blocks)):
            t = blocks[bi]["term"]
            if t and t["k"] == "call" and t["func"].get("fn", {}).get("method") == "sub_assign" and len(t["args"]) == 2 and target is None:
                target = _ref_target(T, t["args"][0])
        if target is None:
            chk.violation("descent", key + ":target", "%s: no `target -= subtotal` inside the descent loop" % key, where=where)
            continue
        # T1: where does the target come from?
        tdefs = [d for d in T.body.defs.get(target, []) if d[0] not in body]
        t1 = False
        desc = "?"
        for d in tdefs:
            if d[2] == "call" and d[3]["func"].get("fn", {}).get("method") == "random_range":
                rng_arg = d[3]["args"][1] if len(d[3]["args"]) > 1 else None
                dd = T.body.single_def(rng_arg["l"]) if rng_arg and rng_arg.get("k") in ("copy", "move") else None
                if dd is not None and dd[2] != "call" and dd[3]["rv"]["k"] == "aggregate" and len(dd[3]["rv"].get("ops", [])) == 2:
                    lo_, hi_ = dd[3]["rv"]["ops"]
                    lo_s = fmt(T.of_operand(lo_))
                    if lo_.get("k") == "const":
                        lo_s = "ZERO" if (lo_.get("uneval") or "").endswith("ZERO") or lo_s in ("0", "0.0", "-0.0") else lo_s
                    hi_t = fmt(T.of_operand(hi_))
                    desc = "random_range(%s .. %s)" % (lo_s.rsplit("::", 1)[-1] or lo_s, hi_t[:80])
                    hi_term = T.of_operand(hi_)
                    # the root subtotal: subtotals.first(), subtotal(0), subtotals[0] or the head of a slice pattern
                    root_total = "first(" in hi_t or (hi_term[0] == "call" and hi_term[1] == "subtotal" and len(hi_term) == 4 and hi_term[3] == ("const", 0)) \
                        or bool(__import__("re").search(r"\[0\]\)*$", hi_t.replace("clone(", "").replace("unwrap(", ""))) or hi_t.rstrip(")").endswith("[0]")
                    t1 = (lo_s.endswith("ZERO") or lo_s in ("0", "0.0")) and root_total
        if t1:
            chk.ok("target", key + ": target = " + desc, nontrivial=True)
        else:
            chk.violation("target", key, "%s: the target must be drawn as random_range(ZERO..root subtotal); found %s" % (key, desc), where=where)
        # T4: the returned index
        index = None
        for b in blocks:
            for s in b["stmts"]:
                if s["k"] == "assign" and s["place"]["l"] == 0 and s["rv"]["k"] == "aggregate" and s["rv"].get("variant_name") == "Ok" and s["rv"].get("ops"):
                    index = _value_root(T, s["rv"]["ops"][0])
        if index is None:
            chk.violation("descent", key + ":index", "%s: Ok(..) does not return a local index" % key, where=where)
            continue
        iname = T.var(index)[1]
        # ---- T2/T3: walk one iteration
        results = []       # (end kind, subtracted [(coef,const)], comparisons [(child, subtracted-before tuple, op, outcome)], index assignment or None)
        problems = []

        def walk(bi, seen, flags, subs, cmps, newidx):
            if len(results) > 400:
                return
            b = blocks[bi]
            flags = dict(flags)
            for s in b["stmts"]:
                if s["k"] != "assign" or s["place"]["p"]:
                    continue
                l, rv = s["place"]["l"], s["rv"]
                if rv["k"] == "use" and rv["op"].get("k") == "const" and rv["op"].get("bits") is not None and F.types[rv["op"]["ty"]]["k"] == "bool":
                    flags[l] = int(rv["op"]["bits"], 16)
                elif l in flags:
                    flags.pop(l)
                if l == index:
                    a = affine(T.of_operand(rv["op"])) if rv["k"] == "use" else None
                    newidx = (a[0], int(a[1]), int(a[2])) if a is not None and a[3] == 1 else ("?",)
            t = b["term"]
            outs = []
            if t["k"] == "call":
                m = t["func"].get("fn", {}).get("method")
                if m == "sub_assign" and len(t["args"]) == 2 and _ref_target(T, t["args"][0]) == target:
                    cf = child_form(T, inst, _value_root(T, t["args"][1]))
                    if cf is None:
                        problems.append("`target -= %s` subtracts something that is not a child subtotal" % fmt(T.of_operand(t["args"][1])))
                    subs = subs + [cf]
                if t.get("target") is not None:
                    outs = [(t["target"], None)]
            elif t["k"] == "switch":
                dl = t["discr"].get("l") if t["discr"].get("k") in ("copy", "move") and not t["discr"]["p"] else None
                if dl in flags:
                    for s_ in successors(t):
                        if bool_branch_taken(t, s_) == bool(flags[dl]):
                            outs.append((s_, None))
                else:
                    d = T.body.single_def(dl) if dl is not None else None
                    cmpinfo = None
                    if d is not None and d[2] == "call" and d[3]["func"].get("fn", {}).get("method") in ("lt", "le", "gt", "ge") and len(d[3]["args"]) == 2:
                        a0, a1 = _ref_target(T, d[3]["args"][0]), _ref_target(T, d[3]["args"][1])
                        op = d[3]["func"]["fn"]["method"]
                        if a0 == target:
                            cmpinfo = (op, child_form(T, inst, a1), False)
                        elif a1 == target:
                            cmpinfo = (op, child_form(T, inst, a0), True)
                    for s_ in successors(t):
                        outs.append((s_, (cmpinfo, bool_branch_taken(t, s_)) if cmpinfo else None))
            else:
                outs = [(s_, None) for s_ in successors(t)]
            for nxt, ci in outs:
                c2 = cmps
                if ci is not None:
                    (op, cf, swapped), taken = ci
                    # normalise to "target < child" true/false
                    if swapped:
                        op = {"lt": "gt", "le": "ge", "gt": "lt", "ge": "le"}[op]
                    less = taken if op in ("lt", "le") else not taken
                    strict = op in ("lt", "ge")
                    c2 = cmps + [(cf, tuple(subs), less, strict)]
                if nxt == h:
                    results.append(("continue", subs, c2, newidx))
                elif nxt not in body:
                    if nxt not in fi.diverging:
                        # `target -= right; break` places the last subtraction after the exit edge: follow the straight-line code up to the
                        # next comparison of the target (the final assertions) or the return
                        subs2, cur, fl2 = list(subs), nxt, dict(flags)
                        for _ in range(16):
                            bb = blocks[cur]
                            for s2 in bb["stmts"]:
                                if s2["k"] == "assign" and not s2["place"]["p"]:
                                    rv2 = s2["rv"]
                                    if rv2["k"] == "use" and rv2["op"].get("k") == "const" and rv2["op"].get("bits") is not None and F.types[rv2["op"]["ty"]]["k"] == "bool":
                                        fl2[s2["place"]["l"]] = int(rv2["op"]["bits"], 16)
                            t2 = bb["term"]
                            if t2["k"] == "call":
                                m2 = t2["func"].get("fn", {}).get("method")
                                if m2 in ("lt", "le", "gt", "ge"):
                                    break
                                if m2 == "sub_assign" and len(t2["args"]) == 2 and _ref_target(T, t2["args"][0]) == target:
                                    subs2.append(child_form(T, inst, _value_root(T, t2["args"][1])))
                                if t2.get("target") is None:
                                    break
                                cur = t2["target"]
                            elif t2["k"] in ("goto", "drop"):
                                cur = t2["target"]
                            elif t2["k"] == "switch" and t2["discr"].get("l") in fl2:
                                nx = [s_ for s_ in successors(t2) if bool_branch_taken(t2, s_) == bool(fl2[t2["discr"]["l"]])]
                                if not nx:
                                    break
                                cur = nx[0]
                            else:
                                break
                        results.append(("exit", subs2, c2, newidx))
                elif nxt not in seen:
                    walk(nxt, seen | {nxt}, flags, subs, c2, newidx)

        walk(h, {h}, {}, [], [], None)
        nwalk += 1
        children = {(iname, 2, 1), (iname, 2, 2)}
        seen_children = set()
        for kind, subs, cmps, newidx in results:
            pth = "%s path (%d comparison(s))" % (kind, len(cmps))
            for cf, before, less, strict in cmps:
                if cf is None or cf not in children:
                    problems.append("%s: the target is compared with something that is not subtotal(2*%s+1) / subtotal(2*%s+2)" % (pth, iname, iname))
                    continue
                seen_children.add(cf)
                if not strict:
                    problems.append("%s: comparison with subtotal(%d*%s+%d) is not strict (`<`): a zero-weight node can be selected for target 0" % (pth, cf[1], iname, cf[2]))
            falses = [cf for cf, before, less, strict in cmps if not less]
            trues = [cf for cf, before, less, strict in cmps if less]
            # the subtotals subtracted before each comparison = the children that compared false before it
            acc = []
            for cf, before, less, strict in cmps:
                if list(before) != acc:
                    problems.append("%s: at the comparison with child %s the target has had %s subtracted, expected %s (the children already ruled out)"
                                    % (pth, cf, list(before), acc))
                if not less:
                    acc = acc + [cf]
            if kind == "continue":
                if len(trues) != 1 or cmps[-1][2] is not True:
                    problems.append("%s: the loop continues without a child having been selected by the last comparison" % pth)
                else:
                    sel = trues[0]
                    if newidx != sel:
                        problems.append("%s: the target fell into child %s but the index becomes %s" % (pth, sel, newidx))
                    if list(subs) != falses:
                        problems.append("%s: subtracted %s, expected exactly the children ruled out before the selected one %s" % (pth, subs, falses))
            else:
                if trues:
                    problems.append("%s: the loop is left although the target fell into child %s" % (pth, trues[0]))
                if set(subs) != children or len(subs) != 2:
                    problems.append("%s: the node itself is selected after subtracting %s; both child subtotals must have been subtracted" % (pth, subs))
                if newidx is not None:
                    problems.append("%s: the index is changed (%s) on the path that selects the node itself" % (pth, newidx))
        if not results:
            problems.append("no path through one iteration of the descent loop was found")
        if seen_children != children and not problems:
            problems.append("only the children %s are ever tested" % sorted(seen_children))
        kinds = sorted({r[0] for r in results})
        if problems:
            chk.violation("descent", key, "%s: the descent does not cut [0, subtotal) into [left | right | self]: %s" % (key, problems[0]), where=where)
        else:
            chk.ok("descent", "%s: %d iteration paths (%s); every comparison is target' < subtotal(child) with exactly the ruled-out children subtracted; strict; index follows"
                   % (key, len(results), "/".join(kinds)), nontrivial=True)
    chk.floor("descent loops walked", nwalk, 3)
    # the error clause of the property (shared with C09 R6): InsufficientNonZero exactly for an empty tree or a zero total
    import rules_c09
    from axioms import Axioms
    n6 = rules_c09.try_sample_error_clause(chk, F, Axioms(F), rule="error-clause")
    chk.floor("error-clause cases", n6, 15)
