"""C06 — ziggurat tables and wiring.

Part 1 (complete): the 4 x 257 table entries and the tail constants, as evaluated by the compiler, satisfy the
ziggurat equations.  Part 2: the two call sites of `ziggurat` are wired to a consistent (X, F) pair, the right
symmetry flag, a pdf that is the family's density (polynomial-exponent domain) and a tail routine that uses this
family's tail start.  Part 3 (inside `ziggurat`) lives in rules_c06_alg.py (value-numbering rules).
"""
CONFIGS_THOROUGH = ["serde", "release"]

import math
from fractions import Fraction

from facts import span_str
from mirutil import Body, const_value, f64_from_bits

TOL_F = 1e-14      # |F[i] - f(X[i])|
TOL_AREA = 1e-8    # relative, layer areas


def fam_pdf(fam, x):
    return math.exp(-x * x / 2.0) if fam == "normal" else math.exp(-x)


def fam_tail(fam, r):
    if fam == "normal":
        return math.sqrt(math.pi / 2.0) * math.erfc(r / math.sqrt(2.0))
    return math.exp(-r)


def classify(X, Fv):
    """Which density does the (X, F) pair tabulate?  Derived from the values, not from names."""
    for fam in ("normal", "exp"):
        if all(abs(Fv[i] - fam_pdf(fam, X[i])) <= 1e-9 for i in (1, 7, 64, 128, 200, 255)):
            return fam
    return None


def table_rules(chk, F):
    tabs = {}
    for path, s in F.statics.items():
        if "float_bits" in s and s.get("float_width") == 8:
            tabs[path] = [f64_from_bits(b) for b in s["float_bits"]]
    chk.floor("f64 table statics", len(tabs), 4)
    # pair X with F: X is decreasing to 0, F increasing to 1
    xs = {p: v for p, v in tabs.items() if len(v) > 2 and v[0] > v[-1]}
    fs = {p: v for p, v in tabs.items() if len(v) > 2 and v[0] < v[-1]}
    pairs = {}
    for xp, X in xs.items():
        for fp, Fv in fs.items():
            if len(X) == len(Fv):
                fam = classify(X, Fv)
                if fam:
                    pairs[fam] = (xp, fp)
    for fam in ("normal", "exp"):
        if fam not in pairs:
            chk.violation("tables", "pairing:" + fam, "no (abscissa, density) table pair tabulates the %s density: a table is corrupted "
                          "beyond recognition or missing" % fam)
    info = {}
    for fam, (xp, fp) in sorted(pairs.items()):
        X, Fv = tabs[xp], tabs[fp]
        sp = span_str(F.statics[xp]["span"])
        n = len(X)
        if n != 257:
            chk.violation("tables", "%s:len" % xp, "table %s has %d entries, the algorithm indexes 0..=256" % (xp, n), where=sp)
            continue
        else:
            chk.ok("tables", "%s,%s:len==257" % (xp, fp), nontrivial=False)
        # monotonicity + end points
        bad = [i for i in range(256) if not X[i] > X[i + 1]]
        if bad:
            chk.violation("tables", "%s:monotone" % xp, "%s is not strictly decreasing at index %s" % (xp, bad[:4]), where=sp)
        else:
            chk.ok("tables", "%s:strictly decreasing (256 steps)" % xp)
        bad = [i for i in range(256) if not Fv[i] < Fv[i + 1]]
        if bad:
            chk.violation("tables", "%s:monotone" % fp, "%s is not strictly increasing at index %s" % (fp, bad[:4]), where=span_str(F.statics[fp]["span"]))
        else:
            chk.ok("tables", "%s:strictly increasing (256 steps)" % fp)
        if X[256] != 0.0 or Fv[256] != 1.0:
            chk.violation("tables", "%s:endpoints" % xp, "end points X[256]=%r F[256]=%r, expected 0 and 1" % (X[256], Fv[256]), where=sp)
        else:
            chk.ok("tables", "%s,%s:end points X[256]=0 F[256]=1" % (xp, fp), nontrivial=False)
        # F[i] = f(X[i])
        worst = 0.0
        nbad = 0
        for i in range(257):
            e = abs(Fv[i] - fam_pdf(fam, X[i]))
            worst = max(worst, e)
            if e > TOL_F:
                nbad += 1
                if nbad <= 3:
                    chk.violation("tables", "%s[%d]:density" % (fp, i), "%s[%d]=%r differs from f(%s[%d])=%r by %.3g > %g"
                                  % (fp, i, Fv[i], xp, i, fam_pdf(fam, X[i]), e, TOL_F), where=span_str(F.statics[fp]["span"]))
            else:
                chk.obligations += 1
                chk.discharged += 1
                chk.evaluations += 1
        chk.nontrivial.add("tables|%s density entries" % fp)
        # equal areas
        R = X[1]
        v = R * fam_pdf(fam, R) + fam_tail(fam, R)
        worst_a = abs(X[0] * fam_pdf(fam, R) - v) / v
        if worst_a > TOL_AREA:
            chk.violation("tables", "%s[0]:base" % xp, "base strip: X[0]*f(R)=%r but R*f(R)+tail(R)=%r (rel %.3g)"
                          % (X[0] * fam_pdf(fam, R), v, worst_a), where=sp)
        else:
            chk.ok("tables", "%s[0]:base strip area == R f(R) + tail(R)" % xp, detail={"rel_err": worst_a})
        nbad = 0
        for i in range(1, 256):
            a = X[i] * (fam_pdf(fam, X[i + 1]) - fam_pdf(fam, X[i]))
            e = abs(a - v) / v
            worst_a = max(worst_a, e)
            if e > TOL_AREA:
                nbad += 1
                if nbad <= 3:
                    chk.violation("tables", "%s[%d]:area" % (xp, i), "layer %d has area %r, all layers must have area v=%r (rel err %.3g > %g): "
                                  "entry %d or %d of %s is wrong" % (i, a, v, e, TOL_AREA, i, i + 1, xp), where=sp)
            else:
                chk.obligations += 1
                chk.discharged += 1
                chk.evaluations += 1
        chk.nontrivial.add("tables|%s layer areas" % xp)
        info[fam] = {"x": xp, "f": fp, "R": R, "v": v, "max_density_err": worst, "max_area_rel_err": worst_a}
        chk.samples.append({"rule": "tables", "family": fam, "X": xp, "F": fp, "R=X[1]": R, "layer_area_v": v,
                            "max|F[i]-f(X[i])|": worst, "max_rel_area_err": worst_a, "entries_checked": 2 * 257})
    chk.extra["tables"] = info
    return pairs, tabs, info


class Poly:
    """exp(P(x)) or P(x) with P a polynomial over Q — the value domain for the density routine."""

    def __init__(self, coeffs, is_exp=False):
        c = list(coeffs)
        while c and c[-1] == 0:
            c.pop()
        self.c = c
        self.is_exp = is_exp

    def __eq__(self, o):
        return isinstance(o, Poly) and self.c == o.c and self.is_exp == o.is_exp

    def __repr__(self):
        s = " + ".join("%s*x^%d" % (c, i) for i, c in enumerate(self.c) if c != 0) or "0"
        return "exp(%s)" % s if self.is_exp else s


def poly_eval_fn(F, inst):
    """Abstractly evaluate a straight-line float function of one argument in the Poly domain; None if it leaves it."""
    body = Body(F, inst)
    if inst["arg_count"] != 1:
        return None
    env = {1: Poly([0, 1])}

    def ev(op):
        if op["k"] == "const":
            v = const_value(F, op)
            if isinstance(v, float):
                return Poly([Fraction(v)])
            return None
        if op["p"]:
            return None
        return env.get(op["l"])

    def binop(o, a, b):
        if a is None or b is None or a.is_exp or b.is_exp:
            return None
        if o in ("Add", "Sub"):
            n = max(len(a.c), len(b.c))
            ac = a.c + [0] * (n - len(a.c))
            bc = b.c + [0] * (n - len(b.c))
            return Poly([x + y if o == "Add" else x - y for x, y in zip(ac, bc)])
        if o == "Mul":
            r = [Fraction(0)] * (len(a.c) + len(b.c))
            for i, x in enumerate(a.c):
                for j, y in enumerate(b.c):
                    r[i + j] += x * y
            return Poly(r)
        if o == "Div":
            if len(b.c) == 1 and b.c[0] != 0:
                return Poly([x / b.c[0] for x in a.c])
        return None

    bi = 0
    steps = 0
    while steps < 64:
        steps += 1
        b = inst["blocks"][bi]
        for s in b["stmts"]:
            if s["k"] != "assign" or s["place"]["p"]:
                return None
            rv = s["rv"]
            if rv["k"] == "use":
                val = ev(rv["op"])
            elif rv["k"] == "binop":
                val = binop(rv["op"], ev(rv["a"]), ev(rv["b"]))
            elif rv["k"] == "unop" and rv["op"] == "Neg":
                a = ev(rv["a"])
                val = None if a is None or a.is_exp else Poly([-x for x in a.c])
            else:
                val = None
            if val is None:
                return None
            env[s["place"]["l"]] = val
        t = b["term"]
        if t["k"] == "return":
            return env.get(0)
        if t["k"] == "goto":
            bi = t["target"]
            continue
        if t["k"] == "call":
            fn = t["func"].get("fn", {})
            name = fn.get("res_path") or fn.get("path") or ""
            args = [ev(a) for a in t["args"]]
            if name.endswith("::exp") and len(args) == 1 and args[0] is not None and not args[0].is_exp:
                val = Poly(args[0].c, is_exp=True)
            elif name.endswith("::neg") and len(args) == 1 and args[0] is not None and not args[0].is_exp:
                val = Poly([-x for x in args[0].c])
            elif name.split("::")[-1] in ("mul", "add", "sub", "div") and len(args) == 2:
                val = binop(name.split("::")[-1].capitalize(), args[0], args[1])
            else:
                return None
            if val is None or t["dest"]["p"] or t.get("target") is None:
                return None
            env[t["dest"]["l"]] = val
            bi = t["target"]
            continue
        return None
    return None


FAM_DENSITY = {"normal": Poly([0, 0, Fraction(-1, 2)], is_exp=True), "exp": Poly([0, Fraction(-1)], is_exp=True)}


def wiring_rules(chk, F, pairs, tabs, info):
    sites = []
    for inst in F.local_full():
        body = None
        for bi, t in ((bi, b["term"]) for bi, b in enumerate(inst["blocks"])):
            if t and t["k"] == "call" and (t["func"].get("fn", {}).get("res_path") == "utils::ziggurat"):
                body = body or Body(F, inst)
                sites.append((inst, body, t))
    # distinct source call sites (an instance per R is one site)
    distinct = {}
    for inst, body, t in sites:
        distinct.setdefault(inst["path"], (inst, body, t))
    chk.floor("call sites of utils::ziggurat", len(distinct), 2)
    xfam = {v[0]: k for k, v in pairs.items()}
    ffam = {v[1]: k for k, v in pairs.items()}
    seen_fams = set()
    for path, (inst, body, t) in sorted(distinct.items()):
        where = span_str(t["span"])
        a = t["args"]
        if len(a) != 6:
            chk.violation("wiring", path + ":arity", "ziggurat called with %d arguments, the rules know 6 (rng, symmetric, x_tab, f_tab, pdf, zero_case)" % len(a), where=where)
            continue
        sym = body.trace(a[1])
        xt = body.trace(a[2])
        ft = body.trace(a[3])
        pdf = body.trace(a[4])
        zc = body.trace(a[5])
        xs = xt[1].get("static") if xt and xt[0] == "const" else None
        fs = ft[1].get("static") if ft and ft[0] == "const" else None
        if xs is None or fs is None:
            chk.violation("wiring", path + ":tables", "table arguments of the ziggurat call are not references to statics (cannot identify them)", where=where)
            continue
        fx, ff = xfam.get(xs), ffam.get(fs)
        if fx is None or ff is None or fx != ff:
            chk.violation("wiring", path + ":pair", "x_tab=%s (%s) and f_tab=%s (%s) are not the abscissa/density pair of one family "
                          "(swapped or mixed tables)" % (xs, "abscissae of " + fx if fx else "not an abscissa table",
                                                         fs, "densities of " + ff if ff else "not a density table"), where=where)
            continue
        fam = fx
        seen_fams.add(fam)
        chk.ok("wiring", path + ":tables are the (X,F) pair of the %s family" % fam)
        symv = const_value(F, sym[1]) if sym and sym[0] == "const" else None
        if symv is None:
            chk.violation("wiring", path + ":symmetric", "`symmetric` is not a compile-time constant at this call", where=where)
        elif bool(symv) != (fam == "normal"):
            chk.violation("wiring", path + ":symmetric", "`symmetric`=%s but the tables tabulate the %s density (%s)"
                          % (bool(symv), fam, "two-sided" if fam == "normal" else "one-sided"), where=where)
        else:
            chk.ok("wiring", path + ":symmetric flag == (family is normal)")
        # pdf
        pk = pdf[1].get("fn", {}).get("key") if pdf and pdf[0] == "const" else None
        pinst = F.by_key.get(pk) if pk else None
        if not pinst or not pinst.get("full"):
            chk.violation("wiring", path + ":pdf", "the pdf argument is not a crate-local function item", where=where)
        else:
            val = poly_eval_fn(F, pinst)
            if val is None:
                chk.violation("wiring", path + ":pdf", "the density routine %s left the exp(polynomial) domain: cannot show it is the %s density "
                              "(was proved on the reference tree)" % (pk, fam), where=span_str(pinst.get("span")))
            elif val != FAM_DENSITY[fam]:
                chk.violation("wiring", path + ":pdf", "the density routine computes %r, the tables tabulate %r" % (val, FAM_DENSITY[fam]),
                              where=span_str(pinst.get("span")))
            else:
                chk.ok("wiring", path + ":pdf computes %r over the reals" % (val,))
        # zero_case: tail constants
        zk = zc[1].get("fn", {}).get("key") if zc and zc[0] == "const" else None
        zinst = F.by_key.get(zk) if zk else None
        if not zinst or not zinst.get("full"):
            chk.violation("wiring", path + ":tail", "the zero_case argument is not a crate-local function item", where=where)
        else:
            R = info[fam]["R"]
            zb = Body(F, zinst)
            cs = [(v, sp) for v, sp in zb.float_consts() if v is not None and abs(v) not in (0.0, 0.5, 1.0, 2.0)]
            if not cs:
                chk.violation("wiring", path + ":tail", "the tail routine %s uses no tail-start constant" % zk, where=span_str(zinst.get("span")))
            bad = [(v, sp) for v, sp in cs if abs(v - R) > 1e-9 * R]
            if bad:
                v, sp = bad[0]
                chk.violation("wiring", path + ":tail", "the tail routine uses the constant %r but this family's tail starts at X[1]=%r" % (v, R),
                              where=span_str(sp))
            elif cs:
                chk.ok("wiring", path + ":tail routine uses R == X[1] (%d uses)" % len(cs), detail={"R": R})
    for fam in ("normal", "exp"):
        if fam in pairs and fam not in seen_fams:
            chk.violation("wiring", "unused:" + fam, "no ziggurat call site uses the %s tables" % fam)


def run(chk, F, tier):
    chk.trusted += ["IEEE double arithmetic of CPython's math.exp/erfc (errors ~1e-16, tolerances 1e-14 / 1e-8)",
                    "rustc's constant evaluation of the static initialisers (the exact f64 values that run)"]
    pairs, tabs, info = table_rules(chk, F)
    wiring_rules(chk, F, pairs, tabs, info)
    try:
        import rules_c06_alg
    except ImportError:
        rules_c06_alg = None
    if rules_c06_alg:
        rules_c06_alg.run(chk, F, tier, pairs, tabs, info)
