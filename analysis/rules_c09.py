"""C09 — WeightedTreeIndex stays consistent under updates: the structural clauses (DESIGN.md 5/C09).

  R1  errors leave the structure unchanged: (CFG) no mutable reborrow of *self is created on any path to a block that returns
      Err; (abstract interpretation) whenever push/update/new decidedly return Err, the abstract tree equals the input tree;
  R2  overflow is reported, not panicked: every function that unwraps a checked_add_assign on the tree's storage first performs
      the same addition on a clone of the root total and returns Err(Overflow) when it fails, before any unwrap;
  R3  the weight predicate: NaN and negative weights -> InvalidWeight; -0, +0, positive, +inf accepted (never InvalidWeight);
      Overflow only for integer weights whose total leaves the range (decided on interval cases);
  R4  index maps: the parent map of all five ancestor walks (new, push, pop, update x2) is floor((i-1)/2), the child maps of
      get and try_sample are 2i+1 and 2i+2, they are mutually inverse, and inside each walk the write uses the *stepped* index;
  R6  try_sample returns InsufficientNonZero exactly when the tree is empty or the total is zero (the shape-visible clause of C10).
Not decided: equality with a fresh build after arbitrary histories (inductive invariant over histories).
"""
CONFIGS_THOROUGH = ["serde"]
ALL_WEIGHTS_THOROUGH = True

from fractions import Fraction

import rules_c04
import values as V
from absint import Interp, En, St, Rf, Vc, Top, usize
from axioms import Axioms
from cfgrules import FnInfo, op_locals
from facts import span_str
from mirutil import reachable_blocks, successors, bool_branch_taken
from symterm import Terms, affine, fmt, root_local, linear, lin_sub
from values import Fl, In

TREE = "weighted::weighted_tree::WeightedTreeIndex::<W>::"


def insts_of(F, path):
    return [i for i in F.instances if i.get("full") and i["path"] == path]


def wname(F, inst):
    ts = [F.types[t]["s"] for t in inst.get("targs", [])]
    return ts[0] if ts else "?"


def weight_cells(F, w):
    t = next((t for t in F.types if t["s"] == w and t["k"] in ("int", "float")), None)
    if t is None:
        return []
    if t["k"] == "float":
        return [("nan", Fl(nan=True), "bad"), ("-inf", Fl(ninf=True), "bad"), ("neg", Fl.rng(V.NINF, False, 0, False), "bad"),
                ("-0", Fl(nz=True), "ok"), ("+0", Fl.point(0), "ok"), ("pos", Fl.rng(0, False, 10, False), "ok"), ("+inf", Fl(pinf=True), "ok")]
    full = In.of_type(t["bits"], t["signed"])
    cells = [("0", In(0, 0, t["bits"], t["signed"]), "ok"), ("small", In(1, 10, t["bits"], t["signed"]), "ok"),
             ("max", In(full.hi, full.hi, t["bits"], t["signed"]), "ok")]
    if t["signed"]:
        cells += [("neg", In(full.lo, -1, t["bits"], True), "bad")]
    return cells


def small_elem(F, w):
    t = next(t for t in F.types if t["s"] == w and t["k"] in ("int", "float"))
    return Fl.rng(0, False, 5, False) if t["k"] == "float" else In(1, 5, t["bits"], t["signed"])


def run_method(F, ax, inst, tree, args):
    ip = Interp(F, ax)
    st = {(0, 1): tree}
    rv, st2 = ip.run_root(inst, [Rf((0, 1, ()), None, True)] + args, st)
    outs = rules_c04.outcome_names(F, rv) if st2 is not None else {"diverges"}
    return outs, (st2.get((0, 1)) if st2 else None), ip


# ------------------------------------------------------------------------------------------------ R1 (CFG part)
def mutation_blocks(F, inst):
    """Blocks that create a mutable reborrow through the `self` parameter (local _1 of type &mut Self)."""
    out = {}
    t1 = F.types[inst["locals"][1]["ty"]]
    if not (t1["k"] == "ref" and t1["mut"]):
        return out
    for bi, b in enumerate(inst["blocks"]):
        for si, s in enumerate(b["stmts"]):
            if s["k"] == "assign":
                rv = s["rv"]
                if rv["k"] == "ref" and rv["bk"] == "mut" and rv["place"]["l"] == 1 and rv["place"]["p"] and rv["place"]["p"][0]["k"] == "deref":
                    out.setdefault(bi, s.get("span"))
                pl = s["place"]
                if pl["l"] == 1 and pl["p"] and pl["p"][0]["k"] == "deref":
                    out.setdefault(bi, s.get("span"))
        t = b["term"]
        if t and t["k"] == "call":
            for a in t["args"]:
                if a.get("k") == "move" and a.get("l") == 1 and not a["p"]:
                    out.setdefault(bi, t.get("span"))      # `self` itself handed on as &mut
    return out


def err_blocks(inst):
    out = []
    for bi, b in enumerate(inst["blocks"]):
        for s in b["stmts"]:
            if s["k"] == "assign" and s["place"]["l"] == 0 and not s["place"]["p"] and s["rv"]["k"] == "aggregate" and s["rv"].get("variant_name") == "Err":
                out.append((bi, s.get("span")))
        t = b["term"]
        if t and t["k"] == "call" and t["dest"]["l"] == 0 and (t["func"].get("fn", {}).get("method") == "from_residual"):
            out.append((bi, t.get("span")))
    return out


def reach_from(blocks, start):
    seen = set()
    st = list(successors(blocks[start]["term"]))
    while st:
        b = st.pop()
        if b in seen:
            continue
        seen.add(b)
        st.extend(successors(blocks[b]["term"]))
    return seen


def run(chk, F, tier):
    chk.trusted += ["rand's Weight::checked_add_assign: Err(()) iff the sum leaves the range, and then the target is unchanged; Vec push/pop/index contracts",
                    "borrow checker: a shared reborrow of *self cannot be written through"]
    ax = Axioms(F)
    n_r1 = n_r2 = n_r3 = n_r4 = n_r6 = 0
    # ---------------------------------------------------------------- R1 CFG + R2
    for meth in ("push", "update"):
        insts = insts_of(F, TREE + meth)
        chk.floor("instances of %s" % meth, len(insts), 3)
        for inst in insts:
            w = wname(F, inst)
            key = "%s<%s>" % (meth, w)
            muts = mutation_blocks(F, inst)
            errs = err_blocks(inst)
            if not errs or not muts:
                chk.violation("noeffect", key + ":anchor", "%s: found %d Err-returning and %d mutating blocks (rule anchored on both)" % (key, len(errs), len(muts)))
                continue
            bad = None
            for m, msp in muts.items():
                r = reach_from(inst["blocks"], m)
                for e, esp in errs:
                    if e in r:
                        bad = (m, msp, e, esp)
            n_r1 += 1
            if bad:
                chk.violation("noeffect", key, "%s can return Err after the tree was already borrowed mutably (%s, then Err at %s): an operation that reports "
                              "an error must leave the structure unchanged" % (key, span_str(bad[1]), span_str(bad[3])), where=span_str(bad[1]))
            else:
                chk.ok("noeffect", key + ": no path from a mutable reborrow of *self to an Err return", detail={"mutating_blocks": len(muts), "err_blocks": len(errs)})
            # ---- R2
            fi = FnInfo(F, inst)
            pre, unw = [], []
            for bi, b in enumerate(inst["blocks"]):
                t = b["term"]
                if not t or t["k"] != "call":
                    continue
                fn = t["func"].get("fn", {})
                if fn.get("method") == "checked_add_assign":
                    tgt = set()
                    for x in op_locals(t["args"][0]):
                        tgt |= fi.referents(x)
                    # is the target a plain local (clone) or storage reached through self / an index_mut result?
                    on_self = any(fi.is_ref(x) or x == 1 for x in tgt) or any(_from_index_mut(fi, x) for x in op_locals(t["args"][0]))
                    addend = set()
                    for x in op_locals(t["args"][1]):
                        addend |= fi.referents(x)
                    (unw if on_self else pre).append((bi, frozenset(addend), t.get("span")))
            n_r2 += 1
            if not unw:
                chk.violation("precheck", key + ":anchor", "%s: no checked_add_assign on the tree's storage found (anchor lost)" % key)
                continue
            if not pre:
                chk.violation("precheck", key, "%s adds to the tree's subtotals with `.unwrap()` but never tests the addition on a clone of the total first: "
                              "an overflowing weight panics instead of returning Err(Overflow)" % key, where=span_str(unw[0][2]))
                continue
            ok = True
            for ub, uadd, usp in unw:
                cands = [p for p in pre if ub in reach_from(inst["blocks"], p[0]) and p[0] not in reach_from(inst["blocks"], ub)]
                if not cands:
                    ok = False
                    chk.violation("precheck", key + ":order", "%s: a storage update at %s is not preceded by the overflow pre-check" % (key, span_str(usp)), where=span_str(usp))
                elif not any(c[1] & uadd for c in cands):
                    ok = False
                    chk.violation("precheck", key + ":addend", "%s: the overflow pre-check tests a different addend than the one added to the subtotals at %s"
                                  % (key, span_str(usp)), where=span_str(usp))
            # the failing pre-check must lead to an Err return
            errset = {e for e, _ in errs}
            if ok and not any(errset & reach_from(inst["blocks"], p[0]) for p in pre):
                ok = False
                chk.violation("precheck", key + ":noerr", "%s: the pre-check result never leads to an Err return" % key)
            if ok:
                chk.ok("precheck", key + ": every storage addition is preceded by the same addition on a clone of the total", detail={"pre_checks": len(pre), "storage_adds": len(unw)})
    # ---------------------------------------------------------------- R1 semantic + R3 (E2)
    for meth, mk_args in (("push", lambda c, w: [c]), ("update", lambda c, w: [usize(0, 2), c])):
        for inst in insts_of(F, TREE + meth):
            w = wname(F, inst)
            for cname, cell, cls in weight_cells(F, w):
                for tl, (lo, hi) in (("empty", (0, 0)), ("len3", (3, 3))):
                    if meth == "update" and lo == 0:
                        continue
                    tree = St(None, [Vc(small_elem(F, w), usize(lo, hi))])
                    outs, after, ip = run_method(F, ax, inst, tree, mk_args(cell, w))
                    key = "%s<%s>(%s) on %s tree" % (meth, w, cname, tl)
                    n_r3 += 1
                    real = outs - {"panic"}
                    if cls == "bad":
                        if real != {"InvalidWeight"}:
                            chk.violation("predicate", key, "%s returns %s; a %s weight must be rejected with InvalidWeight" % (key, sorted(outs), cname))
                        elif after != tree:
                            chk.violation("noeffect", key + ":state", "%s returned InvalidWeight but the tree changed: %r -> %r" % (key, tree, after))
                        else:
                            chk.ok("predicate", key + " -> InvalidWeight, tree unchanged")
                    else:
                        if "InvalidWeight" in real:
                            chk.violation("predicate", key, "%s may return InvalidWeight for a valid weight (%s)" % (key, cname))
                        elif real == {"Overflow"} and after != tree:
                            chk.violation("noeffect", key + ":state", "%s returned Overflow but the tree changed: %r -> %r" % (key, tree, after))
                        elif cname == "max" and lo > 0 and "Overflow" not in real:
                            chk.violation("predicate", key + ":overflow", "%s: adding the type's maximum to a non-empty positive tree must report Overflow, got %s" % (key, sorted(outs)))
                        else:
                            chk.ok("predicate", key + " -> %s" % "/".join(sorted(real)))
    for inst in insts_of(F, TREE + "new"):
        w = wname(F, inst)
        for cname, cell, cls in weight_cells(F, w):
            for ln in ((0, 0), (1, 1), (3, 3)):
                if ln[0] == 0 and cname != "0" and cname != "+0":
                    continue
                ip = Interp(F, ax)
                rv, st = ip.run_root(inst, [Vc(cell, usize(*ln))])
                outs = rules_c04.outcome_names(F, rv) if st is not None else {"diverges"}
                real = outs - {"panic"}
                key = "new<%s>([%s; %d])" % (w, cname, ln[0])
                n_r3 += 1
                if ln[0] == 0:
                    ok = real == {"Ok"}
                elif cls == "bad":
                    ok = real == {"InvalidWeight"}
                elif cname == "max" and ln[0] >= 3:
                    ok = real == {"Overflow"}
                else:
                    ok = "InvalidWeight" not in real and real <= {"Ok", "Overflow"} and ("Ok" in real)
                if ok:
                    chk.ok("predicate", key + " -> " + "/".join(sorted(real)))
                else:
                    chk.violation("predicate", key, "%s returns %s, which contradicts the documented error cases" % (key, sorted(outs)))
    chk.floor("weight-predicate cases (push/update/new x weight types x cells)", n_r3, 60)
    # ---------------------------------------------------------------- R4 index maps
    parents, children = [], []
    for meth in ("new", "push", "pop::{closure#0}", "update"):
        for inst in insts_of(F, TREE + meth):
            T = Terms(F, inst)
            fi = FnInfo(F, inst)
            w = wname(F, inst)
            divs = []
            loop_blocks = set()
            for h, body, _ in fi.loops:
                loop_blocks |= body
            for bi, b in enumerate(inst["blocks"]):
                for s in b["stmts"]:
                    if s["k"] == "assign" and s["rv"]["k"] == "binop" and s["rv"]["op"] == "Div":
                        t = ("div", T.of_operand(s["rv"]["a"]), T.of_operand(s["rv"]["b"]))
                        divs.append((t, s.get("span")))
            key = "%s<%s>" % (meth.split("::")[0], w)
            if not divs:
                chk.violation("index-map", key + ":anchor", "%s: no parent-index computation found" % key)
                continue
            for t, sp in divs:
                a = affine(t)
                n_r4 += 1
                if a is None or (a[1], a[2], a[3]) != (1, -1, 2):
                    chk.violation("index-map", key + ":parent", "%s computes the parent index as %s; all ancestor walks must use (i - 1) / 2" % (key, fmt(t)), where=span_str(sp))
                else:
                    parents.append(a)
                    chk.ok("index-map", "%s parent = (%s - 1) / 2" % (key, a[0]), nontrivial=len(parents) <= 8)
            # inside a walk loop the subtotal written is the one at the *stepped* index: the step `v = (v - 1) / 2` must come
            # before (dominate) the write `subtotals[v]` in the loop body
            for h, body, _ in fi.loops:
                steps = []      # (block, local) where a loop-carried local is assigned from a parent computation
                for bi in sorted(body):
                    for s_ in inst["blocks"][bi]["stmts"]:
                        if s_["k"] == "assign" and not s_["place"]["p"] and len(T.body.defs.get(s_["place"]["l"], [])) > 1:
                            tm = T.of_operand(s_["rv"]["op"]) if s_["rv"]["k"] == "use" else (
                                ("div", T.of_operand(s_["rv"]["a"]), T.of_operand(s_["rv"]["b"])) if s_["rv"]["k"] == "binop" and s_["rv"]["op"] == "Div" else None)
                            if tm is not None and tm[0] == "div":
                                steps.append((bi, s_["place"]["l"]))
                # a walk that steps a loop-carried index must run until that index is 0 (the root is the last node written):
                # the loop's own exit test has to compare the walking variable with the constant 0
                if steps:
                    walk_locals = {sl for _, sl in steps}
                    exit_ok = False
                    for (src, dst) in fi.loop_exits(body):
                        tsw = inst["blocks"][src]["term"]
                        if tsw["k"] != "switch":
                            continue
                        for s_ in inst["blocks"][src]["stmts"]:
                            if s_["k"] == "assign" and s_["rv"]["k"] == "binop" and s_["rv"]["op"] in ("Ne", "Eq"):
                                ops = (s_["rv"]["a"], s_["rv"]["b"])
                                consts = [o for o in ops if o.get("k") == "const" and o.get("bits") is not None and int(o["bits"], 16) == 0]
                                roots = {root_local(T, o) for o in ops if o.get("k") in ("copy", "move")}
                                if consts and roots & walk_locals:
                                    exit_ok = True
                            # the walking index is a `usize` (it indexes the Vec), so `index > 0`, `0 < index`, `index >= 1`, `1 <= index`
                            # are the same test as `index != 0`
                            if s_["k"] == "assign" and s_["rv"]["k"] == "binop" and s_["rv"]["op"] in ("Gt", "Lt", "Ge", "Le"):
                                op_ = s_["rv"]["op"]
                                va, cb = (s_["rv"]["a"], s_["rv"]["b"]) if op_ in ("Gt", "Ge") else (s_["rv"]["b"], s_["rv"]["a"])
                                want = 0 if op_ in ("Gt", "Lt") else 1
                                if va.get("k") in ("copy", "move") and cb.get("k") == "const" and cb.get("bits") is not None \
                                        and int(cb["bits"], 16) == want and root_local(T, va) in walk_locals:
                                    exit_ok = True
                    n_r4 += 1
                    if exit_ok:
                        chk.ok("index-map", "%s walk runs until the walking index is 0" % key, nontrivial=False)
                    else:
                        chk.violation("index-map", key + ":walk-exit", "%s: the ancestor walk does not run `while index != 0`; with any other bound (a precomputed depth, a range) "
                                      "the root or an ancestor can be skipped for some tree shapes" % key, where=span_str(inst["blocks"][h]["term"].get("span")))
                for bi in sorted(body):
                    t = inst["blocks"][bi]["term"]
                    if t and t["k"] == "call" and (t["func"].get("fn", {}).get("trait") or "").endswith("IndexMut"):
                        n_r4 += 1
                        rl = root_local(T, t["args"][1])
                        it = T.of_operand(t["args"][1])
                        a = affine(it)
                        if a is not None and (a[1], a[2], a[3]) == (1, -1, 2):
                            chk.ok("index-map", "%s walk writes subtotals[(%s - 1) / 2]" % (key, a[0]), nontrivial=False)
                            continue
                        st_ = [sb for sb, sl in steps if sl == rl]
                        if st_ and all(sb in fi.dom[bi] for sb in st_):
                            chk.ok("index-map", "%s walk: the step of `%s` dominates the write subtotals[%s]" % (key, fmt(it), fmt(it)), nontrivial=False)
                        else:
                            chk.violation("index-map", key + ":walk", "%s: inside the ancestor walk the subtotal at index `%s` is written before the index is stepped to the parent "
                                          "(a node is updated twice and the root never)" % (key, fmt(it)), where=span_str(t.get("span")))
    for meth in ("get", "try_sample"):
        for inst in insts_of(F, TREE + meth):
            T = Terms(F, inst)
            w = wname(F, inst)
            forms = set()
            for bi, b in enumerate(inst["blocks"]):
                t = b["term"]
                if t and t["k"] == "call" and (_is_subtotal_call(t) or _is_index_call(t)):
                    a = affine(T.of_operand(t["args"][1]))
                    if _is_index_call(t) and (a is None or a[1] == 0 or (a[1], a[2], a[3]) == (1, 0, 1)):
                        # a direct `self.subtotals[..]` read of the node itself, of a fixed slot, or of something that is not a function of the
                        # node index is not a child read; only `subtotals[a*i + b]` counts (the inlined form of `self.subtotal(a*i + b)`)
                        continue
                    n_r4 += 1
                    if a is None:
                        chk.violation("index-map", "%s<%s>:child" % (meth, w), "%s: child index %s is not affine in the node index" % (meth, fmt(T.of_operand(t["args"][1]))),
                                      where=span_str(t.get("span")))
                    else:
                        forms.add((a[1], a[2], a[3]))
            if forms != {(2, 1, 1), (2, 2, 1)}:
                chk.violation("index-map", "%s<%s>:children" % (meth, w), "%s uses the child maps %s; the heap layout of the writers requires {2i+1, 2i+2}"
                              % (meth, sorted("%si+%s" % (f[0], f[1]) for f in forms)), where=span_str(inst.get("span")))
            else:
                children.append(forms)
                chk.ok("index-map", "%s<%s> children = {2i+1, 2i+2}" % (meth, w), nontrivial=len(children) <= 2)
    # inverse relation on residues (a property of the extracted maps)
    if parents and children:
        P = lambda i: (i - 1) // 2  # noqa: E731
        ok = all(P(2 * i + 1) == i and P(2 * i + 2) == i for i in range(0, 4096)) and all(sorted(c for c in (2 * P(i) + 1, 2 * P(i) + 2) if c == i) == [i] for i in range(1, 4096))
        if ok:
            chk.ok("index-map", "parent((2i+1)) = parent((2i+2)) = i and i in children(parent(i)) for i < 4096", nontrivial=True)
        else:
            chk.violation("index-map", "inverse", "parent and child maps are not mutually inverse")
    chk.floor("parent-map sites (new, push, pop, update x2, per weight type)", len(parents), 12)
    chk.floor("child-map readers (get, try_sample per weight type)", len(children), 5)
    # ---------------------------------------------------------------- R6 try_sample error clause
    n_r6 = try_sample_error_clause(chk, F, ax)
    chk.floor("try_sample error-clause cases", n_r6, 15)
    # ---------------------------------------------------------------- R7 get: both children are subtracted unless out of range
    n_r7 = 0
    for inst in insts_of(F, TREE + "get"):
        w = wname(F, inst)
        T = Terms(F, inst)
        paths = return_paths(inst)
        if paths is None:
            chk.unproved_note("get-children", "get<%s>" % w, "too many paths to enumerate")
            continue
        for path in paths:
            subs = set()
            for bi in path:
                t = inst["blocks"][bi]["term"]
                if t and t["k"] == "call":
                    fn = t["func"].get("fn", {})
                    if _is_subtotal_call(t) or _is_index_call(t):
                        a = affine(T.of_operand(t["args"][1]))
                        if a is not None and a[3] == 1:
                            subs.add((a[1], a[2]))
            conds = path_conditions(inst, T, path)
            for c, nm in ((1, "left"), (2, "right")):
                n_r7 += 1
                key = "get<%s> path %s: %s child" % (w, "-".join(map(str, path[:6])), nm)
                if (2, c) in subs:
                    chk.ok("get-children", key + " subtracted", nontrivial=(n_r7 <= 4))
                    continue
                # is 2i + c >= len implied by a condition taken on the path?
                implied = False
                for (rel, d) in conds:
                    # d = lhs - rhs as a linear form; rel is the relation `d rel 0` known on this path
                    vs, k0 = d
                    lens = [v for v in vs if v.startswith("len(")]
                    others = [v for v in vs if not v.startswith("len(")]
                    if len(lens) != 1 or len(others) != 1:
                        continue
                    sgn = 1 if vs[others[0]] > 0 else -1
                    if vs[others[0]] * sgn != 2 or vs[lens[0]] * sgn != -1:
                        continue
                    # sgn*(2i - len) + k0 rel 0
                    if sgn == 1 and rel in (">=", ">", "=="):
                        m = {">=": 0, ">": 1, "==": 0}[rel]      # 2i - len >= m - k0
                        if c >= k0 - m:
                            implied = True
                    if sgn == -1 and rel in ("<=", "<", "=="):
                        m = {"<=": 0, "<": 1, "==": 0}[rel]      # -(2i - len) + k0 <= -m  ->  2i - len >= k0 + m
                        if c >= -(k0 + m) * 1 and c + k0 + m >= 0:
                            implied = True
                if implied:
                    chk.ok("get-children", key + " is out of range on this path (condition implies 2i+%d >= len)" % c, nontrivial=True)
                else:
                    chk.violation("get-children", "get<%s>:%s" % (w, nm), "get<%s> can return without subtracting the %s child's subtotal although 2i+%d < len is possible "
                                  "on that path: the result is a subtotal, not the node's own weight" % (w, nm, c), where=span_str(inst.get("span")))
    chk.floor("get: child obligations (paths x 2 x weight types)", n_r7, 6)
    # ---------------------------------------------------------------- R8 update: an Ok return without a write only when weight == get(index)
    n_r8 = 0
    ORD = {"gt": {">"}, "lt": {"<"}, "ge": {"=", ">"}, "le": {"<", "="}, "eq": {"="}, "ne": {"<", ">"}}
    FLIP = {"<": ">", ">": "<", "=": "="}
    for inst in insts_of(F, TREE + "update"):
        w = wname(F, inst)
        T = Terms(F, inst)
        muts = set(mutation_blocks(F, inst))
        errs = {b for b, _ in err_blocks(inst)}
        paths = return_paths(inst)
        if paths is None:
            chk.unproved_note("update-noop", "update<%s>" % w, "too many paths to enumerate")
            continue
        for path in paths:
            ps = set(path)
            if ps & errs or ps & muts:
                continue
            n_r8 += 1
            allowed = {"<", "=", ">"}
            for i, bi in enumerate(path[:-1]):
                b = inst["blocks"][bi]
                t = b["term"]
                if t["k"] != "switch" or t["discr"].get("k") not in ("copy", "move"):
                    continue
                d = T.body.single_def(t["discr"]["l"])
                if d is None or d[2] != "call":
                    continue
                fn = d[3]["func"].get("fn", {})
                m = fn.get("method")
                if m not in ORD or not (fn.get("trait") or "").startswith("core::cmp::Partial"):
                    continue
                a0, a1 = (T.of_operand(x) for x in d[3]["args"][:2])
                isw = lambda t_: t_ == T.var(3)                       # noqa: E731   the new weight: third parameter of update(&mut self, index, weight)
                iso = lambda t_: t_[0] == "call" and t_[1] == "get"   # noqa: E731
                if isw(a0) and iso(a1):
                    flip = False
                elif iso(a0) and isw(a1):
                    flip = True
                else:
                    continue
                taken_true = bool_branch_taken(t, path[i + 1])
                setv = ORD[m] if taken_true else {"<", "=", ">"} - ORD[m]
                if flip:
                    setv = {FLIP[x] for x in setv}
                allowed &= setv
            key = "update<%s> Ok-path without a write (%s)" % (w, "-".join(map(str, path[:8])))
            if allowed <= {"="}:
                chk.ok("update-noop", key + ": only when weight == get(index)", nontrivial=True)
            else:
                chk.violation("update-noop", "update<%s>" % w, "update<%s> can return Ok(()) without writing the tree although weight %s get(index) is possible on that path "
                              "(the comparisons taken do not pin weight == old weight)" % (w, "/".join(sorted(allowed - {"="}))), where=span_str(inst.get("span")))
    chk.floor("update: Ok-paths without a write", n_r8, 3)
    chk.notes.append("the two assertions at the end of try_sample cannot be discharged for float weights (rounding of the residual): reported under C03/C10 as not decided")


def try_sample_error_clause(chk, F, ax, rule="try-sample-error"):
    """try_sample returns InsufficientNonZero exactly when the tree is empty or its total is zero (abstract trees of exact shape)."""
    n_r6 = 0
    for inst in insts_of(F, TREE + "try_sample"):
        w = wname(F, inst)
        t = next(t for t in F.types if t["s"] == w and t["k"] in ("int", "float"))
        zero = Fl.point(0) if t["k"] == "float" else In(0, 0, t["bits"], t["signed"])
        pos = small_elem(F, w)
        for tl, tree, want_err in (("empty", St(None, [Vc(pos, usize(0))]), True), ("all-zero", St(None, [Vc(zero, usize(3))]), True),
                                   ("positive", St(None, [Vc(pos, usize(3))]), False), ("single zero weight", St(None, [Vc(zero, usize(1))]), True),
                                   ("single positive weight", St(None, [Vc(pos, usize(1))]), False)):
            ip = Interp(F, ax)
            rv, st = ip.run_root(inst, [Rf(None, tree, False), Rf(None, Top(), True)])
            outs = rules_c04.outcome_names(F, rv) if st is not None else {"diverges"}
            real = outs - {"panic"}
            key = "try_sample<%s> on %s tree" % (w, tl)
            n_r6 += 1
            if want_err and real != {"InsufficientNonZero"}:
                chk.violation(rule, key, "%s returns %s instead of Err(InsufficientNonZero)" % (key, sorted(outs)))
            elif not want_err and "InsufficientNonZero" in real:
                chk.violation(rule, key, "%s may return InsufficientNonZero although the total is positive" % key)
            else:
                chk.ok(rule, key + " -> " + "/".join(sorted(real)))
    return n_r6


def _from_index_mut(fi, local, depth=0):
    """Was this local assigned from an IndexMut::index_mut call (a reference into the tree's storage)?"""
    if depth > 4:
        return False
    for b in fi.blocks:
        t = b["term"]
        if t and t["k"] == "call" and t["dest"]["l"] == local:
            fn = t["func"].get("fn", {})
            if (fn.get("trait") or "").endswith("IndexMut") or fn.get("method") == "index_mut":
                return True
        for s in b["stmts"]:
            if s["k"] == "assign" and s["place"]["l"] == local and not s["place"]["p"]:
                rv = s["rv"]
                if rv["k"] in ("use",) and rv["op"].get("k") in ("copy", "move"):
                    if _from_index_mut(fi, rv["op"]["l"], depth + 1):
                        return True
                if rv["k"] == "ref":
                    if _from_index_mut(fi, rv["place"]["l"], depth + 1):
                        return True
    return False


def _is_subtotal_call(t):
    return (t["func"].get("fn", {}).get("res_path") or "").endswith("WeightedTreeIndex::<W>::subtotal")


def _is_index_call(t):
    """`self.subtotals[expr]` on the Vec: the resolved trait is printed `core::ops::Index` (re-export) or `core::ops::index::Index`."""
    tr = t["func"].get("fn", {}).get("trait") or ""
    return tr.endswith("ops::Index") or tr.endswith("ops::index::Index")


def return_paths(inst, cap=4000):
    """All acyclic paths (block lists) from the entry to a `return` terminator; None if there are more than `cap`."""
    out = []
    blocks = inst["blocks"]

    def dfs(bi, path, seen):
        if len(out) > cap:
            return
        t = blocks[bi]["term"]
        if t is None:
            return
        if t["k"] == "return":
            out.append(path + [bi])
            return
        for s in successors(t):
            if s not in seen:
                dfs(s, path + [bi], seen | {s})
    import sys
    sys.setrecursionlimit(max(10000, sys.getrecursionlimit()))
    dfs(0, [], {0})
    return None if len(out) > cap else out


def path_conditions(inst, T, path):
    """Integer comparisons decided along a path: list of (rel, lhs - rhs as a linear form) meaning `form rel 0`."""
    NEG = {"<": ">=", "<=": ">", ">": "<=", ">=": "<", "==": "!=", "!=": "=="}
    OPS = {"Lt": "<", "Le": "<=", "Gt": ">", "Ge": ">=", "Eq": "==", "Ne": "!="}
    out = []
    for i, bi in enumerate(path[:-1]):
        t = inst["blocks"][bi]["term"]
        if t["k"] != "switch" or t["discr"].get("k") not in ("copy", "move") or t["discr"]["p"]:
            continue
        d = T.body.single_def(t["discr"]["l"])
        if d is None or d[2] == "call":
            continue
        rv = d[3]["rv"]
        neg = False
        if rv["k"] == "unop" and rv["op"] == "Not" and rv["a"].get("k") in ("copy", "move"):
            d2 = T.body.single_def(rv["a"]["l"])
            if d2 is None or d2[2] == "call":
                continue
            rv = d2[3]["rv"]
            neg = True
        if rv["k"] != "binop" or rv["op"] not in OPS:
            continue
        la, lb = linear(T.of_operand(rv["a"])), linear(T.of_operand(rv["b"]))
        if la is None or lb is None:
            continue
        taken_true = bool_branch_taken(t, path[i + 1])
        rel = OPS[rv["op"]]
        if taken_true == neg:
            rel = NEG[rel]
        out.append((rel, lin_sub(la, lb)))
    return out
