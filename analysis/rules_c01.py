"""C01 — continuous samplers: agreement of each sampler with its reference algorithm (DESIGN.md 5/C01, 11.8).

The sampled law is a measure-theoretic fact and is not decided.  What is decided is the clause whose truth is in the shape of the
code: every sampler of the list below *is* the published algorithm / representation theorem it cites — same proposals, same
acceptance tests (including the squeeze constants), same returned expression, same derived constants in the constructor.
For each function a summary is extracted from the MIR (algsum.py): atoms = normalised comparisons, paths = feasible paths through one
loop iteration with their outcome (`continue` or `return term`).  The reference is a short decision list over named symbols (self's
fields by name, draws by distribution and order).  Three things are compared by computer algebra (sympy, see symcheck.py):

  A  every comparison of the implementation is one of the reference's comparisons (its difference term is identical, up to sign);
  B  the decision functions agree on every truth assignment of the comparisons (so `||`, early `continue`, nesting and the order of
     independent tests are free);
  C  every returned term is identical to the reference's returned term; constructors: every field of the returned struct.

`different` needs a refutation at an exact rational point (as in C13); anything not decided is reported, not alarmed.  The squeeze
constants, signs, exponents, root selections and derived constants are exactly what a law test at one parameter point cannot pin down.
Not decided: that the reference algorithms have the documented law (cited theorems), floating-point rounding, Beta (Cheng BB/BC: not
transcribed), the ziggurat primitives (C06), the single-draw transforms (C13).
"""
CONFIGS_THOROUGH = ["serde", "release"]

import itertools
import json
import os
import re
import subprocess
from fractions import Fraction

import algsum
from facts import span_str
from symterm import fmt

HERE = os.path.dirname(os.path.abspath(__file__))
D = "rand::distr::Distribution<F>>::sample"

R = "Rational"
SPECS = [
    # ------------------------------------------------------------------ Gamma (Marsaglia & Tsang 2000)
    dict(name="GammaLargeShape::new_raw", fn="gamma::GammaLargeShape::<F>::new_raw", kind="ctor", struct="GammaLargeShape", params=["shape", "scale"],
         symbols={"shape": "positive", "scale": "positive"},
         fields={"scale": "scale", "d": "shape - Rational(1,3)", "c": "1/sqrt(9*(shape - Rational(1,3)))"}),
    dict(name="GammaLargeShape::sample_unscaled", fn="gamma::GammaLargeShape::<F>::sample_unscaled", kind="alg", self_ty="GammaLargeShape",
         draws=[("StandardNormal", "n"), ("Open01", "o")], symbols={"c": "positive", "d": "positive", "scale": "positive", "n": "real", "o": "positive"},
         rules=[("1 + c*n <= 0", "continue"),
                ("o < 1 - Rational(331,10000)*n**4", "return (1 + c*n)**3"),
                ("ln(o) < n**2/2 + d*(1 - (1 + c*n)**3 + ln((1 + c*n)**3))", "return (1 + c*n)**3"),
                (None, "continue")]),
    dict(name="GammaLargeShape::sample", fn="<gamma::GammaLargeShape<F> as " + D, kind="alg", self_ty="GammaLargeShape",
         draws=[], symbols={"c": "positive", "d": "positive", "scale": "positive", "sample_unscaled_self": "positive"},
         rules=[(None, "return sample_unscaled_self*d*scale")]),
    dict(name="GammaSmallShape::new_raw", fn="gamma::GammaSmallShape::<F>::new_raw", kind="ctor", struct="GammaSmallShape", params=["shape", "scale"],
         symbols={"shape": "positive", "scale": "positive"},
         fields={"inv_shape": "1/shape", "large_shape": "GammaLargeShape_new_raw(shape + 1, scale)"}),
    dict(name="GammaSmallShape::sample", fn="<gamma::GammaSmallShape<F> as " + D, kind="alg", self_ty="GammaSmallShape",
         draws=[("Open01", "o")], symbols={"inv_shape": "positive", "large_shape_d": "positive", "large_shape_scale": "positive", "sample_unscaled_large_shape": "positive", "o": "positive"},
         rules=[(None, "return sample_unscaled_large_shape*o**inv_shape*large_shape_d*large_shape_scale")]),
    # ------------------------------------------------------------------ location-scale / composition families
    dict(name="Normal::sample", fn="<normal::Normal<F> as " + D, kind="alg", self_ty="Normal", draws=[("StandardNormal", "n")],
         symbols={"mean": "real", "std_dev": "real", "n": "real"}, rules=[(None, "return mean + std_dev*n || from_zscore(self, n)")]),
    dict(name="Normal::from_zscore", fn="normal::Normal::<F>::from_zscore", kind="alg", self_ty="Normal", draws=[], params=["zscore"],
         symbols={"mean": "real", "std_dev": "real", "zscore": "real"}, rules=[(None, "return mean + std_dev*zscore")]),
    dict(name="Normal::new", fn="normal::Normal::<F>::new", kind="alg", self_ty=None, draws=[], symbols={"mean": "real", "std_dev": "real"},
         rules=[("call is_finite(std_dev)", "return Result_Ok(Normal(mean, std_dev))"), (None, "return Err")]),
    dict(name="Normal::from_mean_cv", fn="normal::Normal::<F>::from_mean_cv", kind="alg", self_ty=None, draws=[], symbols={"mean": "real", "cv": "real"},
         rules={"main": [("call is_finite(cv)", "goto c1"), (None, "return Err")], "c1": [("cv < 0", "return Err"), (None, "return Result_Ok(Normal(mean, cv*mean))")]}),
    dict(name="LogNormal::new", fn="normal::LogNormal::<F>::new", kind="alg", self_ty=None, draws=[], symbols={"mu": "real", "sigma": "real"},
         rules=[(None, "return Result_Ok(LogNormal(Normal_new(mu, sigma)))")]),
    dict(name="LogNormal::from_mean_cv", fn="normal::LogNormal::<F>::from_mean_cv", kind="alg", self_ty=None, draws=[], symbols={"mean": "positive", "cv": "real"},
         rules={"main": [("cv == 0", "goto zero"), (None, "goto c1")],
                "zero": [("0 <= mean", "return Result_Ok(LogNormal(Normal_new(ln(mean), 0)))"), (None, "return Err")],
                "c1": [("0 < mean", "goto c2"), (None, "return Err")],
                "c2": [("0 <= cv", "return Result_Ok(LogNormal(Normal_new(ln(mean**2/(1 + cv**2))/2, sqrt(ln(1 + cv**2)))))"), (None, "return Err")]}),
    dict(name="LogNormal::sample", fn="<normal::LogNormal<F> as " + D, kind="alg", self_ty="LogNormal", draws=[],
         symbols={"sample_norm": "real"}, rules=[(None, "return exp(sample_norm)")]),
    dict(name="Exp::new", fn="exponential::Exp::<F>::new", kind="ctor", struct="Exp", params=["lambda"], rename={"lambda": "lam"},
         symbols={"lam": "positive"}, fields={"lambda_inverse": "1/lam"}),
    dict(name="Exp::sample", fn="<exponential::Exp<F> as " + D, kind="alg", self_ty="Exp", draws=[("Exp1", "e")],
         symbols={"lambda_inverse": "positive", "e": "positive"}, rules=[(None, "return e*lambda_inverse")]),
    dict(name="StudentT::sample", fn="<student_t::StudentT<F> as " + D, kind="alg", self_ty="StudentT", draws=[("StandardNormal", "n")],
         symbols={"dof": "positive", "sample_chi": "positive", "n": "real"}, rules=[(None, "return n*sqrt(dof/sample_chi)")]),
    dict(name="StudentT::new", fn="student_t::StudentT::<F>::new", kind="ctor", struct="StudentT", params=["nu"],
         symbols={"nu": "positive"}, fields={"chi": "ChiSquared_new(nu)", "dof": "nu"}),
    dict(name="FisherF::sample", fn="<fisher_f::FisherF<F> as " + D, kind="alg", self_ty="FisherF", draws=[],
         symbols={"dof_ratio": "positive", "sample_numer": "positive", "sample_denom": "positive"}, rules=[(None, "return sample_numer/sample_denom*dof_ratio")]),
    dict(name="FisherF::new", fn="fisher_f::FisherF::<F>::new", kind="ctor", struct="FisherF", params=["m", "n"],
         symbols={"m": "positive", "n": "positive"}, fields={"numer": "ChiSquared_new(m)", "denom": "ChiSquared_new(n)", "dof_ratio": "n/m"}),
    # ------------------------------------------------------------------ Inverse Gaussian (Michael, Schucany & Haas 1976)
    dict(name="InverseGaussian::sample", fn="<inverse_gaussian::InverseGaussian<F> as " + D, kind="alg", self_ty="InverseGaussian",
         draws=[("StandardNormal", "n"), ("StandardUniform", "u")], symbols={"mean": "positive", "shape": "positive", "n": "real", "u": "positive"},
         let={"y": "mean*n**2", "x": "mean + mean/(2*shape)*(mean*n**2 - sqrt(4*shape*mean*n**2 + (mean*n**2)**2))"},
         rules=[("u <= mean/(mean + x)", "return x"), (None, "return mean**2/x")]),
    dict(name="NormalInverseGaussian::sample", fn="<normal_inverse_gaussian::NormalInverseGaussian<F> as " + D, kind="alg", self_ty="NormalInverseGaussian",
         draws=[("InverseGaussian", "ig"), ("StandardNormal", "n")], symbols={"beta": "real", "ig": "positive", "n": "real"},
         rules=[(None, "return beta*ig + sqrt(ig)*n")]),
    # ------------------------------------------------------------------ Skew normal (Henze 1986 / max-min representation)
    dict(name="SkewNormal::sample", fn="<skew_normal::SkewNormal<F> as " + D, kind="alg", self_ty="SkewNormal",
         draws=[("StandardNormal", "n1"), ("StandardNormal", "n2")], symbols={"location": "real", "scale": "positive", "shape": "real", "n1": "real", "n2": "real"},
         let={"mx": "Max(n1, n2)", "mn": "Min(n1, n2)"},
         rules=[("shape == 0", "return n1*scale + location"),
                ("shape == -1", "return mn*scale + location"),
                ("shape == 1", "return mx*scale + location"),
                (None, "return ((1 + shape)*mx + (1 - shape)*mn)/(sqrt(1 + shape**2)*sqrt(2))*scale + location")]),
    # ------------------------------------------------------------------ PERT
    dict(name="Pert::sample", fn="<pert::Pert<F> as " + D, kind="alg", self_ty="Pert", draws=[],
         symbols={"min": "real", "range": "positive", "sample_beta": "positive"}, rename={"min": "pmin", "range": "prange"},
         rules=[(None, "return sample_beta*prange + pmin")]),
    # ------------------------------------------------------------------ ChiSquared
    dict(name="ChiSquared::sample", fn="<chi_squared::ChiSquared<F> as " + D, kind="alg", self_ty="ChiSquared", draws=[("StandardNormal", "n")],
         symbols={"n": "real"}, variant_rules={"DoFExactlyOne": "return n**2", "DoFAnythingElse": "return sample_repr_DoFAnythingElse_0"}),
    # ------------------------------------------------------------------ Beta (Cheng 1978, algorithms BB and BC)
    "@BETA_NEW@",
    dict(name="Beta::sample", fn="<beta::Beta<F> as " + D, kind="alg", self_ty="Beta", draws=[("Open01", "u1"), ("Open01", "u2")],
         symbols={"a": "positive", "b": "positive", "alpha": "positive", "beta": "positive", "gamma": "positive", "kappa1": "real", "kappa2": "positive",
                  "u1": "positive", "u2": "positive"},
         variants={
             "BB": dict(rename={"algorithm_BB_0_alpha": "alpha", "algorithm_BB_0_beta": "beta", "algorithm_BB_0_gamma": "gamma"},
                        let={"v": "beta*ln(u1/(1 - u1))", "w": "a*exp(beta*ln(u1/(1 - u1)))", "z": "u1**2*u2", "r": "gamma*beta*ln(u1/(1 - u1)) - ln(4)",
                             "s": "a + gamma*beta*ln(u1/(1 - u1)) - ln(4) - a*exp(beta*ln(u1/(1 - u1)))"},
                        rules={"main": [("5*z <= s + 1 + ln(5)", "goto accept"), ("ln(z) <= s", "goto accept"),
                                        ("r + alpha*ln(alpha/(b + w)) < ln(z)", "continue"), (None, "goto accept")],
                               "accept": [("flag switched_params", "return b/(b + w)"), ("w == oo", "return 1"), (None, "return w/(b + w)")]}),
             "BC": dict(rename={"algorithm_BC_0_alpha": "alpha", "algorithm_BC_0_beta": "beta", "algorithm_BC_0_kappa1": "kappa1", "algorithm_BC_0_kappa2": "kappa2"},
                        let={"v": "beta*ln(u1/(1 - u1))", "w": "a*exp(beta*ln(u1/(1 - u1)))", "z": "u1**2*u2"},
                        rules={"main": [("u1 < Rational(1,2)", "goto low"), (None, "goto high")],
                               "low": [("kappa1 <= u2/4 + z - u1*u2", "continue"), (None, "goto step5")],
                               "high": [("z <= Rational(1,4)", "goto accept"), ("kappa2 <= z", "continue"), (None, "goto step5")],
                               "step5": [("alpha*(ln(alpha/(b + w)) + v) - ln(4) < ln(z)", "continue"), (None, "goto accept")],
                               "accept": [("flag switched_params", "return b/(b + w)"), ("w == oo", "return 1"), (None, "return w/(b + w)")]}),
         }),
]


def _beta_new_spec():
    def bb(a, b, sw):
        al = "(%s + %s)" % (a, b)
        be = "sqrt((%s - 2)/(2*%s*%s - %s))" % (al, a, b, al)
        return "Result_Ok(Beta(%s, %s, %s, BetaAlgorithm_BB(BB(%s, %s, %s + 1/%s))))" % (a, b, sw, al, be, a, be)

    def bc(a, b, sw):
        # called with a = the larger, b = the smaller parameter
        al = "(%s + %s)" % (a, b)
        be = "(1/%s)" % b
        de = "(1 + %s - %s)" % (a, b)
        k1 = "%s*(Rational(1,72) + Rational(1,24)*%s)/(%s*%s - Rational(7,9))" % (de, b, a, be)
        k2 = "Rational(1,4) + (Rational(1,2) + Rational(1,4)/%s)*%s" % (de, b)
        return "Result_Ok(Beta(%s, %s, %s, BetaAlgorithm_BC(BC(%s, %s, %s, %s))))" % (a, b, sw, al, be, k1, k2)
    return dict(name="Beta::new", fn="beta::Beta::<F>::new", kind="alg", self_ty=None, draws=[], rename={"alpha": "a0", "beta": "b0"},
                symbols={"a0": "positive", "b0": "positive"},
                rules={"main": [("0 < a0", "goto c2"), (None, "return Err")],
                       "c2": [("0 < b0", "goto c3"), (None, "return Err")],
                       "c3": [("a0 < b0", "goto ab"), (None, "goto ba")],
                       # a0 < b0: a = a0 (min), b = b0; BB when a > 1, otherwise BC with the roles exchanged (a = max) and the flag flipped
                       "ab": [("1 < a0", "return " + bb("a0", "b0", "0")), (None, "return " + bc("b0", "a0", "1"))],
                       "ba": [("1 < b0", "return " + bb("b0", "a0", "1")), (None, "return " + bc("a0", "b0", "0"))]})


class NoForm(Exception):
    pass


import math

KNOWN_CONSTS = [(math.sqrt(2), "sqrt(2)"), (math.pi, "pi"), (math.e, "E"), (1 / math.sqrt(2), "(1/sqrt(2))"), (math.log(2), "ln(2)"), (math.sqrt(2 * math.pi), "sqrt(2*pi)"),
                (2 * math.pi, "(2*pi)"), (math.pi / 2, "(pi/2)"), (math.sqrt(math.pi), "sqrt(pi)"), (1 / math.pi, "(1/pi)"), (math.sqrt(3), "sqrt(3)"), (math.log(10), "ln(10)")]


def frac_of(v):
    if isinstance(v, float):
        for c, name in KNOWN_CONSTS:
            if abs(v - c) <= 4e-16 * abs(c) or (abs(v - c) <= 1.2e-7 * abs(c) and float(__import__("struct").unpack("f", __import__("struct").pack("f", c))[0]) == v):
                return name
            if abs(v + c) <= 4e-16 * abs(c):
                return "(-%s)" % name
    fr = Fraction(v)
    near = fr.limit_denominator(100000)
    if near == fr or (fr != 0 and abs(near - fr) <= abs(fr) * Fraction(1, 10 ** 15)):
        fr = near
    return "Rational(%d,%d)" % (fr.numerator, fr.denominator)


BINOPS = {"add": "+", "sub": "-", "mul": "*", "div": "/"}
BITOPS = {"and": "bitand_", "shl": "shl_", "shr": "shr_", "rem": "rem_"}
FUN1 = {"ln": "ln", "exp": "exp", "sqrt": "sqrt", "tan": "tan", "abs": "Abs", "floor": "floor", "ceil": "ceiling", "signum": "sign"}


SPECS = [(_beta_new_spec() if x == "@BETA_NEW@" else x) for x in SPECS]


class Namer:
    """Terms -> expressions over the reference's symbol names."""

    def __init__(self, F, inst, spec, draws_in_order):
        self.F, self.inst, self.spec = F, inst, spec
        self.rename = spec.get("rename", {})
        self.draw_names = {}
        want = list(spec.get("draws", []))
        # draws are named in order of their block index, per kind
        for (kind, blk) in draws_in_order:
            for i, (k2, nm) in enumerate(want):
                if k2 == kind:
                    self.draw_names[(kind, blk)] = nm
                    want.pop(i)
                    break
        self.unnamed = [d for d in draws_in_order if d not in self.draw_names]
        self.missing = want
        self.env_self = None
        st = None
        if inst["arg_count"] >= 1:
            t = F.types[inst["locals"][1]["ty"]]
            if t["k"] == "ref":
                t = F.types[t["to"]]
            if t["k"] == "adt":
                st = t
            elif t["k"] == "closure" and t.get("upvars"):
                # a closure that captures `self`: (*_1).0 is the captured reference, named `self` below
                u = F.types[t["upvars"][0]]
                while u["k"] == "ref":
                    u = F.types[u["to"]]
                if u["k"] == "adt":
                    st = u
                    self.env_self = ("field", ("var", "_1"), 0)
        self.self_ty = st
        self.params = {}
        self.param_adts = {}
        import frozen
        pren = frozen.params(inst)          # a renamed parameter stands for the name the reference uses
        for i in range(1, inst["arg_count"] + 1):
            nm = inst["locals"][i].get("name")
            if nm:
                self.params[nm] = self.rename.get(pren.get(nm, nm), pren.get(nm, nm))
                t_ = F.types[inst["locals"][i]["ty"]]
                if t_["k"] == "ref":
                    t_ = F.types[t_["to"]]
                if t_["k"] == "adt" and t_.get("krate") == "rand_distr" and nm != "self":
                    self.param_adts[nm] = t_

    def field_path(self, t):
        """A place inside *self as a name: declared field names joined by '_', enum downcasts by their variant name
        (self.algorithm as BB).0.alpha -> 'algorithm_BB_0_alpha'.  None if the term is not such a place."""
        steps = []
        cur = t
        while isinstance(cur, tuple) and cur and cur[0] in ("field", "proj"):
            if cur[0] == "field":
                steps.append(("f", cur[2]))
            elif str(cur[2]).startswith("downcast:"):
                steps.append(("d", cur[2].split(":", 1)[1]))
            cur = cur[1]
        root_name = None
        if self.env_self is not None and steps and cur == ("var", "_1") and steps[-1] == ("f", 0):
            steps.pop()
            cur = ("var", "self")
        if cur == ("var", "self") and self.self_ty is not None:
            ty = self.self_ty
        elif isinstance(cur, tuple) and cur and cur[0] == "var" and cur[1] in self.param_adts and steps:
            ty = self.param_adts[cur[1]]
            root_name = self.params.get(cur[1], self.rename.get(cur[1], cur[1]))
        else:
            return None
        variant = 0
        names = [root_name] if root_name else []
        for kind, x in reversed(steps):
            if ty is None or ty["k"] != "adt" or not ty["variants"]:
                return None
            if kind == "d":
                idx = [i for i, v in enumerate(ty["variants"]) if v["name"] == x]
                if not idx:
                    return None
                variant = idx[0]
                names.append(x)
                continue
            fs = ty["variants"][variant]["fields"]
            if not isinstance(x, int) or x >= len(fs):
                return None
            import frozen
            names.append(frozen.fields(ty, variant)[x])
            ty = self.F.types[fs[x]["ty"]]
            variant = 0
        return "_".join(names)

    def sym(self, t):
        k = t[0]
        if k == "const":
            v = t[1]
            if isinstance(v, bool):
                return "1" if v else "0"
            if not isinstance(v, (int, float)):
                raise NoForm("constant %r" % (v,))
            return frac_of(v)
        if k == "agg" and t[1] == "tuple":
            return "tup_(%s)" % ", ".join(self.sym(x) for x in t[3:])
        if k == "agg" and isinstance(t[1], str) and t[1].startswith("adt:"):
            adt = t[1][4:]
            if adt == "Result" and t[2] == "Err":
                return "Err"            # the error payload is C04's subject
            fname = adt if not t[2] or t[2] == adt else "%s_%s" % (adt, t[2])
            return "%s(%s)" % (fname, ", ".join(self.sym(x) for x in t[3:]))
        if k == "var":
            if t[1] == "self":
                return "self"
            return self.params.get(t[1], self.rename.get(t[1], t[1]))
        if k == "draw":
            nm = self.draw_names.get((t[1], t[2]))
            if nm is None:
                raise NoForm("a draw from %s that the reference algorithm does not make" % t[1])
            return nm
        if k == "field" and t[2] == 0 and isinstance(t[1], tuple) and t[1][0] == "proj" and str(t[1][2]).startswith("downcast") and isinstance(t[1][1], tuple) \
                and t[1][1][0] == "call" and t[1][1][1] == "branch":
            return self.sym(t[1][1][2])          # the Ok payload of `expr?`
        if k in ("field", "proj"):
            fp = self.field_path(t)
            if fp is None:
                if k == "field" and isinstance(t[2], int) and isinstance(t[1], tuple) and t[1] and t[1][0] == "call" and t[1][1] == "call":
                    return "tupget_(%s, %d)" % (self.sym(t[1]), t[2])      # a component of the tuple a local closure returns
                raise NoForm(fmt(t)[:60])
            return self.rename.get(fp, fp)
        if k == "call" and t[1] == "call" and len(t) == 4 and isinstance(t[2], tuple) and t[2][:2] == ("agg", "closure") and isinstance(t[3], tuple) and t[3][:2] == ("agg", "tuple"):
            # a call of a local closure whose body has branches (not inlined): an uninterpreted function of the arguments, named after the closure's index
            m_ = re.search(r"\{closure#(\d+)\}$", str(t[2][2]))
            if m_ and all(c == ("var", "self") for c in t[2][3:]):
                return "closure%s_(%s)" % (m_.group(1), ", ".join(self.sym(a) for a in t[3][3:]))
        if k == "idx" and isinstance(t[1], tuple) and t[1][0] == "carray":
            # a constant table indexed by a variable: the reference names its tables (spec["tables"]: name -> values); an unknown table is a different function
            for tn, vals in self.spec.get("tables", {}).items():
                if len(vals) == len(t[1][1]) and all(float(a_) == float(b_) for a_, b_ in zip(vals, t[1][1])):
                    return "%s(%s)" % (tn, self.sym(t[2]))
            return "table_%d_(%s)" % (abs(hash(t[1][1])) % 100000, self.sym(t[2]))
        if k in BINOPS:
            return "((%s) %s (%s))" % (self.sym(t[1]), BINOPS[k], self.sym(t[2]))
        if k in BITOPS:
            return "%s(%s, %s)" % (BITOPS[k], self.sym(t[1]), self.sym(t[2]))
        if k == "neg":
            return "(-(%s))" % self.sym(t[1])
        if k == "call":
            name, args = t[1], t[2:]
            if name in BINOPS and len(args) == 2:
                return "((%s) %s (%s))" % (self.sym(args[0]), BINOPS[name], self.sym(args[1]))
            if name == "neg" and len(args) == 1:
                return "(-(%s))" % self.sym(args[0])
            if name in FUN1 and len(args) == 1:
                return "%s(%s)" % (FUN1[name], self.sym(args[0]))
            if name in ("powf", "powi", "pow") and len(args) == 2:
                return "((%s)**(%s))" % (self.sym(args[0]), self.sym(args[1]))
            if name == "recip" and len(args) == 1:
                return "(1/(%s))" % self.sym(args[0])
            if name == "ln_1p" and len(args) == 1:
                return "ln(1 + (%s))" % self.sym(args[0])
            if name == "exp_m1" and len(args) == 1:
                return "(exp(%s) - 1)" % self.sym(args[0])
            if name == "mul_add" and len(args) == 3:
                return "((%s)*(%s) + (%s))" % tuple(self.sym(a) for a in args)
            if name == "cbrt" and len(args) == 1:
                return "((%s)**Rational(1,3))" % self.sym(args[0])
            if name == "from_residual":
                return "Err"
            if name == "not" and len(args) == 1:
                return "(1 - (%s))" % self.sym(args[0])
            if name == "max" and len(args) == 2:
                return "Max(%s, %s)" % (self.sym(args[0]), self.sym(args[1]))
            if name == "min" and len(args) == 2:
                return "Min(%s, %s)" % (self.sym(args[0]), self.sym(args[1]))
            if name == "PI" and not args:
                return "pi"
            if name in ("one",) and not args:
                return "1"
            if name in ("zero",) and not args:
                return "0"
            if name == "infinity" and not args:
                return "oo"
            if name == "neg_infinity" and not args:
                return "(-oo)"
            if name in ("unwrap", "clone", "into", "expect", "map_err", "branch") and args:
                return self.sym(args[0])
            if name == "from" and args:
                return self.sym(args[-1])
            if name == "fold" and len(args) == 3 and isinstance(args[2], tuple) and args[2][:2] == ("agg", "closure"):
                # a fold over a constant table is unrolled through the closure's body (Horner evaluation of a polynomial)
                it, rev = args[0], False
                if it[0] == "call" and it[1] == "rev" and len(it) == 3:
                    it, rev = it[2], True
                if it[0] == "call" and it[1] == "iter" and len(it) == 3:
                    it = it[2]
                if it[0] == "carray" and len(it[1]) <= 64:
                    import algsum
                    acc = args[1]
                    for v in (reversed(it[1]) if rev else it[1]):
                        acc = algsum.closure_body(self.F, args[2][2], list(args[2][3:]), [acc, ("const", v)])
                        if acc is None:
                            raise NoForm("fold with a closure that is not straight-line")
                    return self.sym(acc)
            if name in ("to_usize", "to_u64", "to_i32", "to_i64", "to_u32") and len(args) == 1:
                return self.sym(args[0])
            # a sub-sampler: `x.sample(rng)` / `x.sample_unscaled(rng)` with x a field path of self (or self): an opaque variate
            if name.startswith("sample") and args:
                recv = args[0]
                if recv == ("var", "self") or recv == ("var", "rng"):
                    recv = args[0] if recv == ("var", "self") else (args[1] if len(args) > 1 else None)
                if recv == ("var", "self"):
                    return "%s_self" % name
                fp = self.field_path(recv) if recv is not None else None
                if fp is not None:
                    return "%s_%s" % (name, fp)
                if recv is not None and recv[0] in ("proj", "field"):
                    return "%s_payload" % name
            # crate-local constructors / helpers: an uninterpreted function of its arguments
            if re.match(r"^[A-Za-z_][A-Za-z_0-9]*$", name):
                return "%s(%s)" % (self.rename.get(name, name), ", ".join(self.sym(a) for a in args if a != ("var", "rng")))
        raise NoForm(fmt(t)[:80])


def find(F, path, bits):
    want = "f32" if bits == 32 else "f64"
    cands = [i for i in F.instances if i.get("full") and i["path"] == path and want in i["key"]]
    return cands[0] if cands else None


def parse_rule_cond(c):
    """'A < B' / 'A <= B' / 'A == B' -> (kind, 'A', 'B')"""
    for op, kind in (("<=", "le"), ("==", "eq"), ("<", "lt")):
        if op in c:
            a, b2 = c.split(op, 1)
            return kind, a.strip(), b2.strip()
    raise ValueError("rule condition not understood: " + c)


def subst_let(expr, let):
    for _ in range(4):
        for k, v in let.items():
            expr = re.sub(r"\b%s\b" % re.escape(k), "(" + v + ")", expr)
    return canon(expr)


_CANON = {}


def canon(expr):
    """The expression without redundant parentheses (`f((N - n), K)` and `f(N - n, K)` are one test of the reference, not two)."""
    if expr not in _CANON:
        try:
            import ast
            _CANON[expr] = ast.unparse(ast.parse(expr.strip(), mode="eval"))
        except Exception:      # noqa: BLE001
            _CANON[expr] = expr
    return _CANON[expr]


def collect_draws(summary):
    found = {}

    def rec(t):
        if isinstance(t, tuple):
            if t and t[0] == "draw":
                found[(t[1], t[2])] = True
                return
            for x in t:
                rec(x)
    for a in summary["atoms"]:
        rec(a[1])
        rec(a[2])
    for p in summary["paths"]:
        if len(p["outcome"]) > 1:
            rec(p["outcome"][1])
    return sorted(found, key=lambda d: d[1])


class QualTerms(algsum.DrawTerms):
    """DrawTerms in which calls to crate-local associated functions carry their type: `Gamma::new` -> Gamma_new."""

    def of_local(self, l, proj=(), depth=0):
        t = algsum.DrawTerms.of_local(self, l, proj, depth)
        return t


def qualify(F, inst, T):
    """Map block -> qualified name for calls of crate-local associated functions (used when printing constructor terms)."""
    out = {}
    for bi, b in enumerate(inst["blocks"]):
        t = b["term"]
        if t and t["k"] == "call":
            fn = t["func"].get("fn", {})
            rp = fn.get("res_path") or fn.get("path") or ""
            if fn.get("res_krate", fn.get("krate")) == "rand_distr" and not rp.startswith("<"):
                segs = [s.split("<")[0] for s in rp.split("::") if not s.startswith("<")]
                if len(segs) >= 2:
                    out[bi] = "%s_%s" % (segs[-2], segs[-1])
    return out


def run(chk, F, tier):
    chk.trusted += ["the cited algorithms have the documented law (Marsaglia & Tsang 2000; Cheng 1978; Michael, Schucany & Haas 1976; Henze 1986; the chi-square / t / F / "
                    "log-normal / NIG representation theorems)", "sympy's simplification (`equal`) and 40-digit evaluation at rational points (`different`)",
                    "the reference decision lists in rules_c01.py were transcribed from those sources and from the crate's documentation"]
    run_specs(chk, F, SPECS, 50)


def run_specs(chk, F, specs, floor_n):
    jobs = []
    ctx = {}
    nfun = 0
    for spec in specs:
        for bits in spec.get("bits", (32, 64)):
            key = "%s:f%d" % (spec["name"], bits)
            inst = find(F, spec["fn"], bits) if spec.get("generic", True) else next((i for i in F.instances if i.get("full") and i["path"] == spec["fn"]), None)
            if inst is None and not spec["fn"].startswith("<"):
                # a free function moved inside its module (`binomial::btpe::lambda` -> `binomial::lambda`): the only function of that name in that module
                segs_ = spec["fn"].split("::")
                want_ = "f32" if bits == 32 else "f64"
                cands_ = {i["path"]: i for i in F.instances if i.get("full") and i.get("krate") == "rand_distr" and not i["path"].startswith("<") and not i.get("closure_of")
                          and i["path"].split("::")[0] == segs_[0] and i["path"].split("::")[-1].split("<")[0] == segs_[-1].split("<")[0]
                          and (not spec.get("generic", True) or want_ in i["key"])}
                if len(cands_) == 1:
                    inst = next(iter(cands_.values()))
                    chk.notes.append("%s: `%s` was found as `%s`" % (spec["name"], spec["fn"], inst["path"]))
            if inst is None:
                chk.violation("anchor", key, "function %s not found in the extracted program" % spec["fn"])
                continue
            nfun += 1
            where = span_str(inst.get("span"))
            before_ = len(jobs)
            # helpers the reference does not mention are inlined when they are straight-line (algsum.fn_body)
            algsum.VOCAB = set(re.findall(r"[A-Za-z_][A-Za-z_0-9]*", json.dumps([spec.get(k_) for k_ in ("rules", "fields", "let", "variant_rules", "assume", "rename")])))
            if spec["kind"] == "ctor":
                build_ctor_jobs(chk, F, inst, spec, key, where, jobs, ctx)
            elif spec["kind"] == "ts":
                build_ts_jobs(chk, F, inst, spec, key, where, jobs, ctx)
            else:
                build_alg_jobs(chk, F, inst, spec, key, where, jobs, ctx)
            if key in ctx and spec.get("iterators") != "ignore":
                its = sorted({(b["term"]["func"].get("fn", {}).get("method") or "") for b in inst["blocks"]
                              if b.get("term") and b["term"].get("k") == "call" and (b["term"]["func"].get("fn", {}).get("trait") or "").startswith("core::iter::")
                              and (b["term"]["func"].get("fn", {}).get("method") or "") in ("next", "next_back", "nth", "step_by")})
                if its:
                    ctx[key]["unmodelled"] = "the function drives a loop with an iterator (%s), which the path summaries do not model" % ", ".join(its)
            for j_ in jobs[before_:]:
                if spec.get("subs"):
                    j_["subs"] = spec["subs"]          # domain of the parameters made explicit (e.g. N = K + n + s, s > 0)
                if spec.get("points"):
                    j_["points"] = spec["points"]      # test points inside the algorithm's domain (where every logarithm and root is real)
    chk.floor("sampler / constructor instances compared with their reference", nfun, floor_n)
    if not jobs:
        return
    if os.environ.get("VERIF_DUMP_JOBS"):
        json.dump(jobs, open(os.environ["VERIF_DUMP_JOBS"], "w"))
    r = subprocess.run(["python3-vt", os.path.join(HERE, "symcheck.py")], input=json.dumps(jobs), stdout=subprocess.PIPE, stderr=subprocess.PIPE, text=True, timeout=2400)
    if r.returncode != 0:
        raise SystemExit("symcheck failed: " + r.stderr[-2000:])
    res = json.loads(r.stdout)
    chk.evaluations += len(jobs)
    ndec = 0
    for key, c in sorted(ctx.items()):
        um = c.get("unmodelled")
        if um:
            # the implementation uses a construct the summaries do not model (an iterator-driven loop): what the comparison finds is then
            # a statement about the model, not about the code — reported as not decided, never as a violation
            real_violation = chk.violation

            def soft(rule, key_, what, where=None, detail=None, _um=um):
                chk.unproved_note(rule, key_, "not decided (%s): %s" % (_um, what[:300]), where)
            chk.violation = soft
            try:
                ndec += judge_ts(chk, key, c, res) if c["kind"] == "ts" else judge(chk, key, c, res)
            finally:
                chk.violation = real_violation
            continue
        ndec += judge_ts(chk, key, c, res) if c["kind"] == "ts" else judge(chk, key, c, res)
    chk.floor("functions judged (decided, or explicitly reported as not decided)", ndec + sum(1 for u_ in chk.unproved if u_["rule"] in ("algorithm", "constructor")), floor_n)


def build_ctor_jobs(chk, F, inst, spec, key, where, jobs, ctx):
    T = algsum.DrawTerms(F, inst)
    qual = qualify(F, inst, T)

    class QT(algsum.DrawTerms):
        def of_local(self, l, proj=(), depth=0):
            d = self.body.single_def(l) if not (l != 0 and l <= self.inst["arg_count"] and not self.body.defs.get(l)) else None
            if d is not None and d[2] == "call" and d[0] in qual and not [p for p in proj if p["k"] != "deref"]:
                return ("call", qual[d[0]]) + tuple(self.of_operand(a, depth + 1) for a in d[3]["args"])
            return algsum.DrawTerms.of_local(self, l, proj, depth)
    T = QT(F, inst)
    nm = Namer(F, inst, spec, [])
    agg = None
    for b in inst["blocks"]:
        for s in b["stmts"]:
            if s["k"] == "assign" and s["rv"]["k"] == "aggregate" and s["rv"].get("agg") == "adt" and s["rv"].get("variant_name") == spec["struct"]:
                agg = s["rv"]
    if agg is None:
        chk.violation("anchor", key + ":literal", "the struct literal %s { .. } was not found in %s" % (spec["struct"], spec["fn"]), where=where)
        return
    sty = next((t for t in F.types if t["k"] == "adt" and t["name"] == spec["struct"] and t["krate"] == "rand_distr" and t["variants"]), None)
    import frozen
    names = frozen.fields(sty, 0) if sty else []
    c = {"kind": "ctor", "spec": spec, "where": where, "fields": [], "undecided": []}
    for i, op in enumerate(agg["ops"]):
        fname = names[i] if i < len(names) else str(i)
        if fname not in spec["fields"]:
            continue
        try:
            term = nm.sym(T.of_operand(op))
        except NoForm as e:
            c["undecided"].append("field %s: %s" % (fname, e))
            continue
        jid = "%s|field|%s" % (key, fname)
        jobs.append({"id": jid, "symbols": spec["symbols"], "term": term, "accepted": [spec["fields"][fname]], "functions": True, "relative": True})
        c["fields"].append((fname, jid))
    missing = [f for f in spec["fields"] if f not in names]
    c["missing"] = missing
    ctx[key] = c


def compile_rules(rules, let):
    """rules: list (single decision list) or dict name -> list with outcomes `continue`, `return X [|| Y]`, `goto name`.
    -> (atoms [(kind, a, b)], lists {name: [(atom index | None, outcome)]})"""
    if isinstance(rules, list):
        rules = {"main": rules}
    atoms, lists = [], {}
    for name, lst in rules.items():
        out = []
        for cond, outcome in lst:
            if cond is None:
                out.append((None, outcome))
                continue
            if cond.startswith("flag "):
                a = ("flag", cond[5:].strip(), "1")
            elif cond.startswith("call "):
                m_ = re.match(r"call\s+(\w+)\((.*)\)\s*$", cond)
                a = ("call:" + m_.group(1), subst_let(m_.group(2).strip(), let), "1")
            elif cond.startswith("variant "):
                _, place_, vname_ = cond.split()
                a = ("variant", place_, vname_)
            else:
                kind, x, y = parse_rule_cond(cond)
                a = (kind if kind == "eq" else "lt", subst_let(x, let), subst_let(y, let))
            if a not in atoms:
                atoms.append(a)
            out.append((atoms.index(a), outcome))
        lists[name] = out
    return atoms, lists


def spec_strictness(rules, let):
    """(A, B) -> True for `A < B`, False for `A <= B` in the reference's decision lists (only matters for integer comparisons)."""
    if isinstance(rules, list):
        rules = {"main": rules}
    out = {}
    for lst in rules.values():
        for cond, _ in lst:
            if cond is None or cond.startswith(("flag ", "call ", "variant ")):
                continue
            kind, x, y = parse_rule_cond(cond)
            if kind != "eq":
                out[(subst_let(x, let), subst_let(y, let))] = kind == "lt"
    return out


def int_forms(spec_atoms, sstrict, want_kind):
    """Accepted forms for an integer comparison `d < 0`: same orientation first, then the negated (flipped) orientation."""
    accepted, back = [], []
    for k, (k2, xa, xb) in enumerate(spec_atoms):
        if k2 == want_kind:
            accepted.append("(%s) - (%s) - (%d)" % (xa, xb, 0 if sstrict.get((xa, xb), True) else 1))
            back.append((k, False))
    for k, (k2, xa, xb) in enumerate(spec_atoms):
        if k2 == want_kind:
            # not (xa < xb) is xb < xa + 1; not (xa <= xb) is xb < xa
            accepted.append("(%s) - (%s) - (%d)" % (xb, xa, 1 if sstrict.get((xa, xb), True) else 0))
            back.append((k, True))
    return accepted, back


def spec_eval(lists, assign, let):
    name = "main"
    for _ in range(20):
        for a_i, outcome in lists[name]:
            if a_i is None or assign[a_i]:
                if outcome == "continue":
                    return "continue"
                if outcome.startswith("goto "):
                    name = outcome[5:].strip()
                    break
                return frozenset(subst_let(alt.strip(), let) for alt in outcome[len("return "):].split(" || "))
        else:
            return None
    return None


def build_alg_jobs(chk, F, inst, spec, key, where, jobs, ctx):
    summ = algsum.summarize(F, inst)
    if "variants" in spec:
        # one case per enum variant: the paths that carry the literal `variant == name`
        cases = []
        for vname, vs in spec["variants"].items():
            sub = dict(spec)
            sub.update(vs)
            sub["rename"] = dict(spec.get("rename", {}), **vs.get("rename", {}))
            sub["symbols"] = dict(spec.get("symbols", {}), **vs.get("symbols", {}))
            cases.append((vname, sub))
    else:
        cases = [(None, spec)]
    for vname, sp in cases:
        ckey = key if vname is None else "%s|%s" % (key, vname)
        paths = []
        for p in summ["paths"]:
            vl = [l for l in p["lits"] if l and l[0] == "variant"]
            if vname is None:
                paths.append(p)
                continue
            nm0 = Namer(F, inst, sp, [])
            for (_, place, idx) in vl:
                ty = None
                fp = nm0.field_path(place) if place else None
                # the enum type of the place
                tcur = nm0.self_ty
                ok_t = True
                steps = []
                cur = place
                while isinstance(cur, tuple) and cur and cur[0] in ("field", "proj"):
                    if cur[0] == "field":
                        steps.append(cur[2])
                    cur = cur[1]
                for x in reversed(steps):
                    if tcur is None or tcur["k"] != "adt" or not tcur["variants"] or not isinstance(x, int) or x >= len(tcur["variants"][0]["fields"]):
                        ok_t = False
                        break
                    tcur = F.types[tcur["variants"][0]["fields"][x]["ty"]]
                if ok_t and tcur and tcur["k"] == "adt" and isinstance(idx, int) and idx < len(tcur["variants"]) and tcur["variants"][idx]["name"] == vname:
                    paths.append(p)
        build_case(chk, F, inst, sp, ckey, where, jobs, ctx, summ, paths)


def used_atoms(paths):
    out = []
    for p in paths:
        for lit in p["lits"]:
            if lit and lit[0] != "variant" and lit[0] not in out:
                out.append(lit[0])
    return sorted(out)


def _is_try_break(p):
    """A path that leaves through the error arm of `expr?` (ControlFlow::Break of `branch(..)`): error propagation, not part of the algorithm."""
    for lit in p["lits"]:
        if lit and lit[0] == "variant" and isinstance(lit[1], tuple) and lit[1][:2] == ("call", "branch") and lit[2] == 1:
            return True
    return False


def _contradictory(p):
    seen = {}
    for lit in p["lits"]:
        if lit and lit[0] != "variant":
            if seen.get(lit[0], lit[1]) != lit[1]:
                return True
            seen[lit[0]] = lit[1]
    return False


def build_case(chk, F, inst, spec, key, where, jobs, ctx, summ, paths):
    paths = [p for p in paths if not _is_try_break(p) and not _contradictory(p)]
    sub = {"atoms": summ["atoms"], "paths": paths}
    draws = collect_draws({"atoms": [summ["atoms"][i] for i in used_atoms(paths)], "paths": paths})
    nm = Namer(F, inst, spec, draws)
    let = spec.get("let", {})
    c = {"kind": "alg", "spec": spec, "where": where, "summ": sub, "undecided": [], "atoms": {}, "rets": {}, "problems": [], "let": let}
    ctx[key] = c
    if not paths:
        c["problems"].append("no path of the implementation belongs to this case")
        return
    if nm.unnamed or nm.missing:
        c["problems"].append("the draws differ from the reference: implementation draws %s, reference draws %s" % (
            [d[0] for d in draws], [k for k, _ in spec.get("draws", [])]))
        return
    if "variant_rules" in spec:
        c["variant"] = True
        rets = sorted({o[len("return "):] for o in spec["variant_rules"].values()})
        c["spec_atoms"], c["lists"] = [], {}
    else:
        c["spec_atoms"], c["lists"] = compile_rules(spec["rules"], let)
        rets = sorted({subst_let(alt.strip(), let) for lst in c["lists"].values() for _, o in lst if o.startswith("return ") for alt in o[len("return "):].split(" || ")})
    c["spec_rets"] = rets
    for i in used_atoms(paths):
        kind, a, b2, strict = summ["atoms"][i]
        try:
            if kind.startswith("call:"):
                arg = nm.sym(a)
                cands = [k for k, sa in enumerate(c["spec_atoms"]) if sa[0] == kind]
                if not cands:
                    c["problems"].append("the implementation tests %s(%s), the reference does not" % (kind[5:], arg))
                    continue
                jid = "%s|atom|%d" % (key, i)
                jobs.append({"id": jid, "symbols": spec["symbols"], "term": arg, "accepted": [c["spec_atoms"][k][1] for k in cands], "relative": True})
                if len(c["spec_atoms"]) > 14:
                    jobs[-1]["variant_of"] = 0
                c["atoms"][i] = (jid, "eq", "%s(%s)" % (kind[5:], arg), [(k, False) for k in cands])
                continue
            if kind == "flag":
                name = nm.sym(a)
                cands = [k for k, sa in enumerate(c["spec_atoms"]) if sa[0] == "flag" and sa[1] == name]
                if cands:
                    c["atoms"][i] = (None, kind, name, (cands[0], False))
                else:
                    c["problems"].append("the implementation branches on the flag `%s`, the reference does not" % name)
                continue
            sa_, sb_ = nm.sym(a), nm.sym(b2)
        except NoForm as e:
            c["undecided"].append("comparison %d: %s" % (i, e))
            continue
        if "variant_rules" in spec:
            c["problems"].append("a comparison (%s vs %s) in a sampler whose reference has none" % (sa_[:60], sb_[:60]))
            continue
        want_kind = "eq" if kind == "eq" else "lt"
        accepted, back = [], []
        inf_side = "oo" in (sa_, sb_) or "(-oo)" in (sa_, sb_)
        if want_kind == "lt" and not inf_side and summ.get("atom_int", [False] * (i + 1))[i]:
            accepted, back = int_forms(c["spec_atoms"], spec_strictness(spec["rules"], let), want_kind)
            dterm = "(%s) - (%s) - (%d)" % (sa_, sb_, 0 if strict else 1)
            jid = "%s|atom|%d" % (key, i)
            jobs.append({"id": jid, "symbols": spec["symbols"], "term": dterm, "accepted": accepted or ["0*0 + 123456789"], "relative": True})
            c["atoms"][i] = (jid, kind, dterm, back)
            continue
        for k, (k2, xa, xb) in enumerate(c["spec_atoms"]):
            if k2 != want_kind:
                continue
            if inf_side:
                if "oo" in (xa, xb):
                    fin_s = xa if xb == "oo" else xb
                    accepted.append(fin_s)
                    back.append((k, False))
                continue
            accepted.append("(%s) - (%s)" % (xa, xb))
            back.append((k, False))
        for k, (k2, xa, xb) in enumerate(c["spec_atoms"]):
            if k2 != want_kind or inf_side:
                continue
            accepted.append("(%s) - (%s)" % (xb, xa))
            back.append((k, True))
        dterm = (sa_ if sb_ in ("oo", "(-oo)") else sb_) if inf_side else "(%s) - (%s)" % (sa_, sb_)
        jid = "%s|atom|%d" % (key, i)
        jobs.append({"id": jid, "symbols": spec["symbols"], "term": dterm, "accepted": accepted or ["0*0 + 123456789"], "relative": True})
        if len(c["spec_atoms"]) > 14:
            jobs[-1]["variant_of"] = 0          # report every identical reference test, not only the first (see judge: aclass)
        c["atoms"][i] = (jid, kind, dterm, back)
    for pi_, p in enumerate(paths):
        if p["outcome"][0] == "return":
            try:
                term = nm.sym(p["outcome"][1])
            except NoForm as e:
                c["undecided"].append("returned value on path %d: %s" % (pi_, e))
                continue
            jid = "%s|ret|%d" % (key, pi_)
            jobs.append({"id": jid, "symbols": spec["symbols"], "term": term, "accepted": rets, "relative": True})
            c["rets"][pi_] = (jid, term)


def path_variants(nm, F, p):
    """{place name: variant name} decided by the enum matches on a path (places inside *self)."""
    out = {}
    for lit in p["lits"]:
        if not (lit and lit[0] == "variant" and isinstance(lit[2], int)):
            continue
        place, idx = lit[1], lit[2]
        fp = nm.field_path(place)
        if fp is None:
            continue
        # walk the type to the enum
        steps, cur = [], place
        while isinstance(cur, tuple) and cur and cur[0] in ("field", "proj"):
            if cur[0] == "field":
                steps.append(cur[2])
            cur = cur[1]
        ty = nm.self_ty
        ok = True
        for x in reversed(steps):
            if ty is None or ty["k"] != "adt" or not ty["variants"] or not isinstance(x, int) or x >= len(ty["variants"][0]["fields"]):
                ok = False
                break
            ty = F.types[ty["variants"][0]["fields"][x]["ty"]]
        if ok and ty and ty["k"] == "adt" and idx < len(ty["variants"]):
            out[fp] = ty["variants"][idx]["name"]
    return out


def parse_goto(outcome):
    """'goto NODE {a: expr, b: expr}' -> (NODE, {a: expr, ..})"""
    m_ = re.match(r"goto\s+(\w+)\s*(\{(.*)\})?\s*$", outcome)
    node = m_.group(1)
    upd = {}
    body = m_.group(3) or ""
    depth, cur, parts = 0, "", []
    for ch in body:
        if ch in "([":
            depth += 1
        elif ch in ")]":
            depth -= 1
        if ch == "," and depth == 0:
            parts.append(cur)
            cur = ""
        else:
            cur += ch
    if cur.strip():
        parts.append(cur)
    for part in parts:
        k_, v_ = part.split(":", 1)
        upd[k_.strip()] = v_.strip()
    return node, upd


def ts_eval(lists, nodes, start, assign, let):
    """First-match evaluation from list `start`; gotos into non-cut lists are followed, a goto into a cut node ends the segment."""
    name = start
    first = True
    for _ in range(30):
        for a_i, outcome in lists[name]:
            if a_i is None or assign[a_i]:
                if outcome.startswith("return "):
                    return ("return", frozenset(subst_let(alt.strip(), let) for alt in outcome[len("return "):].split(" || ")))
                node, upd = parse_goto(outcome)
                if node in nodes:
                    return ("cut", node, {k_: subst_let(v_, let) for k_, v_ in upd.items()})
                name = node
                break
        else:
            return None
        first = False
    return None


def spec_paths(lists, nodes, start, let, limit=20000):
    """All paths of the first-match decision lists from `start` to a terminal outcome: [(literals {atom: truth}, outcome)], outcome as in ts_eval."""
    out = []

    def rec(name, lits, depth):
        if len(out) > limit or depth > 60:
            return
        acc = dict(lits)
        for a_i, outcome in lists[name]:
            cur = dict(acc)
            if a_i is not None:
                if cur.get(a_i) is False:
                    continue            # already known false on this path
                known_true = cur.get(a_i) is True
                cur[a_i] = True
            else:
                known_true = True
            if outcome.startswith("return "):
                out.append((cur, ("return", frozenset(subst_let(alt.strip(), let) for alt in outcome[len("return "):].split(" || ")))))
            elif outcome == "unspecified":
                out.append((cur, ("unspecified",)))
            elif outcome == "continue":
                out.append((cur, ("continue",)))
            else:
                node, upd = parse_goto(outcome)
                if node in nodes:
                    out.append((cur, ("cut", node, {k_: subst_let(v_, let) for k_, v_ in upd.items()})))
                else:
                    rec(node, cur, depth + 1)
            if a_i is None or known_true:
                return
            acc[a_i] = False
    rec(start, {}, 0)
    return out


def build_ts_jobs(chk, F, inst, spec, key, where, jobs, ctx):
    summ = algsum.summarize_ts(F, inst)
    nodes = spec["nodes"]                     # ordered {name: [state variables]} — one per cut point, in block order
    names = list(nodes)
    c = {"kind": "ts", "spec": spec, "where": where, "summ": summ, "undecided": [], "atoms": {}, "rets": {}, "upds": {}, "problems": [], "let": spec.get("let", {})}
    ctx[key] = c
    if len(summ["cuts"]) != len(names):
        c["problems"].append("the implementation has %d loop(s), the reference %d" % (len(summ["cuts"]) - 1, len(names) - 1))
        return
    cutname = dict(zip(summ["cuts"], names))
    c["cutname"] = cutname
    paths = [p for p in summ["paths"] if not _is_try_break(p) and not _contradictory(p)]
    # parts of the function the reference does not describe: whole cut points, or paths under a given enum variant
    nm0 = Namer(F, inst, spec, [])
    skipn = set(spec.get("unspecified_nodes", []))
    skipv = spec.get("skip_variants", {})
    kept = []
    for p in paths:
        if cutname.get(p.get("start")) in skipn:
            continue
        pv = path_variants(nm0, F, p)
        if any(pv.get(place) in names_ for place, names_ in skipv.items()):
            continue
        kept.append(p)
    paths = kept
    c["paths"] = paths
    draws = collect_draws({"atoms": [summ["atoms"][i] for i in used_atoms(paths)],
                           "paths": [{"outcome": ("return", tuple(p["outcome"][2].values())) if p["outcome"][0] == "goto" else p["outcome"], "lits": p["lits"]} for p in paths]})
    nm = Namer(F, inst, spec, draws)
    if nm.unnamed or nm.missing:
        c["problems"].append("the draws differ from the reference: implementation draws %s, reference draws %s" % ([d[0] for d in draws], [k for k, _ in spec.get("draws", [])]))
        return
    let = c["let"]
    c["spec_atoms"], c["lists"] = compile_rules(spec["rules"], let)
    # all spec outcomes
    rets, upd_forms = set(), {}
    c["nm"] = nm
    c["F"] = F
    for lst in c["lists"].values():
        for _, o in lst:
            if o == "unspecified":
                continue
            if o.startswith("return "):
                rets |= {subst_let(alt.strip(), let) for alt in o[len("return "):].split(" || ")}
            else:
                node, upd = parse_goto(o)
                if node in nodes:
                    for v_ in nodes[node]:
                        upd_forms.setdefault((node, v_), set()).add(subst_let(upd.get(v_, v_), let))
    c["spec_rets"] = sorted(rets)
    c["upd_forms"] = {k_: sorted(v_) for k_, v_ in upd_forms.items()}
    for i in used_atoms(paths):
        kind, a, b2, strict = summ["atoms"][i]
        try:
            if kind.startswith("call:"):
                arg = nm.sym(a)
                cands = [k for k, sa in enumerate(c["spec_atoms"]) if sa[0] == kind]
                if not cands:
                    c["problems"].append("the implementation tests %s(%s), the reference does not" % (kind[5:], arg))
                    continue
                jid = "%s|atom|%d" % (key, i)
                jobs.append({"id": jid, "symbols": spec["symbols"], "term": arg, "accepted": [c["spec_atoms"][k][1] for k in cands], "relative": True})
                if len(c["spec_atoms"]) > 14:
                    jobs[-1]["variant_of"] = 0
                c["atoms"][i] = (jid, "eq", "%s(%s)" % (kind[5:], arg), [(k, False) for k in cands])
                continue
            if kind == "flag":
                name = nm.sym(a)
                cands = [k for k, sa in enumerate(c["spec_atoms"]) if sa[0] == "flag" and sa[1] == name]
                if cands:
                    c["atoms"][i] = (None, kind, name, (cands[0], False))
                else:
                    c["problems"].append("the implementation branches on the flag `%s`, the reference does not" % name)
                continue
            sa_, sb_ = nm.sym(a), nm.sym(b2)
        except NoForm as e:
            c["undecided"].append("comparison %d: %s" % (i, e))
            continue
        want_kind = "eq" if kind == "eq" else "lt"
        accepted, back = [], []
        # same orientation first: `m < y` and `y < m` are different tests when equality has positive probability (integers)
        for k, (k2, xa, xb) in enumerate(c["spec_atoms"]):
            if k2 == want_kind:
                accepted.append("(%s) - (%s)" % (xa, xb))
                back.append((k, False))
        for k, (k2, xa, xb) in enumerate(c["spec_atoms"]):
            if k2 == want_kind:
                accepted.append("(%s) - (%s)" % (xb, xa))
                back.append((k, True))
        dterm = "(%s) - (%s)" % (sa_, sb_)
        if want_kind == "lt" and summ.get("atom_int", [False] * (i + 1))[i]:
            # integers: strictness is part of the test (`x <= k` is `x < k + 1`)
            accepted, back = int_forms(c["spec_atoms"], spec_strictness(spec["rules"], let), want_kind)
            dterm = "(%s) - (%s) - (%d)" % (sa_, sb_, 0 if strict else 1)
        jid = "%s|atom|%d" % (key, i)
        jobs.append({"id": jid, "symbols": spec["symbols"], "term": dterm, "accepted": accepted or ["0*0 + 123456789"], "relative": True})
        c["atoms"][i] = (jid, kind, dterm, back)
    for pi_, p in enumerate(paths):
        o = p["outcome"]
        try:
            if o[0] == "return":
                jid = "%s|ret|%d" % (key, pi_)
                jobs.append({"id": jid, "symbols": spec["symbols"], "term": nm.sym(o[1]), "accepted": c["spec_rets"] or ["0*0 + 123456789"], "relative": True})
                c["rets"][pi_] = jid
            elif o[0] == "goto":
                node = cutname.get(o[1])
                upd_i = {nm.rename.get(k_, k_): t_ for k_, t_ in o[2].items()}
                for v_ in nodes.get(node, []):
                    term = nm.sym(upd_i[v_]) if v_ in upd_i else v_
                    forms = c["upd_forms"].get((node, v_), [v_])
                    jid = "%s|upd|%d|%s" % (key, pi_, v_)
                    jobs.append({"id": jid, "symbols": spec["symbols"], "term": term, "accepted": forms, "relative": True, "variant_of": 0})
                    c["upds"][(pi_, v_)] = jid
        except NoForm as e:
            c["undecided"].append("outcome of path %d: %s" % (pi_, e))


def judge_ts(chk, key, c, res):
    spec = c["spec"]
    name = spec["name"]
    if c["problems"]:
        chk.violation("algorithm", key, "%s: %s" % (name, c["problems"][0]), where=c["where"])
        return 1
    summ, paths, nodes, let = c["summ"], c["paths"], spec["nodes"], c["let"]
    und = list(c["undecided"])
    conds = [("flag " + a[1]) if a[0] == "flag" else ("%s is %s" % (a[1], a[2]) if a[0] == "variant" else ("%s(%s)" % (a[0][5:], a[1]) if a[0].startswith("call:") else "%s %s %s" % (a[1], "==" if a[0] == "eq" else "<", a[2]))) for a in c["spec_atoms"]]
    amap = {}
    for i, (jid, kind, dterm, back) in c["atoms"].items():
        if jid is None:
            amap[i] = back
            continue
        v = res[jid]
        if v["verdict"] == "equal":
            amap[i] = back[v["form"]]
        elif v["verdict"] == "different":
            chk.violation("algorithm", key + ":test", "%s decides on `%s %s`, which is not a test of the reference algorithm %s (%s)"
                          % (name, v.get("term"), "== 0" if kind == "eq" else "< 0", [x[:70] for x in conds], v["detail"][:160]), where=c["where"])
            return 1
        else:
            und.append("comparison %d: %s" % (i, v["detail"]))
    # outcome terms
    rform, uform = {}, {}
    for pi_, jid in c["rets"].items():
        v = res[jid]
        if v["verdict"] == "equal":
            rform[pi_] = c["spec_rets"][v["form"]]
        elif v["verdict"] == "different":
            chk.violation("algorithm", key + ":value", "%s returns %s, the reference returns %s (%s)" % (name, v.get("term"), c["spec_rets"], v["detail"][:160]), where=c["where"])
            return 1
        else:
            und.append("returned value: %s" % v["detail"])
    for (pi_, v_), jid in c["upds"].items():
        v = res[jid]
        node = c["cutname"].get(paths[pi_]["outcome"][1])
        forms = c["upd_forms"].get((node, v_), [v_])
        if v["verdict"] == "equal":
            uform[(pi_, v_)] = {forms[k] for k in (v.get("forms") or [v["form"]])}
        elif v["verdict"] == "different":
            chk.violation("algorithm", key + ":update", "%s: on the way to `%s` the variable `%s` becomes %s, the reference has %s (%s)" % (name, node, v_, v.get("term"), forms, v["detail"][:160]), where=c["where"])
            return 1
        else:
            und.append("update of %s: %s" % (v_, v["detail"]))
    if any(p.get("opaque") for p in paths):
        und.append("a branch of the implementation is not a comparison the analysis understands")
    if und:
        chk.unproved_note("algorithm", key, "not decided: " + und[0])
        return 0
    nseg = 0
    for cut, node in c["cutname"].items():
        segs = [(pi_, p) for pi_, p in enumerate(paths) if p.get("start") == cut]
        sps = spec_paths(c["lists"], nodes, node, let)
        for pi_, p in segs:
            ilits = {}
            for lit in p["lits"]:
                if lit is None or lit[0] == "variant" or lit[0] not in amap:
                    continue
                ia, truth = lit
                sa, swapped = amap[ia]
                kind = summ["atoms"][ia][0]
                holds = truth if (kind in ("eq", "flag") or kind.startswith("call:") or not swapped) else not truth
                if ilits.get(sa, holds) != holds:
                    ilits = None
                    break
                ilits[sa] = holds
            if ilits is None:
                continue                # infeasible implementation path
            o = p["outcome"]
            matched = False
            ivars = path_variants(c["nm"], c["F"], p)
            for slits, so in sps:
                if any(ilits.get(a_) is not None and ilits[a_] != t_ for a_, t_ in slits.items()):
                    continue            # not jointly satisfiable
                clash = False
                for a_, t_ in slits.items():
                    sa_ = c["spec_atoms"][a_]
                    if sa_[0] == "variant" and sa_[1] in ivars and (ivars[sa_[1]] == sa_[2]) != t_:
                        clash = True
                if clash:
                    continue
                matched = True
                if so[0] == "unspecified":
                    continue
                same = False
                if o[0] == "return" and so[0] == "return":
                    same = rform.get(pi_) in so[1]
                elif o[0] == "goto" and so[0] == "cut":
                    tgt = c["cutname"].get(o[1])
                    same = tgt == so[1] and all(subst_let(so[2].get(v_, v_), let) in uform.get((pi_, v_), set()) for v_ in nodes[tgt])
                if not same:
                    desc = "; ".join("%s: %s" % (conds[a_][:50], "true" if t_ else "false") for a_, t_ in sorted({**slits, **ilits}.items()))
                    chk.violation("algorithm", key + ":decision", "%s, at `%s`: when %s the reference gives `%s`, the implementation `%s`" % (
                        name, node, desc or "(no test)", so if so[0] != "return" else "return " + " || ".join(sorted(so[1])),
                        ("goto " + str(c["cutname"].get(o[1])) + " " + str({k_: sorted(uform.get((pi_, k_), ["?"]))[0] for k_ in nodes.get(c["cutname"].get(o[1]), [])})) if o[0] == "goto" else rform.get(pi_)), where=c["where"])
                    return 1
            if not matched:
                chk.violation("algorithm", key + ":decision", "%s, at `%s`: an implementation path is consistent with no path of the reference" % (name, node), where=c["where"])
                return 1
            nseg += 1
    chk.ok("algorithm", "%s: %d cut point(s), %d comparison(s) matched, %d segment(s): same successor, same updates of the state variables, same returned terms on every assignment"
           % (key, len(c["cutname"]), len(amap), len(paths)), nontrivial=True)
    return 1


def judge(chk, key, c, res):
    spec = c["spec"]
    name = spec["name"] + (" [%s]" % key.split("|", 1)[1] if "|" in key else "")
    if c["kind"] == "ctor":
        bad, und = [], list(c["undecided"])
        for fname, jid in c["fields"]:
            v = res[jid]
            if v["verdict"] == "different":
                bad.append("field `%s` is %s, the reference has %s (%s)" % (fname, v.get("term"), spec["fields"][fname], v["detail"]))
            elif v["verdict"] != "equal":
                und.append("field %s: %s" % (fname, v["detail"]))
        for f in c.get("missing", []):
            bad.append("field `%s` of the reference does not exist in the struct" % f)
        if bad:
            chk.violation("constructor", key, "%s does not derive the constants of its reference algorithm: %s" % (name, bad[0]), where=c["where"])
            return 1
        if und:
            chk.unproved_note("constructor", key, "not decided: " + und[0])
            return 0
        chk.ok("constructor", key + ": " + ", ".join("%s = %s" % (f, spec["fields"][f]) for f, _ in c["fields"]), nontrivial=True)
        return 1
    if c["problems"]:
        chk.violation("algorithm", key, "%s: %s" % (name, c["problems"][0]), where=c["where"])
        return 1
    summ = c["summ"]
    und = list(c["undecided"])
    conds = [("flag " + a[1]) if a[0] == "flag" else ("%s(%s)" % (a[0][5:], a[1]) if a[0].startswith("call:") else "%s %s %s" % (a[1], "==" if a[0] == "eq" else "<", a[2])) for a in c.get("spec_atoms", [])]
    # A: atom matching
    amap = {}
    aclass = {}         # implementation atom -> every reference test it is identical to (two spellings of one test in the reference are one test)
    for i, (jid, kind, dterm, back) in c["atoms"].items():
        if jid is None:
            amap[i] = back
            continue
        v = res[jid]
        if v["verdict"] == "equal":
            amap[i] = back[v["form"]]
            aclass[i] = [back[f_] for f_ in (v.get("forms") or [v["form"]])]
        elif v["verdict"] == "different":
            chk.violation("algorithm", key + ":test", "%s decides on `%s %s`, which is not a test of the reference algorithm %s (%s)"
                          % (name, v.get("term"), "== 0" if kind == "eq" else "< 0", [x[:70] for x in conds], v["detail"][:160]), where=c["where"])
            return 1
        else:
            und.append("comparison %d: %s" % (i, v["detail"]))
    # paths on which two mutually exclusive tests of the reference both hold are infeasible
    let = c["let"]
    excl = []
    for grp in spec.get("exclusive", []):
        idx = []
        for cond in grp:
            kind_, x_, y_ = parse_rule_cond(cond)
            a_ = (kind_ if kind_ == "eq" else "lt", subst_let(x_, let), subst_let(y_, let))
            if a_ in c["spec_atoms"]:
                idx.append(c["spec_atoms"].index(a_))
        excl.append(idx)
    dead = set()
    for pi_, p in enumerate(summ["paths"]):
        true_atoms = set()
        for lit in p["lits"]:
            if lit and lit[0] != "variant" and lit[0] in amap:
                sa, swapped = amap[lit[0]]
                kind = summ["atoms"][lit[0]][0]
                holds = lit[1] if (kind in ("eq", "flag") or kind.startswith("call:") or not swapped) else not lit[1]
                if holds:
                    true_atoms.add(sa)
        if any(len(true_atoms & set(g)) > 1 for g in excl):
            dead.add(pi_)
        # the same reference test decided both ways on one path (two spellings of one comparison, e.g. 1 - (1 - p) == 1 and p == 1)
        seen_ = {}
        for lit in p["lits"]:
            if lit and lit[0] != "variant" and lit[0] in amap:
                sa, swapped = amap[lit[0]]
                kind = summ["atoms"][lit[0]][0]
                holds = lit[1] if (kind in ("eq", "flag") or kind.startswith("call:") or not swapped) else not lit[1]
                if seen_.get(sa, holds) != holds:
                    dead.add(pi_)
                seen_[sa] = holds
    # C: returned terms
    rmap = {}
    for pi_, (jid, term) in c["rets"].items():
        if pi_ in dead:
            continue
        v = res[jid]
        if v["verdict"] == "equal":
            rmap[pi_] = c["spec_rets"][v["form"]]
        elif v["verdict"] == "different":
            chk.violation("algorithm", key + ":value", "%s returns %s, the reference returns %s (%s)" % (name, v.get("term"), c["spec_rets"], v["detail"][:160]), where=c["where"])
            return 1
        else:
            und.append("returned value: %s" % v["detail"])
    if any(p.get("opaque") for p in summ["paths"]):
        und.append("a branch of the implementation is not a comparison the analysis understands")
    if und:
        chk.unproved_note("algorithm", key, "not decided: " + und[0])
        return 0
    if c.get("variant"):
        have = sorted(v for v in rmap.values() if v is not None)
        wantn = sorted(o[len("return "):] for o in spec["variant_rules"].values())
        if have != wantn:
            chk.violation("algorithm", key, "%s: the variants return %s, the reference %s" % (name, have, wantn), where=c["where"])
        else:
            chk.ok("algorithm", key + ": one path per representation, returning " + " / ".join(have), nontrivial=True)
        return 1
    # B: decision functions over truth assignments of the reference's atoms
    let = c["let"]
    nsa = len(c["spec_atoms"])
    paths = summ["paths"]

    def impl_outcome(assign):
        outs = set()
        for pi_, p in enumerate(paths):
            if pi_ in dead:
                continue
            okp = True
            for lit in p["lits"]:
                if lit is None or lit[0] == "variant":
                    continue
                ia, truth = lit
                if ia not in amap:
                    continue
                sa, swapped = amap[ia]
                kind = summ["atoms"][ia][0]
                val = assign[sa]
                holds = val if (kind in ("eq", "flag") or kind.startswith("call:") or not swapped) else not val
                if holds != truth:
                    okp = False
                    break
            if okp:
                o = p["outcome"]
                outs.add("continue" if o[0] == "continue" else rmap.get(pi_))
        return outs

    excl = []
    for grp in spec.get("exclusive", []):
        idx = []
        for cond in grp:
            kind_, x_, y_ = parse_rule_cond(cond)
            a_ = (kind_ if kind_ == "eq" else "lt", subst_let(x_, let), subst_let(y_, let))
            if a_ in c["spec_atoms"]:
                idx.append(c["spec_atoms"].index(a_))
        excl.append(idx)
    if nsa > 14:
        # too many tests for the truth table: compare path pairs instead (a reference path and an implementation path that can hold together
        # must end the same way; every reference path must have an implementation path) — the same statement, polynomial in the paths
        sps = spec_paths(c["lists"], {}, "main", let)
        npairs = 0
        for slits, sout in sps:
            if any(sum(1 for k in grp if slits.get(k)) > 1 for grp in excl):
                continue
            met = False
            for pi_, p in enumerate(paths):
                if pi_ in dead:
                    continue
                need, okp = {}, True
                for lit in p["lits"]:
                    if lit is None or lit[0] == "variant":
                        continue
                    ia, truth = lit
                    if ia not in amap:
                        continue
                    kind = summ["atoms"][ia][0]
                    for sa, swapped in aclass.get(ia, [amap[ia]]):
                        val = truth if (kind in ("eq", "flag") or kind.startswith("call:") or not swapped) else not truth
                        if need.get(sa, val) != val or slits.get(sa, val) != val:
                            okp = False
                            break
                        need[sa] = val
                    if not okp:
                        break
                if not okp:
                    continue
                joint = dict(slits)
                joint.update(need)
                if any(sum(1 for k in grp if joint.get(k)) > 1 for grp in excl):
                    continue
                met = True
                npairs += 1
                o = p["outcome"]
                io = "continue" if o[0] == "continue" else rmap.get(pi_)
                same = (sout[0] == "continue" and io == "continue") or (sout[0] == "return" and io in sout[1])
                if not same:
                    desc = "; ".join("%s: %s" % (conds[k][:60], "true" if v_ else "false") for k, v_ in sorted(joint.items()))
                    chk.violation("algorithm", key + ":decision", "%s: when %s the reference gives `%s`, the implementation `%s`" % (
                        name, desc or "(no test)", "continue" if sout[0] == "continue" else "return " + " || ".join(sorted(sout[1])), io), where=c["where"])
                    return 1
            if not met:
                desc = "; ".join("%s: %s" % (conds[k][:60], "true" if v_ else "false") for k, v_ in sorted(slits.items()))
                chk.violation("algorithm", key + ":decision", "%s: when %s the reference gives `%s`, the implementation has no path" % (name, desc, sout), where=c["where"])
                return 1
        chk.ok("algorithm", "%s: %d comparison(s) matched, decision function equal on %d compatible path pair(s), %d returned term(s) identical" % (key, len(amap), npairs, len(rmap)), nontrivial=True)
        return 1
    for assign in itertools.product((False, True), repeat=nsa):
        if any(sum(1 for k in grp if assign[k]) > 1 for grp in excl):
            continue            # mutually exclusive tests cannot both hold
        so = spec_eval(c["lists"], assign, let)
        io = impl_outcome(assign)
        same = (io == {so}) if not isinstance(so, frozenset) else (len(io) == 1 and next(iter(io)) in so)
        if not same:
            desc = "; ".join("%s: %s" % (cd[:60], "true" if a_ else "false") for cd, a_ in zip(conds, assign))
            chk.violation("algorithm", key + ":decision", "%s: when %s the reference gives `%s`, the implementation `%s`" % (
                name, desc or "(no test)", so if not isinstance(so, frozenset) else "return " + " || ".join(sorted(so)), sorted(map(str, io))), where=c["where"])
            return 1
    chk.ok("algorithm", "%s: %d comparison(s) matched, decision function equal on %d assignment(s), %d returned term(s) identical" % (key, len(amap), 2 ** nsa, len(rmap)), nontrivial=True)
    return 1
