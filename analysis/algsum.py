"""Algorithm summaries: the decision structure of one function as (atoms, paths, outcomes) over symbolic terms.

A *summary* of a sampler function is the list of its feasible acyclic paths — through the whole function when it has no loop, through
one iteration of its loop otherwise (header to back edge = `continue`, or to a `return`) — where each path carries
  * the comparisons it decided, as literals (atom, truth);  an atom is the normalised difference  lhs - rhs  of a `<`/`<=` test
    (tests written with `>`/`>=` are swapped), an `==` test, or a boolean method call such as `is_infinite`;
  * its outcome: ("continue",) or ("return", term).
Terms come from value numbering (symterm.Terms); RNG draws are opaque symbols named by their distribution and site.
Boolean locals that are assigned constants on the path (drop flags) select their switch edge, so only feasible paths are produced.
"""
from cfgrules import FnInfo
from mirutil import bool_branch_taken, successors
from symterm import Terms, fmt

CMP = {"lt": ("lt", False), "le": ("le", False), "gt": ("lt", True), "ge": ("le", True)}
BOOL_CALLS = {"is_infinite", "is_finite", "is_nan", "is_sign_negative", "is_sign_positive", "is_normal"}


class DrawTerms(Terms):
    """Terms in which an RNG draw is the opaque leaf ('draw', kind, block), closure and tuple literals are kept as
    ('agg', kind, key, operands...) and a call of a closure literal is replaced by the closure's (straight-line) body."""

    def of_operand(self, op, depth=0):
        # a constant array of scalars (`const A: [f64; 10]`, by value or through a promoted reference): ('carray', (v0, v1, ...))
        if op.get("k") == "const" and isinstance(op.get("val"), dict):
            v = op["val"]
            if v.get("k") == "ref" and isinstance(v.get("to"), dict):
                v = v["to"]
            if v.get("k") == "array" and v.get("elems") and all(e.get("k") == "scalar" for e in v["elems"]):
                from mirutil import const_value
                vals = tuple(const_value(self.F, {"k": "const", "ty": e["ty"], "bits": e["bits"]}) for e in v["elems"])
                if all(isinstance(x, (int, float)) and not isinstance(x, bool) for x in vals):
                    return ("carray", vals)
        return Terms.of_operand(self, op, depth)

    MAX_DEPTH = 120
    pvals = None       # local -> term: the value a multiply-defined local has on the path being walked (set by summarize)
    forced = None      # local -> definition to use for it right now

    def of_local(self, l, proj=(), depth=0):
        is_param = l != 0 and l <= self.inst["arg_count"] and not self.body.defs.get(l)
        if self.forced and l in self.forced:
            d = self.forced[l]
        else:
            if self.pvals is not None and l in self.pvals and not is_param:
                from symterm import _apply_projs
                val = self.pvals[l]
                pr = [p for p in proj if p["k"] != "deref"]
                # a field of a tuple / struct literal is the operand it was built from
                while pr and pr[0]["k"] == "field" and isinstance(val, tuple) and val and val[0] == "agg" and isinstance(pr[0].get("i"), int) and 3 + pr[0]["i"] < len(val) \
                        and (val[1] == "tuple" or (str(val[1]).startswith("adt:") and not val[2])):
                    val = val[3 + pr[0]["i"]]
                    pr = pr[1:]
                return _apply_projs(self, val, pr, depth)
            d = self.body.single_def(l) if not is_param else None
        plain = not [p for p in proj if p["k"] != "deref"]
        if d is not None and d[2] == "call":
            kind = draw_kind(self.F, d[3])
            if kind is not None and plain:
                return ("draw", kind, d[0])
            fn = d[3]["func"].get("fn", {})
            rp = fn.get("res_path") or fn.get("path") or ""
            hk = unknown_helper(self.F, fn) if plain and depth < 60 else None
            if hk is not None:
                body = fn_body(self.F, hk, [self.of_operand(a, depth + 1) for a in d[3]["args"]])
                if body is not None:
                    return body
            if plain and fn.get("res_krate", fn.get("krate")) == "rand_distr" and not rp.startswith("<") and not fn.get("trait"):
                # a crate-local associated function: keep its type in the name (`Normal::new` -> Normal_new)
                segs = [x.split("<")[0] for x in rp.split("::") if x and not x.startswith("<")]
                if len(segs) >= 2 and segs[-2][:1].isupper() and not segs[-1].startswith("sample"):
                    return ("call", "%s_%s" % (segs[-2], segs[-1])) + tuple(self.of_operand(a, depth + 1) for a in d[3]["args"])
            if fn.get("method") in ("call", "call_mut", "call_once") and len(d[3]["args"]) == 2 and plain and depth < 20:
                f_ = self.of_operand(d[3]["args"][0], depth + 1)
                a_ = self.of_operand(d[3]["args"][1], depth + 1)
                if f_[0] == "agg" and f_[1] == "closure" and f_[2] and a_[0] == "agg" and a_[1] == "tuple":
                    body = closure_body(self.F, f_[2], list(f_[3:]), list(a_[3:]))
                    if body is not None:
                        return body
        if d is not None and d[2] == "assign" and plain:
            rv = d[3]["rv"]
            if rv["k"] == "aggregate" and rv.get("agg") in ("closure", "tuple"):
                return ("agg", rv["agg"], rv.get("key")) + tuple(self.of_operand(o, depth + 1) for o in rv.get("ops", []))
            if rv["k"] == "aggregate" and rv.get("agg") == "adt":
                return ("agg", "adt:" + str(rv.get("path", "?")).rsplit("::", 1)[-1], rv.get("variant_name")) + tuple(self.of_operand(o, depth + 1) for o in rv.get("ops", []))
        if self.forced and l in self.forced:
            # evaluate this particular definition: Terms.of_local looks the definition up through body.single_def
            orig = self.body.single_def
            dd = self.forced.pop(l)
            self.body.single_def = lambda x, _o=orig, _l=l, _d=dd: _d if x == _l else _o(x)
            try:
                return Terms.of_local(self, l, proj, depth)
            finally:
                self.body.single_def = orig
        return Terms.of_local(self, l, proj, depth)


def closure_body(F, key, caps, args):
    """The value a straight-line closure returns, with its captures and arguments substituted."""
    inst = F.by_key.get(key)
    if inst is None or not inst.get("full"):
        return None
    T = DrawTerms(F, inst)
    if FnInfo(F, inst).loops:
        return None
    rets = [d for d in T.body.defs.get(0, [])]
    if len(rets) != 1:
        return None
    t = T.of_local(0)
    names = {i: (inst["locals"][i].get("name") or "_%d" % i) for i in range(1, inst["arg_count"] + 1)}

    def sub(x):
        if not isinstance(x, tuple):
            return x
        if x[0] == "field" and x[1] == ("var", names.get(1)) and isinstance(x[2], int) and x[2] < len(caps):
            return caps[x[2]]
        if x[0] == "var":
            for i in range(2, inst["arg_count"] + 1):
                if x[1] == names.get(i) and i - 2 < len(args):
                    return args[i - 2]
            return x
        return tuple(sub(y) for y in x)
    return sub(t)


VOCAB = None       # identifiers the reference being compared uses (set by rules_c01.run_specs); None = inline nothing


def fn_body(F, key, args):
    """The value a straight-line crate-local function returns, with its arguments substituted (a helper the reference does not know:
    `fn squeeze_accepts(u, x2) -> bool { u < 1 - 0.0331 * x2 * x2 }` is the comparison it computes)."""
    inst = F.by_key.get(key)
    if inst is None or not inst.get("full") or inst.get("krate") != "rand_distr" or inst.get("closure_of"):
        return None
    if any(b["term"].get("k") == "switch" for b in inst["blocks"] if b.get("term")) or FnInfo(F, inst).loops:
        return None
    T = DrawTerms(F, inst)
    if len(T.body.defs.get(0, [])) != 1:
        return None
    t = T.of_local(0)
    names = {i: (inst["locals"][i].get("name") or "_%d" % i) for i in range(1, inst["arg_count"] + 1)}
    if len(args) != inst["arg_count"]:
        return None

    def has_draw(x):
        return isinstance(x, tuple) and (x[:1] == ("draw",) or any(has_draw(y) for y in x))
    if has_draw(t):
        return None

    def sub(x):
        if not isinstance(x, tuple):
            return x
        if x[0] == "var":
            for i in range(1, inst["arg_count"] + 1):
                if x[1] == names.get(i):
                    return args[i - 1]
            return x
        return tuple(sub(y) for y in x)
    return sub(t)


def unknown_helper(F, fn):
    """Key of the crate-local function a call resolves to, if the reference's vocabulary does not mention it."""
    if VOCAB is None or fn.get("res_krate", fn.get("krate")) != "rand_distr" or fn.get("trait"):
        return None
    key = fn.get("key")
    rp = fn.get("res_path") or fn.get("path") or ""
    segs = [x.split("<")[0] for x in rp.split("::") if x and not x.startswith("<")]
    if not key or not segs:
        return None
    cands = {segs[-1]}
    if len(segs) >= 2:
        cands.add("%s_%s" % (segs[-2], segs[-1]))
    if cands & VOCAB:
        return None
    return key


def draw_kind(F, t):
    """Name of the distribution a call terminator draws from, or None if it is not a draw."""
    fn = t["func"].get("fn", {})
    tr, m = fn.get("trait") or "", fn.get("method") or ""
    ds = fn.get("dist_sample") or {}
    if ds:
        p = ds.get("res_path") or ds.get("key") or ds.get("shown") or ""
        return _dist_name(p)
    if fn.get("res") == "unresolved" and (tr.startswith("rand::Rng") or tr.startswith("rand::TryRng")):
        if m == "random":
            return "StandardUniform"
        if m in ("next_u32", "next_u64", "random_range", "random_bool"):
            return m
    if m == "sample" and tr.endswith("::Distribution"):
        p = fn.get("res_path") or fn.get("path") or ""
        if fn.get("res_krate") == "rand" or p.startswith("<rand::"):
            return _dist_name(p)
        # `Exp1.sample(rng)` / `StandardNormal.sample(rng)`: the crate's own primitive (unit-struct) distributions called directly
        if fn.get("res_krate") == "rand_distr" and _dist_name(p) in ("Exp1", "StandardNormal"):
            return _dist_name(p)
    return None


def _dist_name(p):
    # "<normal::StandardNormal as rand::distr::Distribution<f64>>::sample" -> "StandardNormal"
    # "rand::distr::float::<impl rand::distr::Distribution<f64> for rand::distr::StandardUniform>::sample" -> "StandardUniform"
    import re as _re
    m_ = _re.search(r" for ([\w:]+)", p)
    if m_:
        return m_.group(1).rsplit("::", 1)[-1]
    s = p
    if s.startswith("<"):
        s = s[1:].split(" as ")[0]
    s = s.split("<")[0]
    return s.rsplit("::", 1)[-1]


def carried_names(F, inst, multi=None):
    """Source names of the named loop-carried (multiply assigned) locals, in declaration order."""
    if multi is None:
        T = DrawTerms(F, inst)
        multi = {l for l, ds in T.body.defs.items() if len([d for d in ds if d[2] in ("assign", "call")]) > 1 and l != 0}
    return [inst["locals"][l]["name"] for l in sorted(multi) if inst["locals"][l].get("name")]


def summarize_ts(F, inst, max_paths=600):
    """Transition-system summary: the function is cut at its entry and at every loop header; a *segment* is a feasible acyclic path from
    one cut point to the next cut point (or to `return`).  At a loop-header cut every multiply-assigned local is a symbolic variable
    (its name), so a segment's `updates` are the new values of the loop-carried variables in terms of the old ones."""
    base = summarize(F, inst, max_paths, ts=True)
    return base


def summarize(F, inst, max_paths=400, ts=False):
    T = DrawTerms(F, inst)
    fi = FnInfo(F, inst)
    blocks = inst["blocks"]
    loops = fi.loops
    headers = {h for h, _, _ in loops}
    header = min(headers) if headers else None
    multi = {l for l, ds in T.body.defs.items() if len([d for d in ds if d[2] in ("assign", "call")]) > 1 and l != 0}
    T.pvals = {}
    lname = {}
    used = {}
    cnt = {}
    import frozen
    ren = frozen.carried(inst, carried_names(F, inst, multi))
    for l in sorted(multi):
        nm_ = inst["locals"][l].get("name") or "_%d" % l
        nm_ = ren.get(nm_, nm_)          # a renamed loop variable stands for the name the reference uses (frozen.py)
        if nm_ in used:
            # a second loop-carried local of the same source name: numbered by order of declaration (not by its MIR index, which moves with unrelated edits)
            cnt[nm_] = cnt.get(nm_, 1) + 1
            nm_ = "%s__%d" % (nm_, cnt[nm_])
        used[nm_] = l
        lname[l] = nm_
    segments = []
    atoms = []          # (kind, lhs term, rhs term)  kind in lt/le/eq/call:<name>/variant
    paths = []
    notes = []

    atom_int = []       # per atom: both operands are integers (strictness then matters: `x <= k` is `x < k + 1`)

    def op_is_int(op):
        ty = None
        if op.get("k") == "const":
            ty = op.get("ty")
        elif not op.get("p"):
            ty = inst["locals"][op["l"]]["ty"]
        for _ in range(3):
            if ty is None:
                return False
            t_ = F.types[ty]
            if t_["k"] == "ref":
                ty = t_["to"]
                continue
            return t_["k"] == "int"
        return False

    def atom_id(kind, a, b2, ints=False):
        key = (kind if (kind not in ("lt", "le") or ints) else "lt", a, b2)
        for i, (k0, a0, b0, strict) in enumerate(atoms):
            if (k0 if (k0 not in ("lt", "le") or atom_int[i]) else "lt", a0, b0) == key and atom_int[i] == ints:
                return i
        atoms.append((kind, a, b2, kind == "lt"))
        atom_int.append(ints)
        return len(atoms) - 1

    def ret_term(path_blocks):
        last = None
        for bi in path_blocks:
            b = blocks[bi]
            for s in b["stmts"]:
                if s["k"] == "assign" and s["place"]["l"] == 0 and not s["place"]["p"]:
                    rv = s["rv"]
                    if rv["k"] == "use":
                        last = T.of_operand(rv["op"])
                    elif rv["k"] == "aggregate":
                        kind_ = "adt:" + str(rv.get("path", "?")).rsplit("::", 1)[-1] if rv.get("agg") == "adt" else rv.get("agg")
                        last = ("agg", kind_, rv.get("variant_name") if rv.get("agg") == "adt" else rv.get("key")) + tuple(T.of_operand(o) for o in rv.get("ops", []))
                    elif rv["k"] == "cast":
                        last = T.of_operand(rv["op"])           # numeric casts are transparent in the terms
                    elif rv["k"] == "binop":
                        from symterm import BIN
                        last = (BIN.get(rv["op"], rv["op"]), T.of_operand(rv["a"]), T.of_operand(rv["b"]))
                    else:
                        last = ("rv", rv["k"], 0)
            t = b["term"]
            if t and t["k"] == "call" and t["dest"]["l"] == 0 and not t["dest"]["p"]:
                kind = draw_kind(F, t)
                if kind is not None:
                    last = ("draw", kind, bi)
                else:
                    fn = t["func"].get("fn", {})
                    name = fn.get("method") or (fn.get("res_path") or fn.get("path") or "?").rsplit("::", 1)[-1]
                    last = ("call", name) + tuple(T.of_operand(a) for a in t["args"])
                    if name in ("call", "call_mut", "call_once") and len(t["args"]) == 2:
                        f_, a_ = last[2], last[3]
                        if f_[0] == "agg" and f_[1] == "closure" and f_[2] and a_[0] == "agg" and a_[1] == "tuple":
                            body = closure_body(F, f_[2], list(f_[3:]), list(a_[3:]))
                            if body is not None:
                                last = body
        return last

    def walk(bi, seen, flags, lits, trail, started, opaque=0, pvals=None, bdefs=None):
        if len(paths) >= max_paths:
            return
        b = blocks[bi]
        flags = dict(flags)
        pvals = dict(pvals or {})
        bdefs = dict(bdefs or {})
        T.pvals = pvals
        for si, s in enumerate(b["stmts"]):
            if s["k"] == "assign" and not s["place"]["p"]:
                rv = s["rv"]
                l_ = s["place"]["l"]
                if rv["k"] == "use" and rv["op"].get("k") == "const" and rv["op"].get("bits") is not None and F.types[rv["op"]["ty"]]["k"] == "bool":
                    flags[l_] = int(rv["op"]["bits"], 16)
                else:
                    flags.pop(l_, None)
                if l_ in multi and F.types[inst["locals"][l_]["ty"]]["k"] == "bool" and not (rv["k"] == "use" and rv["op"].get("k") == "const"):
                    bdefs[l_] = (bi, si, "assign", s)          # a boolean computed on this path (`a && b` lowered to a temporary)
                elif l_ in bdefs:
                    bdefs.pop(l_)
                if l_ in multi:
                    T.forced = {l_: (bi, si, "assign", s)}
                    try:
                        val = T.of_local(l_)
                    finally:
                        T.forced = None
                    pvals[l_] = val
        t = b["term"]
        if t["k"] == "call" and not t["dest"]["p"] and t["dest"]["l"] in multi and F.types[inst["locals"][t["dest"]["l"]]["ty"]]["k"] == "bool":
            bdefs[t["dest"]["l"]] = (bi, "term", "call", t)
            flags.pop(t["dest"]["l"], None)
        if t["k"] == "call" and not t["dest"]["p"] and t["dest"]["l"] in multi:
            l_ = t["dest"]["l"]
            T.forced = {l_: (bi, "term", "call", t)}
            try:
                val = T.of_local(l_)
            finally:
                T.forced = None
            pvals[l_] = val
        trail = trail + [bi]
        if t["k"] == "return":
            paths.append({"lits": lits, "outcome": ("return", ret_term(trail)), "blocks": trail, "opaque": opaque})
            return
        outs = []
        if t["k"] == "switch":
            dl = t["discr"].get("l") if t["discr"].get("k") in ("copy", "move") and not t["discr"]["p"] else None
            if dl is not None and dl in flags:
                outs = [(s_, None) for s_ in successors(t) if bool_branch_taken(t, s_) == bool(flags[dl])]
            else:
                d = (bdefs.get(dl) or T.body.single_def(dl)) if dl is not None else None
                # a boolean kept in a named local first (`let ok = a < b; if ok || ..`): follow plain copies and `!`
                negate = False
                for _ in range(6):
                    if d is not None and d[2] == "assign":
                        rv0 = d[3]["rv"]
                        if rv0["k"] == "use" and rv0["op"].get("k") in ("copy", "move") and not rv0["op"]["p"]:
                            dl = rv0["op"]["l"]
                            d = bdefs.get(dl) or T.body.single_def(dl)
                            continue
                        if rv0["k"] == "unop" and rv0["op"] == "Not" and rv0["a"].get("k") in ("copy", "move") and not rv0["a"]["p"]:
                            negate = not negate
                            d = T.body.single_def(rv0["a"]["l"])
                            continue
                    break
                lit = None
                if d is None and dl is not None and 0 < dl <= inst["arg_count"] and F.types[inst["locals"][dl]["ty"]]["k"] == "bool":
                    lit = ("cmp", atom_id("flag", T.var(dl), ("const", 1)))           # a boolean parameter
                if d is not None and d[2] == "assign" and d[3]["rv"]["k"] == "use" and d[3]["rv"]["op"].get("k") in ("copy", "move") and not d[3]["rv"]["op"]["p"] \
                        and 0 < d[3]["rv"]["op"]["l"] <= inst["arg_count"] and F.types[inst["locals"][d[3]["rv"]["op"]["l"]]["ty"]]["k"] == "bool":
                    lit = ("cmp", atom_id("flag", T.var(d[3]["rv"]["op"]["l"]), ("const", 1)))
                if d is not None and d[2] == "assign" and d[3]["rv"]["k"] == "use" and d[3]["rv"]["op"].get("k") in ("copy", "move") and d[3]["rv"]["op"]["p"] \
                        and F.types[inst["locals"][d[3]["place"]["l"]]["ty"]]["k"] == "bool":
                    lit = ("cmp", atom_id("flag", T.of_operand(d[3]["rv"]["op"]), ("const", 1)))
                if d is not None and d[2] == "call":
                    fn = d[3]["func"].get("fn", {})
                    m = fn.get("method") or (fn.get("res_path") or fn.get("path") or "").rsplit("::", 1)[-1]
                    trn = fn.get("trait") or ""
                    if m in CMP and trn.startswith("core::cmp::Partial") and len(d[3]["args"]) == 2:
                        kind, swap = CMP[m]
                        a, b2 = T.of_operand(d[3]["args"][0]), T.of_operand(d[3]["args"][1])
                        if swap:
                            a, b2 = b2, a
                        lit = ("cmp", atom_id(kind, a, b2, op_is_int(d[3]["args"][0]) and op_is_int(d[3]["args"][1])))
                    elif m in ("eq", "ne") and trn.startswith("core::cmp::Partial") and len(d[3]["args"]) == 2:
                        a, b2 = T.of_operand(d[3]["args"][0]), T.of_operand(d[3]["args"][1])
                        lit = ("eq" if m == "eq" else "ne", atom_id("eq", a, b2))
                    elif m in BOOL_CALLS and d[3]["args"]:
                        lit = ("cmp", atom_id("call:" + m, T.of_operand(d[3]["args"][0]), ("const", 0)))
                    elif unknown_helper(F, fn) is not None:
                        # a boolean helper the reference does not know: the comparison it computes
                        bt = fn_body(F, unknown_helper(F, fn), [T.of_operand(a_) for a_ in d[3]["args"]])
                        for _ in range(4):
                            if isinstance(bt, tuple) and bt[:2] == ("call", "not") and len(bt) == 3:
                                negate = not negate
                                bt = bt[2]
                        if isinstance(bt, tuple) and bt[0] == "call" and len(bt) == 4 and (str(bt[1]).startswith("cmp_") or bt[1] in CMP or bt[1] in ("eq", "ne")):
                            op_ = bt[1][4:] if str(bt[1]).startswith("cmp_") else bt[1]
                            if op_ in CMP:
                                kind, swap = CMP[op_]
                                a, b2 = bt[2], bt[3]
                                if swap:
                                    a, b2 = b2, a
                                lit = ("cmp", atom_id(kind, a, b2))
                            elif op_ in ("eq", "ne"):
                                lit = ("eq" if op_ == "eq" else "ne", atom_id("eq", bt[2], bt[3]))
                elif d is not None and d[2] == "assign":
                    rv = d[3]["rv"]
                    if rv["k"] == "binop" and rv["op"].lower() in CMP:
                        kind, swap = CMP[rv["op"].lower()]
                        a, b2 = T.of_operand(rv["a"]), T.of_operand(rv["b"])
                        if swap:
                            a, b2 = b2, a
                        lit = ("cmp", atom_id(kind, a, b2, op_is_int(rv["a"]) and op_is_int(rv["b"])))
                    elif rv["k"] == "binop" and rv["op"] in ("Eq", "Ne"):
                        lit = ("eq" if rv["op"] == "Eq" else "ne", atom_id("eq", T.of_operand(rv["a"]), T.of_operand(rv["b"])))
                    elif rv["k"] == "discriminant":
                        pl = rv["place"]
                        lit = ("variant", T.of_local(pl["l"], pl["p"]))
                ordering = lit is not None and lit[0] == "variant" and isinstance(lit[1], tuple) and lit[1][:2] == ("call", "cmp") and len(lit[1]) == 4
                if ordering:
                    # `match a.cmp(&b)`: Less / Equal / Greater as two comparison atoms
                    a_lt_b = atom_id("lt", lit[1][2], lit[1][3])
                    b_lt_a = atom_id("lt", lit[1][3], lit[1][2])
                    listed = {}
                    for v, tg in t["targets"]:
                        iv = int(v, 16) if isinstance(v, str) else v
                        if iv >= 128:
                            iv -= 256
                        listed[iv] = tg
                    names_ = {-1: [(a_lt_b, True)], 0: [(a_lt_b, False), (b_lt_a, False)], 1: [(a_lt_b, False), (b_lt_a, True)]}
                    for iv, tg in listed.items():
                        if iv in names_:
                            outs.append((tg, list(names_[iv])))
                    rest = [iv for iv in names_ if iv not in listed]
                    if len(rest) == 1:
                        outs.append((t["otherwise"], list(names_[rest[0]])))
                    elif t["otherwise"] not in fi.diverging:
                        outs.append((t["otherwise"], None))
                for s_ in ([] if ordering else successors(t)):
                    if lit is None:
                        outs.append((s_, None))
                    elif lit[0] == "variant":
                        vals = [int(v, 16) if isinstance(v, str) else v for v, tg in t["targets"] if tg == s_]
                        outs.append((s_, ("variant", lit[1], vals[0] if vals else "otherwise")))
                    else:
                        taken = bool_branch_taken(t, s_)
                        if lit[0] == "ne":
                            taken = not taken
                        if negate:
                            taken = not taken
                        outs.append((s_, (lit[1], taken)))
        else:
            outs = [(s_, None) for s_ in successors(t)]
        live = [(nxt, lit) for nxt, lit in outs if nxt not in fi.diverging]
        if len(live) == 1 and len(outs) > 1 and live[0][1] is not None and not isinstance(live[0][1], list) and live[0][1][0] != "variant":
            live = [(live[0][0], None)]          # an assertion (`debug_assert!`, overflow check): the other edge only panics
        # a branch that could not be turned into a literal (and is not a panic edge): the paths through it are not fully described
        op2 = opaque + (1 if len(live) > 1 and all(lit is None for _, lit in live) else 0)
        if op2 > opaque:
            notes.append("opaque branch at block %d (%s)" % (bi, (t.get("span") or {}).get("line")))
        for nxt, lit in live:
            l2 = lits + (lit if isinstance(lit, list) else [lit]) if lit is not None else lits
            if ts and nxt in headers:
                upd = {lname[l_]: v_ for l_, v_ in pvals.items() if l_ in multi and v_ != ("var", lname[l_])}
                paths.append({"lits": l2, "outcome": ("goto", nxt, upd), "blocks": trail, "opaque": op2})
                continue
            if nxt in seen:
                if nxt in headers:
                    paths.append({"lits": l2, "outcome": ("continue",), "blocks": trail, "opaque": op2})
                continue
            walk(nxt, seen | {nxt}, flags, l2, trail, True, op2, pvals, bdefs)
            T.pvals = pvals

    import sys
    sys.setrecursionlimit(max(20000, sys.getrecursionlimit()))
    if not ts:
        walk(0, {0}, {}, [], [], True)
    else:
        for cut in [0] + sorted(headers):
            before = len(paths)
            init = {} if cut == 0 else {l_: ("var", lname[l_]) for l_ in multi}
            walk(cut, {cut}, {}, [], [], True, 0, init)
            for p_ in paths[before:]:
                p_["start"] = cut
    T.pvals = None
    if len(paths) >= max_paths:
        notes.append("path limit reached")
    return {"atoms": atoms, "atom_int": atom_int, "paths": paths, "terms": T, "loop": bool(headers), "notes": notes, "cuts": [0] + sorted(headers), "names": lname}


def describe(summary):
    out = []
    for i, (k, a, b2, strict) in enumerate(summary["atoms"]):
        out.append("atom %d: %s  %s  |  %s" % (i, k, fmt(a)[:160], fmt(b2)[:120]))
    for p in summary["paths"]:
        o = p["outcome"]
        if o[0] == "goto":
            out.append("seg %s: %s -> goto %s {%s}" % (p.get("start"), [l for l in p["lits"]], o[1], ", ".join("%s: %s" % (k, fmt(v)[:90]) for k, v in sorted(o[2].items()))))
        else:
            out.append("path %s%s -> %s %s" % ("" if "start" not in p else "(from %s) " % p["start"], [l for l in p["lits"]], o[0], fmt(o[1])[:200] if len(o) > 1 and isinstance(o[1], tuple) else ""))
    return "\n".join(out)
