"""Oracle of C04: the documented parameter domain of every public constructor, transcribed from the doc comments of the
error variants and constructors (quoted next to each row).  `expect(case)` returns the set of allowed outcomes
('Ok' or an error variant name) for a case, or None where the documentation is silent or self-contradictory
(unspecified: not judged, except that a panic is never allowed).

A case maps each argument name to a Cell (see rules_c04.Cell): predicates nan/pinf/ninf/zero/neg/pos and comparisons
against constants that are cut points of the partition (hence decided for the whole cell).
"""


from fractions import Fraction


def le0(c):          # `x <= 0` (either zero, negative, -inf); NaN excluded
    return c.ninf or c.neg or c.zero


def not_pos(c):      # `x <= 0` or nan
    return le0(c) or c.nan


def nonfinite(c):
    return c.nan or c.pinf or c.ninf


def _skip():
    from rules_c04 import Undecided
    raise Undecided()


TINY = (Fraction(2) ** -1074, Fraction(2) ** -149)


def half_not_pos(c):
    """`0.5 * x <= 0` or nan, as documented for the degrees-of-freedom parameters: true also for the smallest subnormal (0.5 * x rounds to 0)"""
    return not_pos(c) or (c.point and c.lo in TINY)


def errs(*pairs):
    """allowed = every variant whose documented condition holds; Ok iff none holds"""
    s = {name for cond, name in pairs if cond}
    return s or {"Ok"}


# Each entry: path (generic), args [(name, kind)], optional cuts {arg: [constants]}, expect(case), doc (quoted source)
def _normal_new(c):
    # "standard deviation (σ, must be finite)"; BadVariance: "The standard deviation or other dispersion parameter is not finite."
    return errs((nonfinite(c["std_dev"]), "BadVariance"))


def _normal_cv(c):
    # "coefficient of variation (cv = abs(σ / μ))" -> cv < 0 is not a coefficient of variation; BadVariance: not finite
    if nonfinite(c["mean"]) and not nonfinite(c["cv"]) and not c["cv"].neg:
        return None   # docs: mean unrestricted; cv*mean with infinite mean is not discussed
    return errs((nonfinite(c["cv"]) or c["cv"].neg, "BadVariance"))


def _lognormal_new(c):
    return errs((nonfinite(c["sigma"]), "BadVariance"))


def _lognormal_cv(c):
    # "mean (μ > 0)", "cv = σ / μ, requiring cv ≥ 0", "As a special exception, μ = 0, cv = 0 is allowed"
    m, cv = c["mean"], c["cv"]
    if m.zero and cv.zero:
        return {"Ok"}
    if m.pinf:
        return None
    if cv.pos and cv.lo is not None and cv.lo >= Fraction(10) ** 18:
        return None    # cv * cv overflows: outside the range where the docs promise anything
    if cv.pinf and m.pos:
        return {"BadVariance", "Ok"} if False else None   # docs: cv >= 0 only; infinite cv not discussed
    return errs((not_pos(m), "MeanTooSmall"), (cv.neg or cv.ninf or cv.nan, "BadVariance"))


def _exp_new(c):
    # LambdaTooSmall: "`lambda < 0` or is `-0.0` is `nan`."
    l = c["lambda"]
    return errs((l.neg or l.ninf or l.nzero or l.nan, "LambdaTooSmall"))


def _gamma_new(c):
    # ShapeTooSmall: "`shape <= 0` or `nan`."  ScaleTooSmall: "`scale <= 0` or `nan`."  ScaleTooLarge: "`1 / scale == 0`" (never produced)
    if (c["shape"].pinf or c["scale"].pinf) and not (not_pos(c["shape"]) or not_pos(c["scale"])):
        return None
    return errs((not_pos(c["shape"]), "ShapeTooSmall"), (not_pos(c["scale"]), "ScaleTooSmall"))


def _chi_new(c):
    # DoFTooSmall: "`0.5 * k <= 0` or `nan`."
    return errs((half_not_pos(c["k"]), "DoFTooSmall"))


def _student_new(c):
    return errs((half_not_pos(c["nu"]), "DoFTooSmall"))


def _fisher_new(c):
    return errs((half_not_pos(c["m"]), "MTooSmall"), (half_not_pos(c["n"]), "NTooSmall"))


def _beta_new(c):
    return errs((not_pos(c["alpha"]), "AlphaTooSmall"), (not_pos(c["beta"]), "BetaTooSmall"))


def _cauchy_new(c):
    return errs((not_pos(c["scale"]), "ScaleTooSmall"))


def _scale_shape(c):
    return errs((not_pos(c["scale"]), "ScaleTooSmall"), (not_pos(c["shape"]), "ShapeTooSmall"))


def _gumbel_new(c):
    # LocationNotFinite: "location is infinite or NaN"; ScaleNotPositive: "scale is not finite positive number"
    return errs((nonfinite(c["location"]), "LocationNotFinite"), (nonfinite(c["scale"]) or le0(c["scale"]), "ScaleNotPositive"))


def _frechet_new(c):
    return errs((nonfinite(c["location"]), "LocationNotFinite"), (nonfinite(c["scale"]) or le0(c["scale"]), "ScaleNotPositive"),
                (nonfinite(c["shape"]) or le0(c["shape"]), "ShapeNotPositive"))


def _skew_new(c):
    # ScaleTooSmall: "The scale parameter is not finite or it is less or equal to zero."  BadShape: "The shape parameter is not finite."
    return errs((nonfinite(c["scale"]) or le0(c["scale"]), "ScaleTooSmall"), (nonfinite(c["shape"]), "BadShape"))


def _ig_new(c):
    return errs((not_pos(c["mean"]), "MeanNegativeOrNull"), (not_pos(c["shape"]), "ShapeNegativeOrNull"))


def _nig_new(c):
    # AlphaNegativeOrNull: "`alpha <= 0` or `nan`."  AlphaInfinite: "`alpha` is `inf` ..."  AbsoluteBetaNotLessThanAlpha: "`|beta| >= alpha` or `nan`."
    a, b = c["alpha"], c["beta"]
    conds = [(not_pos(a), "AlphaNegativeOrNull"), (a.pinf, "AlphaInfinite")]
    if b.nan:
        conds.append((True, "AbsoluteBetaNotLessThanAlpha"))
    elif not a.nan:
        r = c.abs_ge("beta", "alpha")
        if r is None:
            return None if (a.pinf or not_pos(a)) else _skip()
        conds.append((r, "AbsoluteBetaNotLessThanAlpha"))
    return errs(*conds)


def _binomial_new(c):
    # ProbabilityTooSmall: "`p < 0` or `nan`."  ProbabilityTooLarge: "`p > 1`."
    p = c["p"]
    return errs((p.neg or p.ninf or p.nan, "ProbabilityTooSmall"), (p.gt(1), "ProbabilityTooLarge"))


def _poisson_new(c):
    # ShapeTooSmall: "`lambda <= 0`"  NonFinite: "`lambda = ∞` or `lambda = nan`"  ShapeTooLarge: "`lambda` is too large, see MAX_LAMBDA"
    l = c["lambda"]
    return errs((le0(l), "ShapeTooSmall"), (l.pinf or l.ninf or l.nan, "NonFinite"), (l.gt(1.844e19) and not l.pinf, "ShapeTooLarge"))


def _geometric_new(c):
    p = c["p"]
    return errs((p.neg or p.ninf or p.nan or p.gt(1), "InvalidProbability"))


def _zeta_new(c):
    s = c["s"]
    return errs((s.nan or s.le(1), "STooSmall"))


def _zipf_new(c):
    # STooSmall: "`s < 0` or `s` is `nan`"  NTooSmall: "`n < 1` or `n` is `nan`"  IllDefined: "`n = inf` and `s <= 1`"
    n, s = c["n"], c["s"]
    return errs((s.neg or s.ninf or s.nan, "STooSmall"), (n.nan or n.lt(1), "NTooSmall"), (n.pinf and not s.nan and s.le(1), "IllDefined"))


def _triangular_new(c):
    # RangeTooSmall: "`max < min` or `min` or `max` is NaN."  ModeRange: "`mode < min` or `mode > max` or `mode` is NaN."
    mn, mx, md = c["min"], c["max"], c["mode"]
    if any(x.pinf or x.ninf for x in (mn, mx, md)):
        return None
    conds = [(mn.nan or mx.nan, "RangeTooSmall"), (md.nan, "ModeRange")]
    if not (mn.nan or mx.nan):
        conds.append((c.lt("max", "min"), "RangeTooSmall"))
    if not md.nan:
        if not mn.nan:
            conds.append((c.lt("mode", "min"), "ModeRange"))
        if not mx.nan:
            conds.append((c.lt("max", "mode"), "ModeRange"))
    return errs(*conds)


def _pert_mode(c):
    # same two variants + ShapeTooSmall: "`shape < 0` or `shape` is NaN"; `max == min`: variant doc says `max < min`, Display says otherwise -> unspecified
    mn, mx, md, sh = c["min"], c["max"], c["mode"], c["shape"]
    if any(x.pinf or x.ninf for x in (mn, mx, md, sh)):
        return None
    if not (mn.nan or mx.nan) and c.eq("max", "min"):
        return None
    conds = [(mn.nan or mx.nan, "RangeTooSmall"), (md.nan, "ModeRange"), (sh.nan or sh.neg, "ShapeTooSmall")]
    if not (mn.nan or mx.nan):
        conds.append((c.lt("max", "min"), "RangeTooSmall"))
    if not md.nan:
        if not mn.nan:
            conds.append((c.lt("mode", "min"), "ModeRange"))
        if not mx.nan:
            conds.append((c.lt("max", "mode"), "ModeRange"))
    return errs(*conds)


def _pert_range_overflow(c, bits):
    """max - min is not representable (both finite): the stored `range` is +inf — a distinct, named corner of the domain."""
    from axioms import F32_MAX, F64_MAX
    mn, mx = c["min"], c["max"]
    fmax = F32_MAX if bits == 32 else F64_MAX
    if mn.lo is None or mx.lo is None or mn.hi is None or mx.hi is None:
        return ""
    return "range-overflow" if mx.lo - mn.hi > fmax else ""


def _hyper_new(c):
    # ProbabilityTooLarge: "`population_with_feature > total_population_size`."  SampleSizeTooLarge: "`sample_size > total_population_size`."
    # PopulationTooLarge: numeric underflow (unspecified when the two documented conditions are false)
    r1 = c.lt("total_population_size", "population_with_feature")
    r2 = c.lt("total_population_size", "sample_size")
    s = set()
    if r1:
        s.add("ProbabilityTooLarge")
    if r2:
        s.add("SampleSizeTooLarge")
    if s:
        return s
    return {"Ok", "PopulationTooLarge"}


def _dirichlet_new(c):
    # "Requires `alpha.len() >= 2`, and each value in `alpha` must be positive, finite and not subnormal."
    # AlphaTooShort: "`alpha.len() < 2`."  AlphaTooSmall: "`alpha <= 0.0` or `nan`."  AlphaSubnormal / AlphaInfinite as named.
    a = c["alpha"]
    if a.len_hi < 2:
        return {"AlphaTooShort"}
    if a.len_lo < 2:
        return None
    # every variant whose documented condition holds for SOME entry is allowed; Ok iff none holds for any entry
    es = a.elems
    return errs((any(not_pos(e) for e in es), "AlphaTooSmall"), (any(e.pinf for e in es), "AlphaInfinite"),
                (any(e.pos and e.lt(a.min_pos) for e in es), "AlphaSubnormal"))


F = "f"
SPEC = [
    dict(path="multi::dirichlet::Dirichlet::<F>::new", args=[("alpha", "slice:f")], expect=_dirichlet_new, cuts={"alpha": ["MIN_POS", 0.1]}),
    dict(path="normal::Normal::<F>::new", args=[("mean", F), ("std_dev", F)], expect=_normal_new),
    dict(path="normal::Normal::<F>::from_mean_cv", args=[("mean", F), ("cv", F)], expect=_normal_cv),
    dict(path="normal::LogNormal::<F>::new", args=[("mu", F), ("sigma", F)], expect=_lognormal_new),
    dict(path="normal::LogNormal::<F>::from_mean_cv", args=[("mean", F), ("cv", F)], expect=_lognormal_cv),
    dict(path="exponential::Exp::<F>::new", args=[("lambda", F)], expect=_exp_new),
    dict(path="gamma::Gamma::<F>::new", args=[("shape", F), ("scale", F)], expect=_gamma_new),
    dict(path="chi_squared::ChiSquared::<F>::new", args=[("k", F)], expect=_chi_new),
    dict(path="student_t::StudentT::<F>::new", args=[("nu", F)], expect=_student_new),
    dict(path="fisher_f::FisherF::<F>::new", args=[("m", F), ("n", F)], expect=_fisher_new),
    dict(path="beta::Beta::<F>::new", args=[("alpha", F), ("beta", F)], expect=_beta_new),
    dict(path="cauchy::Cauchy::<F>::new", args=[("median", F), ("scale", F)], expect=_cauchy_new),
    dict(path="pareto::Pareto::<F>::new", args=[("scale", F), ("shape", F)], expect=_scale_shape),
    dict(path="weibull::Weibull::<F>::new", args=[("scale", F), ("shape", F)], expect=_scale_shape),
    dict(path="gumbel::Gumbel::<F>::new", args=[("location", F), ("scale", F)], expect=_gumbel_new),
    dict(path="frechet::Frechet::<F>::new", args=[("location", F), ("scale", F), ("shape", F)], expect=_frechet_new),
    dict(path="skew_normal::SkewNormal::<F>::new", args=[("location", F), ("scale", F), ("shape", F)], expect=_skew_new),
    dict(path="inverse_gaussian::InverseGaussian::<F>::new", args=[("mean", F), ("shape", F)], expect=_ig_new),
    dict(path="normal_inverse_gaussian::NormalInverseGaussian::<F>::new", args=[("alpha", F), ("beta", F)], expect=_nig_new, ordered=("alpha", "beta")),
    dict(path="binomial::Binomial::new", args=[("n", "u64"), ("p", F)], expect=_binomial_new, cuts={"p": [1.0]}),
    dict(path="poisson::Poisson::<F>::new", args=[("lambda", F)], expect=_poisson_new, cuts={"lambda": [1.844e19]}),
    dict(path="geometric::Geometric::new", args=[("p", F)], expect=_geometric_new, cuts={"p": [1.0]}),
    dict(path="zeta::Zeta::<F>::new", args=[("s", F)], expect=_zeta_new, cuts={"s": [1.0]}),
    dict(path="zipf::Zipf::<F>::new", args=[("n", F), ("s", F)], expect=_zipf_new, cuts={"n": [1.0], "s": [1.0]}),
    dict(path="triangular::Triangular::<F>::new", args=[("min", F), ("max", F), ("mode", F)], expect=_triangular_new, ordered=("min", "max", "mode")),
    dict(path="pert::PertBuilder::<F>::with_mode", quick_consts=1, args=[("min", F), ("max", F), ("shape", F), ("mode", F)], expect=_pert_mode, tag=_pert_range_overflow, ordered=("min", "max", "mode"),
         pipeline=[("pert::Pert::<F>::new", ["min", "max"]), ("pert::PertBuilder::<F>::with_shape", ["$prev", "shape"]), ("pert::PertBuilder::<F>::with_mode", ["$prev", "mode"])]),
    dict(path="pert::PertBuilder::<F>::with_mean", quick_consts=0, args=[("min", F), ("max", F), ("shape", F), ("mean", F)], expect=lambda c: None, ordered=("min", "max", "mean"),
         pipeline=[("pert::Pert::<F>::new", ["min", "max"]), ("pert::PertBuilder::<F>::with_shape", ["$prev", "shape"]), ("pert::PertBuilder::<F>::with_mean", ["$prev", "mean"])]),
    dict(path="hypergeometric::Hypergeometric::new", args=[("total_population_size", "u64"), ("population_with_feature", "u64"), ("sample_size", "u64")],
         expect=_hyper_new, ordered=("total_population_size", "population_with_feature", "sample_size")),
]
