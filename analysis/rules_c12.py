"""C12 — unit-geometry samplers: the algebraic clauses (DESIGN.md 5/C12, 11.6).

Decided for UnitCircle, UnitSphere, UnitDisc, UnitBall x f32/f64, from terms extracted from the MIR of sample() (value numbering,
one symbol per RNG draw *site*) and computer algebra:

  G1  proposals: the only draws are k sites (2, 2, 2, 3) inside the one rejection loop, each `uniform.sample(rng)` of the same
      `Uniform::new(-1, 1)`, so every iteration proposes a fresh point uniform on the square / cube;
  G2  acceptance: the loop has exactly one exit, and it is taken exactly when  x1^2 + .. + xk^2  <  1  (or <= 1): the difference of
      the two compared terms is identically  +-(x1^2 + .. + xk^2 - 1)  and the branch direction matches;
  G3  result: the returned array is, up to the symmetries of the proposal (coordinate permutation, sign flips), the documented map —
      the accepted point itself (disc, ball), von Neumann's ((x1^2-x2^2)/s, 2 x1 x2/s) (circle), Marsaglia's
      (2 x1 sqrt(1-s), 2 x2 sqrt(1-s), 1-2s) (sphere); and, independently of the form, |result|^2 is identically 1 (circle,
      sphere) resp. identically x1^2+..+xk^2 (disc, ball), which the acceptance test bounds by 1.

G1-G3 are the premises of the classical proofs that these maps produce the uniform law on the circle / sphere and that rejection
from the cube is uniform on the ball; breaking any of them changes the law or the norm for a set of streams of positive measure.
Not decided: the rounding error of the norm ("a few ulp"), NaN at the singular proposal (C03), and the theorems themselves (trusted).
"""
CONFIGS_THOROUGH = ["serde", "release"]

import itertools
import json
import os
import subprocess

from cfgrules import FnInfo
from facts import span_str
from mirutil import bool_branch_taken
from symterm import Terms
import rules_c13

HERE = os.path.dirname(os.path.abspath(__file__))

SHAPES = [
    # name, sampler path prefix, dimension of the proposal, documented map over x1..xk (s = sum of squares), |result|^2
    dict(name="UnitCircle", path="<unit_circle::UnitCircle as rand::distr::Distribution", k=2,
         maps=["(x1**2 - x2**2)/(x1**2 + x2**2)", "2*x1*x2/(x1**2 + x2**2)"], norm2="1"),
    dict(name="UnitSphere", path="<unit_sphere::UnitSphere as rand::distr::Distribution", k=2,
         maps=["2*x1*sqrt(1 - (x1**2 + x2**2))", "2*x2*sqrt(1 - (x1**2 + x2**2))", "1 - 2*(x1**2 + x2**2)"], norm2="1"),
    dict(name="UnitDisc", path="<unit_disc::UnitDisc as rand::distr::Distribution", k=2, maps=["x1", "x2"], norm2="x1**2 + x2**2"),
    dict(name="UnitBall", path="<unit_ball::UnitBall as rand::distr::Distribution", k=3, maps=["x1", "x2", "x3"], norm2="x1**2 + x2**2 + x3**2"),
]


def draw_symbol_map(term, acc):
    """Collect the tagged draw calls (sample@<block>) of a term, in order of first appearance."""
    if isinstance(term, tuple):
        if term and term[0] == "call" and isinstance(term[1], str) and term[1].startswith("sample@"):
            if term[1] not in acc:
                acc[term[1]] = term
            return
        for x in term:
            draw_symbol_map(x, acc)


def to_sym(t, sites):
    if isinstance(t, tuple) and t and t[0] == "call" and isinstance(t[1], str) and t[1].startswith("sample@"):
        return sites[t[1]]
    k = t[0]
    if k == "call":
        name, args = t[1], t[2:]
        if name in rules_c13.BINOPS and len(args) == 2:
            return "((%s) %s (%s))" % (to_sym(args[0], sites), rules_c13.BINOPS[name], to_sym(args[1], sites))
        if name == "neg" and len(args) == 1:
            return "(-(%s))" % to_sym(args[0], sites)
        if name == "sqrt" and len(args) == 1:
            return "sqrt(%s)" % to_sym(args[0], sites)
        if name in ("unwrap", "clone") and args:
            return to_sym(args[0], sites)
        if name == "from" and args:
            return to_sym(args[-1], sites)
        if name == "one":
            return "1"
        if name == "zero":
            return "0"
        if name in ("powi", "powf") and len(args) == 2:
            return "((%s)**(%s))" % (to_sym(args[0], sites), to_sym(args[1], sites))
    return rules_c13.to_sym(t, [], {})


def run(chk, F, tier):
    chk.trusted += ["sympy's simplification for the `equal` verdicts; 40-digit evaluation at rational points for `different`",
                    "von Neumann (1951) / Marsaglia (1972): the documented maps of a uniform point of the unit disc are uniform on the circle / sphere; "
                    "rejection from the cube is uniform on the ball",
                    "rand's Uniform::new(-1, 1) is uniform on [-1, 1)"]
    jobs, meta = [], {}
    nshape = 0
    for sh in SHAPES:
        for want in ("f32", "f64"):
            key = "%s:%s" % (sh["name"], want)
            inst = next((i for i in F.instances if i.get("full") and i["path"].startswith(sh["path"]) and i["path"].endswith("::sample") and want in i["key"]), None)
            if inst is None:
                chk.violation("anchor", key, "sampler %s not found in the extracted program" % sh["name"])
                continue
            nshape += 1
            T = Terms(F, inst)
            T.tag_calls = {"sample"}
            fi = FnInfo(F, inst)
            where = span_str(inst.get("span"))
            # ---- result terms
            ret = None
            for b in inst["blocks"]:
                for s in b["stmts"]:
                    if s["k"] == "assign" and s["place"]["l"] == 0 and not s["place"]["p"] and s["rv"]["k"] == "aggregate" and s["rv"].get("agg") == "array":
                        ret = [T.of_operand(o) for o in s["rv"]["ops"]]
            if ret is None or len(fi.loops) != 1:
                chk.violation("proposal", key + ":shape", "%s::sample: expected one rejection loop and one returned array literal (%d loop(s), array %s)"
                              % (sh["name"], len(fi.loops), "found" if ret else "not found"), where=where)
                continue
            h, body, _ = fi.loops[0]
            # ---- G1 draw sites
            sites = {}
            draw_blocks = []
            for bi, b in enumerate(inst["blocks"]):
                t = b["term"]
                if t and t["k"] == "call" and t["func"].get("fn", {}).get("method") == "sample":
                    draw_blocks.append(bi)
            cond = None
            exits = fi.loop_exits(body)
            for (src, dst) in exits:
                t = inst["blocks"][src]["term"]
                if t["k"] == "switch" and t["discr"].get("k") in ("copy", "move"):
                    d = T.body.single_def(t["discr"]["l"])
                    if d is not None and d[2] == "call" and d[3]["func"].get("fn", {}).get("method") in ("lt", "le", "gt", "ge"):
                        cond = (d[3]["func"]["fn"]["method"], T.of_operand(d[3]["args"][0]), T.of_operand(d[3]["args"][1]), bool_branch_taken(t, dst))
            acc = {}
            for r_ in ret:
                draw_symbol_map(r_, acc)
            if cond:
                draw_symbol_map(cond[1], acc)
                draw_symbol_map(cond[2], acc)
            ordered = sorted(acc, key=lambda n: int(n.split("@")[1]))
            inside = all(int(n.split("@")[1]) in body for n in ordered)
            srcs = {rules_c13.fmt(acc[n][2]) if len(acc[n]) > 2 else "?" for n in ordered}
            want_src = "unwrap(new(unwrap(from(-1.0)), unwrap(from(1.0))))"
            if len(ordered) != sh["k"] or len(draw_blocks) != sh["k"] or not inside or srcs != {want_src}:
                chk.violation("proposal", key, "%s::sample: the proposal must be %d fresh draws per iteration from Uniform::new(-1, 1); found %d draw site(s) in the "
                              "returned value / acceptance test (%d in the function, inside the loop: %s, distributions %s)"
                              % (sh["name"], sh["k"], len(ordered), len(draw_blocks), inside, sorted(srcs)), where=where)
                continue
            chk.ok("proposal", key + ": %d draw sites inside the rejection loop, all from Uniform::new(-1, 1)" % sh["k"], nontrivial=True)
            for i, n in enumerate(ordered):
                sites[n] = "x%d" % (i + 1)
            symbols = {"x%d" % (i + 1): "real" for i in range(sh["k"])}
            # ---- G2 acceptance
            if cond is None or len(exits) != 1:
                chk.violation("acceptance", key, "%s::sample: the rejection loop must have exactly one exit, decided by a comparison (found %d exit(s))" % (sh["name"], len(exits)), where=where)
                continue
            op, a, b2, taken = cond
            ssq = " + ".join("x%d**2" % (i + 1) for i in range(sh["k"]))
            try:
                dterm = "(%s) - (%s)" % (to_sym(a, sites), to_sym(b2, sites))
                rets = [to_sym(r_, sites) for r_ in ret]
            except rules_c13.NoForm as e:
                chk.unproved_note("acceptance", key, "term outside the term language: %s" % e)
                continue
            jobs.append({"id": key + "|cond", "symbols": symbols, "term": dterm, "accepted": ["(%s) - 1" % ssq, "1 - (%s)" % ssq], "real_u": True})
            # ---- G3 result
            jobs.append({"id": key + "|norm", "symbols": symbols, "term": " + ".join("(%s)**2" % r_ for r_ in rets), "accepted": [sh["norm2"]], "real_u": True})
            # the documented map up to the symmetries of the proposal: permutations of the x's and sign flips of x's
            variants = []
            names = ["x%d" % (i + 1) for i in range(sh["k"])]
            for perm in itertools.permutations(names):
                for signs in itertools.product((1, -1), repeat=sh["k"]):
                    sub = {n: "(%s%s)" % ("-" if sg < 0 else "", p_) for n, p_, sg in zip(names, perm, signs)}
                    variants.append(sub)
            for ci, m_ in enumerate(sh["maps"]):
                accepted = []
                for sub in variants:
                    e = m_
                    for n in names:
                        e = e.replace(n, "@" + n)
                    for n in names:
                        e = e.replace("@" + n, sub[n])
                    accepted.append(e)
                jobs.append({"id": key + "|comp%d" % ci, "symbols": symbols, "term": rets[ci] if ci < len(rets) else "0", "accepted": accepted, "real_u": True, "variant_of": ci})
            meta[key] = {"sh": sh, "op": op, "taken": taken, "where": where, "ncomp": len(rets)}
    chk.floor("unit-geometry sampler instances", nshape, 8)
    if not jobs:
        return
    r = subprocess.run(["python3-vt", os.path.join(HERE, "symcheck.py")], input=json.dumps(jobs), stdout=subprocess.PIPE, stderr=subprocess.PIPE, text=True, timeout=1800)
    if r.returncode != 0:
        raise SystemExit("symcheck failed: " + r.stderr[-2000:])
    res = json.loads(r.stdout)
    chk.evaluations += len(jobs)
    ndec = 0
    judged = 0
    for key, m in sorted(meta.items()):
        sh = m["sh"]
        judged += 3          # acceptance, norm, map: each ends in ok / violation / not decided below
        cv = res[key + "|cond"]
        if cv["verdict"] == "equal":
            # D = ssq - 1 (form 0) or 1 - ssq (form 1); the exit must be taken when ssq < 1
            d_neg = (m["op"] in ("lt", "le")) == m["taken"]          # D < 0 on the exit edge
            inside = d_neg if cv["form"] == 0 else not d_neg
            ndec += 1
            if inside:
                chk.ok("acceptance", key + ": the loop is left exactly when x1^2 + .. + x%d^2 %s 1" % (sh["k"], "<" if m["op"] in ("lt", "ge") else "<="), nontrivial=True)
            else:
                chk.violation("acceptance", key, "%s::sample leaves its rejection loop when the proposal lies OUTSIDE the unit %s (comparison `%s`, exit on %s)"
                              % (sh["name"], "disc" if sh["k"] == 2 else "ball", m["op"], m["taken"]), where=m["where"])
        elif cv["verdict"] == "different":
            chk.violation("acceptance", key, "%s::sample accepts a proposal by a test that is not  x1^2 + .. + x%d^2 < 1  (compared difference: %s; %s): points outside the unit "
                          "%s are returned or the accepted region is not the %s" % (sh["name"], sh["k"], cv.get("term"), cv["detail"], "disc" if sh["k"] == 2 else "ball",
                                                                                 "disc" if sh["k"] == 2 else "ball"), where=m["where"])
        else:
            chk.unproved_note("acceptance", key, "acceptance test not decided: %s" % cv["detail"])
        nv = res[key + "|norm"]
        if nv["verdict"] == "equal":
            ndec += 1
            chk.ok("norm", key + ": |result|^2 == %s identically" % sh["norm2"], nontrivial=True)
        elif nv["verdict"] == "different":
            chk.violation("norm", key, "%s::sample: |result|^2 = %s is not identically %s (%s): the returned point is not on / inside the unit %s"
                          % (sh["name"], nv.get("term"), sh["norm2"], nv["detail"], "circle" if sh["name"] == "UnitCircle" else "sphere / ball / disc"), where=m["where"])
        else:
            chk.unproved_note("norm", key, "norm identity not decided: %s" % nv["detail"])
        if m["ncomp"] != len(sh["maps"]):
            chk.violation("map", key + ":arity", "%s::sample returns %d components, %d expected" % (sh["name"], m["ncomp"], len(sh["maps"])), where=m["where"])
            continue
        # one common symmetry must explain all components
        forms = []
        verd = []
        for ci in range(len(sh["maps"])):
            v = res[key + "|comp%d" % ci]
            verd.append(v["verdict"])
            forms.append(set(v.get("forms", [v["form"]] if v["form"] is not None else [])))
        if all(x == "equal" for x in verd):
            common = set.intersection(*forms) if forms else set()
            ndec += 1
            if common:
                chk.ok("map", key + ": result is the documented map (symmetry variant %d of the proposal)" % sorted(common)[0], nontrivial=True)
            else:
                chk.violation("map", key, "%s::sample: each component matches the documented map only under a different symmetry of the proposal; jointly the point is "
                              "not the documented one" % sh["name"], where=m["where"])
        elif any(x == "different" for x in verd):
            ci = verd.index("different")
            chk.violation("map", key, "%s::sample: component %d is %s, which is not the documented map %s under any permutation / sign flip of the proposal (%s)"
                          % (sh["name"], ci, res[key + "|comp%d" % ci].get("term"), sh["maps"][ci], res[key + "|comp%d" % ci]["detail"]), where=m["where"])
        else:
            chk.unproved_note("map", key, "map identity not decided")
    chk.floor("unit-geometry identities judged", judged, 3 * len(meta))
    chk.floor("unit-geometry samplers examined", nshape, 8)
