"""Fact base: runs the rdx extractor over /repo's current working tree and indexes the result."""
import hashlib
import json
import os
import subprocess
import sys
import time
import uuid

VERIF = os.path.dirname(os.path.dirname(os.path.abspath(__file__)))
REPO = os.environ.get("RDX_REPO", "/repo")
CACHE = os.environ.get("VERIF_CACHE") or os.path.join(VERIF, ".cache")
RDX = os.path.join(VERIF, "extract", "target", "debug", "rdx")

CONFIGS = {
    # name: (cargo args, extra env)
    "serde": (["--features", "serde"], {}),
    "default": ([], {}),
    "nostd": (["--no-default-features"], {}),
    "alloc": (["--no-default-features", "--features", "alloc"], {}),
    "std_math": (["--features", "std_math,serde"], {}),
    "release": (["--features", "serde", "--release"], {}),
}

QUICK_WEIGHTS = "u8,u32,i32,f64"
ALL_WEIGHTS = "u8,u16,u32,u64,u128,usize,i8,i16,i32,i64,i128,f32,f64"


def tree_hash(repo=None):
    repo = repo or REPO
    h = hashlib.sha256()
    files = []
    for root, dirs, fs in os.walk(repo):
        dirs[:] = sorted(d for d in dirs if d not in ("target", ".git"))
        for f in sorted(fs):
            files.append(os.path.join(root, f))
    for p in files:
        rel = os.path.relpath(p, repo)
        if not (rel.startswith("src") or rel in ("Cargo.toml", "Cargo.lock")):
            continue
        h.update(rel.encode())
        try:
            with open(p, "rb") as fh:
                h.update(fh.read())
        except OSError:
            pass
    return h.hexdigest()[:16]


def ensure_rdx():
    src = os.path.join(VERIF, "extract", "src")
    need = not os.path.exists(RDX)
    if not need:
        m = os.path.getmtime(RDX)
        for f in os.listdir(src):
            if os.path.getmtime(os.path.join(src, f)) > m:
                need = True
    if need:
        env = dict(os.environ, CARGO_NET_OFFLINE="true")
        r = subprocess.run(["cargo", "build", "--offline"], cwd=os.path.join(VERIF, "extract"), env=env,
                           stdout=subprocess.PIPE, stderr=subprocess.STDOUT, text=True)
        if r.returncode != 0:
            sys.stderr.write(r.stdout)
            raise SystemExit("rdx build failed")


def _sysroot():
    return subprocess.check_output(["rustc", "+nightly", "--print", "sysroot"], text=True).strip()


def extract(config="serde", weights=QUICK_WEIGHTS, repo=None, quiet=True):
    """Run the extractor for one configuration over the working tree; returns the parsed fact base."""
    repo = repo or REPO
    ensure_rdx()
    os.makedirs(CACHE, exist_ok=True)
    args, extra = CONFIGS[config]
    target = os.path.join(CACHE, "target")
    nonce = uuid.uuid4().hex
    out = os.path.join(CACHE, "facts-%s-%s.json" % (config, nonce))
    # cargo's freshness cache would silently skip the wrapper: drop rand_distr's fingerprints
    for prof in ("debug", "release"):
        fp = os.path.join(target, prof, ".fingerprint")
        if os.path.isdir(fp):
            for d in os.listdir(fp):
                if d.startswith("rand_distr-"):
                    subprocess.run(["rm", "-rf", os.path.join(fp, d)])
    env = dict(os.environ)
    env.update(extra)
    env.update({
        "LD_LIBRARY_PATH": _sysroot() + "/lib",
        "RUSTFLAGS": "-Zmir-opt-level=0 -Awarnings -Zalways-encode-mir",
        "RUSTC_WORKSPACE_WRAPPER": RDX,
        "CARGO_TARGET_DIR": target,
        "CARGO_NET_OFFLINE": "true",
        "RDX_OUT": out,
        "RDX_NONCE": nonce,
        "RDX_WEIGHTS": weights,
    })
    t0 = time.time()
    r = subprocess.run(["cargo", "+nightly", "check", "--offline", "--lib"] + args, cwd=repo, env=env,
                       stdout=subprocess.PIPE, stderr=subprocess.STDOUT, text=True)
    if r.returncode != 0 or not os.path.exists(out):
        sys.stderr.write(r.stdout[-6000:])
        raise SystemExit("extraction failed for config %s (the tree must compile)" % config)
    with open(out) as fh:
        facts = json.load(fh)
    os.unlink(out)
    if facts["meta"]["nonce"] != nonce:
        raise SystemExit("stale fact file (nonce mismatch)")
    facts["meta"]["config"] = config
    facts["meta"]["extract_s"] = round(time.time() - t0, 2)
    facts["meta"]["tree_hash"] = tree_hash(repo)
    return Facts(facts)


class Facts:
    def __init__(self, raw):
        self.raw = raw
        self.meta = raw["meta"]
        self.types = raw["types"]
        self.instances = raw["instances"]
        self.by_key = {}
        for i in self.instances:
            self.by_key.setdefault(i["key"], i)
        self.roots = raw["roots"]
        self.adts = {a["path"]: a for a in raw["adts"]}
        self.impls = raw["impls"]
        self.statics = {s["path"]: s for s in raw["statics"]}
        self.ast = {a["path"]: a for a in raw["ast_items"] if a["kind"] in ("struct", "enum")}

    # ---- helpers ----
    def ty(self, ix):
        return self.types[ix]

    def ty_str(self, ix):
        return self.types[ix]["s"]

    def local_full(self):
        return [i for i in self.instances if i.get("full") and i.get("local")]

    def inst(self, key):
        return self.by_key.get(key)

    def callees(self, inst):
        """Resolved callee keys of an instance (drop glue included)."""
        out = []
        for c in inst.get("callees", []):
            k = c.get("key")
            if k:
                out.append((k, c))
        return out

    def find(self, substr, full_only=True):
        return [i for i in self.instances if substr in i["key"] and (i.get("full") or not full_only)]


def span_str(sp):
    if not sp:
        return "?"
    s = "%s:%s" % (sp.get("file", "?"), sp.get("line", "?"))
    if "exp" in sp:
        s += " (in %s!)" % sp["exp"]
    return s
