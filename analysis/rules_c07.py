"""C07 — location/scale equivariance as a typing judgement (E3, units of measure).

For every listed family and float type: the constructor is typed with the units of the property statement (location: Point,
scale: L, rate: 1/L, shape: dimensionless); the units of the fields are *inferred* from the constructor body; `sample` is typed
with those field units.  Obligations: (1) the constructor and the sampler are well typed (no arithmetic on unlike units, every
transcendental/draw argument dimensionless, every comparison between like units — so the control flow and the number of RNG
words do not depend on location/scale); (2) the sample has the unit the statement demands (Point, L, or exp(Point));
(3) `from_zscore(z)` is typed Point (exp(Point) for LogNormal) with std_dev : L/Z and z : Z.
"""
CONFIGS_THOROUGH = ["serde", "release"]

from absint import En, Rf, Top
from facts import span_str
import rules_c04
import spec_c04
from units import UnitInterp, UnitAxioms, Un, S, P, EP, DIMLESS, ANY

D = "rand::distr::Distribution"


def _s(adt):
    return "<%s as rand::distr::Distribution<F>>::sample" % adt


ONE = DIMLESS
FAMILIES = [
    # name, constructor (spec_c04 path, for pipelines), argument units, sampler path, expected unit of the sample
    ("Normal", "normal::Normal::<F>::new", {"mean": P, "std_dev": S(1)}, _s("normal::Normal<F>"), P),
    ("LogNormal", "normal::LogNormal::<F>::new", {"mu": P, "sigma": S(1)}, _s("normal::LogNormal<F>"), EP),
    ("Cauchy", "cauchy::Cauchy::<F>::new", {"median": P, "scale": S(1)}, _s("cauchy::Cauchy<F>"), P),
    ("Gumbel", "gumbel::Gumbel::<F>::new", {"location": P, "scale": S(1)}, _s("gumbel::Gumbel<F>"), P),
    ("Frechet", "frechet::Frechet::<F>::new", {"location": P, "scale": S(1), "shape": ONE}, _s("frechet::Frechet<F>"), P),
    ("SkewNormal", "skew_normal::SkewNormal::<F>::new", {"location": P, "scale": S(1), "shape": ONE}, _s("skew_normal::SkewNormal<F>"), P),
    ("Exp", "exponential::Exp::<F>::new", {"lambda": S(-1)}, _s("exponential::Exp<F>"), S(1)),
    ("Gamma", "gamma::Gamma::<F>::new", {"shape": ONE, "scale": S(1)}, _s("gamma::Gamma<F>"), S(1)),
    ("Weibull", "weibull::Weibull::<F>::new", {"scale": S(1), "shape": ONE}, _s("weibull::Weibull<F>"), S(1)),
    ("Pareto", "pareto::Pareto::<F>::new", {"scale": S(1), "shape": ONE}, _s("pareto::Pareto<F>"), S(1)),
    ("InverseGaussian", "inverse_gaussian::InverseGaussian::<F>::new", {"mean": S(1), "shape": S(1)}, _s("inverse_gaussian::InverseGaussian<F>"), S(1)),
    ("Triangular", "triangular::Triangular::<F>::new", {"min": P, "max": P, "mode": P}, _s("triangular::Triangular<F>"), P),
    ("Pert", "pert::PertBuilder::<F>::with_mode", {"min": P, "max": P, "shape": ONE, "mode": P}, _s("pert::Pert<F>"), P),
]
ZSCORE = [
    ("Normal::from_zscore", "normal::Normal::<F>::new", {"mean": P, "std_dev": S(1, -1)}, "normal::Normal::<F>::from_zscore", S(0, 1), P),
    ("LogNormal::from_zscore", "normal::LogNormal::<F>::new", {"mu": P, "sigma": S(1, -1)}, "normal::LogNormal::<F>::from_zscore", S(0, 1), EP),
]


def unit_events(ip):
    return [e for e in ip.events.values() if e.kind == "unit"]


def build(F, ax, cpath, argunits, bits):
    entry = next(e for e in spec_c04.SPEC if e["path"] == cpath)
    steps = entry.get("pipeline") or [(entry["path"], [a for a, _ in entry["args"]])]
    insts = [rules_c04.find_insts(F, p, bits) for p, _ in steps]
    if any(i is None for i in insts):
        return None, None, "constructor instance not found"
    ip = UnitInterp(F, ax)
    prev, st, rv = None, {}, None
    for (path, argnames), inst in zip(steps, insts):
        args = [prev if a == "$prev" else argunits[a] for a in argnames]
        rv, st2 = ip.run_root(inst, args, st) if prev is None else ip.run_fn(inst, args, st, None)
        if st2 is None:
            return None, ip, "constructor diverges in the unit domain"
        st, prev = st2, rv
    if isinstance(rv, En) and 0 in rv.variants and rv.variants[0]:
        return rv.variants[0][0], ip, None
    return None, ip, "constructor has no Ok outcome in the unit domain"


def find_sample(F, path, bits):
    want = "f32" if bits == 32 else "f64"
    for i in F.instances:
        if i.get("full") and i["path"] == path and want in " ".join(F.types[t]["s"] for t in i.get("targs", [])):
            return i
    return None


def describe(e, F):
    inst = F.by_key.get(e.inst) if e.inst else None
    return "%s (in %s at %s)" % (e.detail, inst["path"] if inst else "?", span_str(e.span))


def run(chk, F, tier):
    chk.trusted += ["the typing rules of units.py (soundness: a well-typed program is equivariant over the reals under x -> a + b x, b > 0)",
                    "real arithmetic: the rounding error of the affine map itself is outside the claim; b > 0"]
    ax = UnitAxioms(F)
    n = 0
    for name, cpath, argunits, spath, expect in FAMILIES:
        for bits in (32, 64):
            key = "%s:f%d" % (name, bits)
            obj, ipc, err = build(F, ax, cpath, argunits, bits)
            if err:
                chk.violation("typing", key + ":ctor", "%s: %s" % (key, err))
                continue
            ev = unit_events(ipc)
            if ev:
                chk.violation("typing", key + ":ctor-illtyped", "constructor of %s is ill-typed with %s: %s" % (
                    name, {k: repr(v) for k, v in argunits.items()}, describe(ev[0], F)), where=span_str(ev[0].span))
                continue
            chk.ok("typing", key + ": constructor well typed; inferred field units " + repr(obj)[:150], nontrivial=True)
            sinst = find_sample(F, spath, bits)
            if sinst is None:
                chk.violation("typing", key + ":sampler", "sampler %s not found" % spath)
                continue
            ax.draw_sites = {}
            ip = UnitInterp(F, ax)
            rv, st = ip.run_root(sinst, [Rf(None, obj, False), Rf(None, Top(), True)])
            n += 1
            ev = unit_events(ip)
            if ev:
                chk.violation("typing", key + ":sample-illtyped", "%s::sample is not equivariant: %s" % (name, describe(ev[0], F)), where=span_str(ev[0].span))
                continue
            if ip.imprecise:
                chk.violation("typing", key + ":imprecise", "%s::sample could not be typed completely: %s" % (name, sorted(set(ip.imprecise))[:2]))
                continue
            if rv != expect:
                chk.violation("typing", key + ":result", "%s::sample has unit %r, the statement requires %r (location/scale not applied as an affine map)" % (name, rv, expect),
                              where=span_str(sinst.get("span")))
                continue
            chk.ok("typing", key + ": sample : %r, %d draw site(s), every branch condition compares like units" % (rv, len(ax.draw_sites)), nontrivial=True, sample=(bits == 64))
    for name, cpath, argunits, fpath, zunit, expect in ZSCORE:
        for bits in (32, 64):
            key = "%s:f%d" % (name, bits)
            obj, ipc, err = build(F, ax, cpath, argunits, bits)
            finst = rules_c04.find_insts(F, fpath, bits)
            if err or finst is None:
                chk.violation("zscore", key, "%s: %s" % (key, err or "instance not found"))
                continue
            ip = UnitInterp(F, ax)
            rv, st = ip.run_root(finst, [Rf(None, obj, False), zunit])
            n += 1
            ev = unit_events(ip)
            if ev or rv != expect:
                chk.violation("zscore", key, "%s is typed %r (%s); `mean + std_dev * z` requires %r" % (name, rv, describe(ev[0], F) if ev else "no unit error", expect),
                              where=span_str(finst.get("span")))
            else:
                chk.ok("zscore", key + " : %r with std_dev : L/Z, z : Z" % (rv,), nontrivial=True)
    chk.floor("sampler / from_zscore typings", n, 30)
    # ---- the sign of the scale: Normal documents a negative std_dev as allowed, and positive-scaling units cannot see an `abs`.
    # Interval identity on sign cells (numeric domain): from_zscore(z) must be exactly mean + std_dev * z, also for std_dev < 0.
    import values as V
    from absint import Interp
    from axioms import Axioms
    from values import Fl
    axn = Axioms(F)
    cells = {"mean": [Fl.rng(2, False, 3, False), Fl.rng(-3, False, -2, False)], "sd": [Fl.rng(5, False, 6, False), Fl.rng(-6, False, -5, False)],
             "z": [Fl.rng(1, False, 2, False), Fl.rng(-2, False, -1, False)]}
    ns = 0
    for bits in (32, 64):
        cinst = rules_c04.find_insts(F, "normal::Normal::<F>::new", bits)
        finst = rules_c04.find_insts(F, "normal::Normal::<F>::from_zscore", bits)
        if not cinst or not finst:
            chk.violation("zscore-sign", "anchor:f%d" % bits, "Normal::new / from_zscore instance not found")
            continue
        for m in cells["mean"]:
            for sd in cells["sd"]:
                for z in cells["z"]:
                    ip = Interp(F, axn)
                    rv, st = ip.run_root(cinst, [m, sd])
                    if not (isinstance(rv, En) and 0 in rv.variants):
                        chk.violation("zscore-sign", "f%d:new(%r,%r)" % (bits, m, sd), "Normal::new rejects a finite (mean, std_dev) pair")
                        continue
                    ip2 = Interp(F, axn)
                    got, _ = ip2.run_root(finst, [Rf(None, rv.variants[0][0], False), z])
                    want = V.fl_add(m, V.fl_mul(sd, z))
                    ns += 1
                    key = "f%d mean=%r std_dev=%r z=%r" % (bits, m, sd, z)
                    if got == want:
                        chk.ok("zscore-sign", key + " -> " + repr(got), nontrivial=(ns <= 8))
                    else:
                        chk.violation("zscore-sign", key, "Normal::new(mean, std_dev).from_zscore(z) = %r but mean + std_dev * z = %r (%s): the sign or value of a "
                                      "parameter is not preserved" % (got, want, key), where=span_str(finst.get("span")))
    chk.floor("from_zscore sign cases", ns, 16)
