"""E4 — CFG / path rules over serialized MIR: loop exits, in-loop def-use slices, dominance queries,
mutation-before-error, draw summaries."""
from mirutil import natural_loops, successors, dominators, reachable_blocks

DRAW_METHODS = {"next_u32", "next_u64", "fill_bytes", "random", "random_range", "random_bool", "random_ratio", "sample",
                "random_iter", "fill", "try_next_u32", "try_next_u64", "try_fill_bytes", "sample_iter"}


def op_locals(op):
    """Locals read by an operand (base local + index locals)."""
    if not isinstance(op, dict) or op.get("k") == "const" or "l" not in op:
        return set()
    s = {op["l"]}
    for p in op["p"]:
        if p["k"] == "index":
            s.add(p["local"])
    return s


def rv_locals(rv):
    k = rv["k"]
    s = set()
    if k in ("use", "repeat", "cast"):
        s |= op_locals(rv["op"])
    elif k == "binop":
        s |= op_locals(rv["a"]) | op_locals(rv["b"])
    elif k == "unop":
        s |= op_locals(rv["a"])
    elif k in ("ref", "rawptr", "discriminant"):
        pl = rv["place"]
        s.add(pl["l"])
        for p in pl["p"]:
            if p["k"] == "index":
                s.add(p["local"])
    elif k == "aggregate":
        for o in rv["ops"]:
            s |= op_locals(o)
    return s


class FnInfo:
    """Per-instance CFG facts used by the path rules."""

    def __init__(self, F, inst, draws_summary=None):
        self.F = F
        self.inst = inst
        self.blocks = inst["blocks"]
        self.loops, self.dom, self.preds = natural_loops(self.blocks)
        self.draws_summary = draws_summary or {}
        # reference aliases: ref local -> referent local (only for single-assignment refs)
        self.alias = {}
        counts = {}
        for b in self.blocks:
            for s in b["stmts"]:
                if s["k"] == "assign" and not s["place"]["p"]:
                    counts[s["place"]["l"]] = counts.get(s["place"]["l"], 0) + 1
            t = b["term"]
            if t and t["k"] == "call" and not t["dest"]["p"]:
                counts[t["dest"]["l"]] = counts.get(t["dest"]["l"], 0) + 1
        for b in self.blocks:
            for s in b["stmts"]:
                if s["k"] == "assign" and not s["place"]["p"] and s["rv"]["k"] == "ref":
                    self.alias.setdefault(s["place"]["l"], set()).add(s["rv"]["place"]["l"])
                elif s["k"] == "assign" and not s["place"]["p"] and s["rv"]["k"] == "use" and s["rv"]["op"].get("k") in ("copy", "move"):
                    # copies of references keep the alias
                    src = s["rv"]["op"]
                    if not src["p"] and self.is_ref(src["l"]):
                        self.alias.setdefault(s["place"]["l"], set()).add(("via", src["l"]))
        # resolve "via" chains
        changed = True
        while changed:
            changed = False
            for k, v in list(self.alias.items()):
                for x in list(v):
                    if isinstance(x, tuple):
                        v.discard(x)
                        v |= self.alias.get(x[1], {x[1]} if not self.is_ref(x[1]) else set())
                        changed = True
        # panic blocks: every path from them diverges
        self.diverging = self._diverging_blocks()

    def is_ref(self, local):
        t = self.F.types[self.inst["locals"][local]["ty"]]
        return t["k"] in ("ref", "rawptr")

    def is_mut_ref(self, local):
        t = self.F.types[self.inst["locals"][local]["ty"]]
        return t["k"] == "ref" and t["mut"]

    def referents(self, local, depth=0):
        """Locals a reference-typed local may point into (through reborrows); params point to themselves."""
        if local not in self.alias or depth > 6:
            return {local}
        out = set()
        for r in self.alias[local]:
            if self.is_ref(r) and r != local:
                out |= self.referents(r, depth + 1)
            else:
                out.add(r)
        return out or {local}

    def _diverging_blocks(self):
        div = set()
        changed = True
        n = len(self.blocks)
        while changed:
            changed = False
            for bi in range(n):
                if bi in div:
                    continue
                t = self.blocks[bi]["term"]
                k = t["k"] if t else None
                if k in ("unreachable", "resume", "abort"):
                    div.add(bi)
                    changed = True
                elif k == "call" and t.get("target") is None:
                    div.add(bi)
                    changed = True
                else:
                    succ = successors(t)
                    if succ and all(s in div for s in succ):
                        div.add(bi)
                        changed = True
        return div

    # ---- events inside a region
    def is_draw_call(self, t):
        fn = t["func"].get("fn", {})
        tr = fn.get("trait") or ""
        m = fn.get("method") or ""
        if fn.get("res") == "unresolved" and (tr.startswith("rand::Rng") or tr.startswith("rand::TryRng") or tr.startswith("rand_core")) and m in DRAW_METHODS:
            return True
        rp = fn.get("res_path") or fn.get("path") or ""
        if m == "sample" and tr.endswith("::Distribution") and fn.get("res_krate") == "rand":
            return True
        key = fn.get("key")
        if key and self.draws_summary.get(key):
            return True
        ds = fn.get("dist_sample")
        if ds and (ds.get("res_krate") == "rand" or self.draws_summary.get(ds.get("key"))):
            return True
        return False

    def def_events(self, region):
        """[(target local, source locals, kind, info)] for statements/terminators of the blocks in `region`."""
        ev = []
        for bi in region:
            b = self.blocks[bi]
            for s in b["stmts"]:
                if s["k"] == "assign":
                    pl = s["place"]
                    src = rv_locals(s["rv"])
                    tg = pl["l"]
                    # write through a deref'd reference defines the referent
                    tgs = {tg}
                    if pl["p"] and pl["p"][0]["k"] == "deref":
                        tgs = self.referents(tg)
                        src |= {tg}
                    if pl["p"]:
                        src |= tgs
                    # reading through a reference reads the referent
                    more = set()
                    for x in src:
                        if self.is_ref(x):
                            more |= self.referents(x)
                    src |= more
                    for t_ in tgs:
                        ev.append((t_, src, "assign", (bi, s)))
            t = b["term"]
            if t and t["k"] == "call":
                src = set()
                for a in t["args"]:
                    src |= op_locals(a)
                more = set()
                for x in src:
                    if self.is_ref(x):
                        more |= self.referents(x)
                src |= more
                kind = "draw" if self.is_draw_call(t) else "call"
                ev.append((t["dest"]["l"], src, kind, (bi, t)))
                for a in t["args"]:
                    for x in op_locals(a):
                        if self.is_mut_ref(x):
                            for r in self.referents(x):
                                ev.append((r, src | {r}, kind + "-mutarg", (bi, t)))
        return ev

    def slice_flags(self, region, start_locals):
        """Backward slice inside `region` from `start_locals`: returns (slice locals, has_draw, recurrent locals, draw sites)."""
        ev = self.def_events(region)
        bydef = {}
        for tg, src, kind, info in ev:
            bydef.setdefault(tg, []).append((src, kind, info))
        sl = set()
        work = list(start_locals)
        for x in list(start_locals):
            if self.is_ref(x):
                work += list(self.referents(x))
        draws = []
        while work:
            x = work.pop()
            if x in sl:
                continue
            sl.add(x)
            for src, kind, info in bydef.get(x, []):
                if kind.startswith("draw"):
                    draws.append(info)
                for y in src:
                    if y not in sl:
                        work.append(y)
        # recurrences: locals in the slice that depend on themselves inside the region
        dep = {x: set() for x in sl}
        for x in sl:
            for src, kind, info in bydef.get(x, []):
                dep[x] |= (src & sl)
        rec = set()
        for x in sl:
            seen = set()
            st = list(dep[x])
            while st:
                y = st.pop()
                if y == x:
                    rec.add(x)
                    break
                if y in seen:
                    continue
                seen.add(y)
                st.extend(dep.get(y, ()))
        return sl, bool(draws), rec, draws

    def loop_exits(self, body):
        """Exit edges (src block, dst block) of a loop body, excluding edges into diverging (panic) blocks."""
        out = []
        for bi in sorted(body):
            t = self.blocks[bi]["term"]
            for s in successors(t):
                if s not in body and s not in self.diverging:
                    out.append((bi, s))
        return out

    def exit_condition_locals(self, src_block):
        t = self.blocks[src_block]["term"]
        if t["k"] == "switch":
            return op_locals(t["discr"])
        return set()


def draws_summary(F):
    """key -> True for crate-local (and shim) instances whose transitive callees consume the RNG."""
    direct = {}
    edges = {}
    for inst in F.instances:
        if not inst.get("full"):
            continue
        k = inst["key"]
        edges[k] = set()
        d = False
        for b in inst["blocks"]:
            t = b["term"]
            if t and t["k"] == "call":
                fn = t["func"].get("fn", {})
                tr = fn.get("trait") or ""
                m = fn.get("method") or ""
                if fn.get("res") == "unresolved" and (tr.startswith("rand::Rng") or tr.startswith("rand::TryRng")) and m in DRAW_METHODS:
                    d = True
                if m == "sample" and tr.endswith("::Distribution") and fn.get("res_krate") == "rand":
                    d = True
                if fn.get("key"):
                    edges[k].add(fn["key"])
                ds = fn.get("dist_sample")
                if ds:
                    if ds.get("res_krate") == "rand":
                        d = True
                    if ds.get("key"):
                        edges[k].add(ds["key"])
        direct[k] = d
    changed = True
    while changed:
        changed = False
        for k, es in edges.items():
            if not direct[k] and any(direct.get(e) for e in es):
                direct[k] = True
                changed = True
    return direct
