"""Symbolic integer/float terms of MIR operands by value numbering along single-definition chains (no paths, no solver).

term := ('const', v) | ('var', name) | ('add'|'sub'|'mul'|'div'|'rem'|'shl'|'shr'|'and', t1, t2) | ('call', fname, args...) |
        ('idx', container term, index term) | ('field', t, i)
Leaves are multiply-defined locals (loop-carried variables, named by their user name), parameters, or opaque calls.
`affine(t)` normalises a term to (coef, const, div) meaning floor((coef*v + const)/div) over a single variable v.
"""
from fractions import Fraction

from mirutil import Body, const_value

BIN = {"Add": "add", "Sub": "sub", "Mul": "mul", "Div": "div", "Rem": "rem", "Shl": "shl", "Shr": "shr", "BitAnd": "and",
       "AddWithOverflow": "add", "SubWithOverflow": "sub", "MulWithOverflow": "mul", "AddUnchecked": "add", "SubUnchecked": "sub",
       "MulUnchecked": "mul"}


def _apply_projs(T, t, proj, depth):
    for p in proj:
        if p["k"] == "field":
            t = ("field", t, p.get("i"))
        elif p["k"] == "index":
            t = ("idx", t, T.of_local(p["local"], (), depth + 1))
        elif p["k"] == "constindex":
            t = ("idx", t, ("const", p.get("offset")))
        elif p["k"] == "downcast" and p.get("name"):
            t = ("proj", t, "downcast:" + str(p["name"]))
        else:
            t = ("proj", t, p["k"])
    return t


class Terms:
    def __init__(self, F, inst):
        self.F = F
        self.inst = inst
        self.body = Body(F, inst)
        self.names = {i: l.get("name") for i, l in enumerate(inst["locals"])}

    def var(self, l):
        n = self.names.get(l)
        return ("var", n if n else "_%d" % l)

    MAX_DEPTH = 24      # definitions followed before a local is left as a variable (DrawTerms raises it: the symbolic rules need whole expressions)

    def of_local(self, l, proj=(), depth=0):
        if depth > self.MAX_DEPTH:
            return self.var(l)
        proj = [p for p in proj if p["k"] != "deref"]
        if l != 0 and l <= self.inst["arg_count"] and not self.body.defs.get(l):
            return _apply_projs(self, self.var(l), proj, depth)
        d = self.body.single_def(l)
        if d is None:
            return _apply_projs(self, self.var(l), proj, depth)
        if d[2] == "call":
            t = d[3]
            fn = t["func"].get("fn", {})
            name = fn.get("method") or (fn.get("res_path") or fn.get("path") or "?").rsplit("::", 1)[-1]
            if name in getattr(self, "tag_calls", ()):
                name = "%s@%d" % (name, d[0])      # distinguish call sites (e.g. separate RNG draws)
            args = tuple(self.of_operand(a, depth + 1) for a in t["args"])
            r = ("call", name) + args
            return _apply_projs(self, r, proj, depth)
        rv = d[3]["rv"]
        k = rv["k"]
        if k == "use":
            inner = self.of_operand(rv["op"], depth + 1)
        elif k == "binop" and rv["op"] in BIN:
            a, b = self.of_operand(rv["a"], depth + 1), self.of_operand(rv["b"], depth + 1)
            inner = (BIN[rv["op"]], a, b)
            if rv["op"].endswith("WithOverflow"):
                # the tuple's field 0 is the arithmetic result
                if proj and proj[0]["k"] == "field":
                    if proj[0]["i"] == 0:
                        proj = proj[1:]
                    else:
                        return ("overflow-flag",)
        elif k == "cast":
            inner = self.of_operand(rv["op"], depth + 1)
        elif k == "ref":
            pl = rv["place"]
            inner = self.of_local(pl["l"], pl["p"], depth + 1)
        elif k == "unop" and rv["op"] == "Neg":
            inner = ("neg", self.of_operand(rv["a"], depth + 1))
        elif k == "binop" and rv["op"] in ("Lt", "Le", "Gt", "Ge", "Eq", "Ne"):
            # a comparison used as a value (stored flag): an uninterpreted predicate of its operands
            inner = ("call", "cmp_" + rv["op"].lower(), self.of_operand(rv["a"], depth + 1), self.of_operand(rv["b"], depth + 1))
        elif k == "unop" and rv["op"] == "Not":
            inner = ("call", "not", self.of_operand(rv["a"], depth + 1))
        elif k == "aggregate" and proj and proj[0]["k"] == "field" and isinstance(proj[0].get("i"), int) and proj[0]["i"] < len(rv.get("ops", [])) \
                and rv.get("agg") in ("tuple", "array"):
            # a field of a tuple literal is the operand it was built from
            inner = self.of_operand(rv["ops"][proj[0]["i"]], depth + 1)
            proj = proj[1:]
        else:
            inner = ("rv", k, l)
        return _apply_projs(self, inner, proj, depth)

    def of_operand(self, op, depth=0):
        if op["k"] == "const":
            v = const_value(self.F, op)
            if v is not None:
                return ("const", v)
            if "fn" in op:
                return ("fn", op["fn"].get("shown"))
            return ("const?",)
        return self.of_local(op["l"], op["p"], depth)


def affine(t):
    """(var, coef, const, div) with value floor((coef*var + const)/div), or None."""
    def lin(t):
        k = t[0]
        if k == "const" and isinstance(t[1], int) and not isinstance(t[1], bool):
            return (None, Fraction(0), Fraction(t[1]))
        if k == "var":
            return (t[1], Fraction(1), Fraction(0))
        if k in ("add", "sub"):
            a, b = lin(t[1]), lin(t[2])
            if a is None or b is None:
                return None
            v = a[0] or b[0]
            if a[0] and b[0] and a[0] != b[0]:
                return None
            s = 1 if k == "add" else -1
            return (v, a[1] + s * b[1], a[2] + s * b[2])
        if k == "mul":
            a, b = lin(t[1]), lin(t[2])
            if a is None or b is None:
                return None
            if a[0] is None:
                return (b[0], a[2] * b[1], a[2] * b[2])
            if b[0] is None:
                return (a[0], b[2] * a[1], b[2] * a[2])
            return None
        if k == "shl":
            a, b = lin(t[1]), lin(t[2])
            if a and b and b[0] is None:
                m = Fraction(2) ** int(b[2])
                return (a[0], a[1] * m, a[2] * m)
            return None
        if k in ("call", "field", "proj", "rv", "idx"):
            # an opaque value (iterator item, call result, field): a variable of its own
            return (fmt(t), Fraction(1), Fraction(0))
        return None
    if t[0] == "div":
        a, b = lin(t[1]), lin(t[2])
        if a and b and b[0] is None and b[2] > 0:
            return (a[0], a[1], a[2], b[2])
        return None
    a = lin(t)
    if a is None:
        return None
    return (a[0], a[1], a[2], Fraction(1))


def linear(t):
    """({var: coef}, const) for a term that is linear over several variables, else None."""
    k = t[0]
    if k == "const" and isinstance(t[1], int) and not isinstance(t[1], bool):
        return ({}, Fraction(t[1]))
    if k == "var":
        return ({t[1]: Fraction(1)}, Fraction(0))
    if k in ("add", "sub"):
        a, b = linear(t[1]), linear(t[2])
        if a is None or b is None:
            return None
        s = 1 if k == "add" else -1
        d = dict(a[0])
        for v, c in b[0].items():
            d[v] = d.get(v, 0) + s * c
        return ({v: c for v, c in d.items() if c != 0}, a[1] + s * b[1])
    if k == "mul":
        a, b = linear(t[1]), linear(t[2])
        if a is None or b is None:
            return None
        if not a[0]:
            return ({v: c * a[1] for v, c in b[0].items()}, a[1] * b[1])
        if not b[0]:
            return ({v: c * b[1] for v, c in a[0].items()}, a[1] * b[1])
        return None
    if k in ("call", "field", "proj", "rv", "idx"):
        return ({fmt(t): Fraction(1)}, Fraction(0))
    return None


def lin_sub(a, b):
    d = dict(a[0])
    for v, c in b[0].items():
        d[v] = d.get(v, 0) - c
    return ({v: c for v, c in d.items() if c != 0}, a[1] - b[1])


def fmt(t):
    k = t[0]
    if k == "const":
        return str(t[1])
    if k == "var":
        return t[1]
    if k in ("add", "sub", "mul", "div", "rem", "shl", "shr", "and"):
        return "(%s %s %s)" % (fmt(t[1]), {"add": "+", "sub": "-", "mul": "*", "div": "/", "rem": "%", "shl": "<<", "shr": ">>", "and": "&"}[k], fmt(t[2]))
    if k == "call":
        return "%s(%s)" % (t[1], ", ".join(fmt(a) for a in t[2:]))
    if k == "field":
        return "%s.%s" % (fmt(t[1]), t[2])
    if k == "proj":
        return "%s<%s>" % (fmt(t[1]), t[2])
    if k == "idx":
        return "%s[%s]" % (fmt(t[1]), fmt(t[2]))
    if k == "neg":
        return "-%s" % fmt(t[1])
    if k == "rv":
        return "%s#%s" % (t[1], t[2])
    return str(t)

def root_local(T, op, depth=0):
    """The multiply-defined (loop-carried) local or parameter an operand is a plain copy of, or None."""
    if op.get("k") not in ("copy", "move") or depth > 12:
        return None
    l = op["l"]
    if [p for p in op["p"] if p["k"] != "deref"]:
        return None
    d = T.body.single_def(l)
    if d is None or d[2] == "call":
        return l
    rv = d[3]["rv"]
    if rv["k"] == "use":
        return root_local(T, rv["op"], depth + 1) if rv["op"].get("k") in ("copy", "move") else None
    if rv["k"] == "ref":
        pl = dict(rv["place"])
        pl["k"] = "copy"
        return root_local(T, pl, depth + 1)
    return None



def poly(t, atom=None):
    """Expand a term into a polynomial {sorted tuple of atom names: coefficient} over opaque atoms (indexed reads, calls, variables)."""
    atom = atom or fmt
    k = t[0]
    if k == "const" and isinstance(t[1], (int, float)) and not isinstance(t[1], bool):
        return {(): Fraction(t[1])}
    if k in ("add", "sub"):
        a, b = poly(t[1], atom), poly(t[2], atom)
        if a is None or b is None:
            return None
        out = dict(a)
        for m, c in b.items():
            out[m] = out.get(m, 0) + (c if k == "add" else -c)
        return {m: c for m, c in out.items() if c != 0}
    if k == "neg":
        a = poly(t[1], atom)
        return None if a is None else {m: -c for m, c in a.items()}
    if k == "mul":
        a, b = poly(t[1], atom), poly(t[2], atom)
        if a is None or b is None:
            return None
        out = {}
        for m1, c1 in a.items():
            for m2, c2 in b.items():
                m = tuple(sorted(m1 + m2))
                out[m] = out.get(m, 0) + c1 * c2
        return {m: c for m, c in out.items() if c != 0}
    if k == "div":
        a, b = poly(t[1], atom), poly(t[2], atom)
        if a is not None and b is not None and list(b.keys()) == [()]:
            return {m: c / b[()] for m, c in a.items()}
        return {(atom(t),): Fraction(1)}
    return {(atom(t),): Fraction(1)}
