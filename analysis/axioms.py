"""Axioms: abstract semantics of functions whose bodies are not analysed (core/alloc/num_traits/rand/std float math).
Each entry states the documented contract; the list is the trusted base of the E2/E3 analyses."""
import re
from fractions import Fraction

import values as V
from values import Fl, In
from absint import (Bo, St, En, Rf, Vc, Ax, Top, DiscrIn, UNIT, usize, join, DIVERGE, NOT_HANDLED, fl_pred_refine)

F32_MIN_POS = Fraction(2) ** -126
F64_MIN_POS = Fraction(2) ** -1022
F32_MAX = Fraction((2 - Fraction(2) ** -23) * Fraction(2) ** 127)
F64_MAX = Fraction((2 - Fraction(2) ** -52) * Fraction(2) ** 1023)
F32_EPS = Fraction(2) ** -23
F64_EPS = Fraction(2) ** -52

PANIC_PATHS = ("core::panicking::", "core::option::unwrap_failed", "core::option::expect_failed", "core::result::unwrap_failed",
               "std::rt::begin_panic", "core::slice::index::slice_", "core::str::slice_error_fail", "alloc::alloc::handle_alloc_error",
               "alloc::raw_vec::capacity_overflow", "core::cell::panic_", "std::panicking::")


def norm_name(fn):
    n = fn.get("res_path") or fn.get("path") or ""
    n = re.sub(r"\bf32\b|\bf64\b", "F", n)
    n = re.sub(r"\b[ui](8|16|32|64|128|size)\b", "INT", n)
    return n


class Axioms:
    def __init__(self, F):
        self.F = F
        self.draw_sites = {}      # site key -> description
        self.tagged = None        # (site key, special index) for the current run
        self.used = {}            # axiom name -> count

    # ------------------------------------------------------------------ helpers
    def deref(self, ip, st, v):
        v = ip.materialize(v)
        n = 0
        while isinstance(v, Rf) and n < 4:
            if v.place is not None:
                v = ip.materialize(ip.read_resolved(st, ("place", v.place)))
            else:
                v = ip.materialize(v.snap)
            n += 1
        return v

    def deref1(self, ip, st, v):
        """One level of dereference; returns (value, place)"""
        v = ip.materialize(v)
        if isinstance(v, Rf):
            if v.place is not None:
                return ip.materialize(ip.read_resolved(st, ("place", v.place))), v.place
            return ip.materialize(v.snap), None
        return v, None

    def float_bits(self, ip, ty):
        t = self.F.types[ty] if ty is not None else None
        if t and t["k"] == "float":
            return t["bits"]
        return None

    def dest_ty(self, inst, t):
        if t["dest"]["p"] or inst is None:
            return None
        return inst["locals"][t["dest"]["l"]]["ty"]

    def option(self, ty, some=None, none=False):
        """Option value of type index `ty`: variant 0 = None, 1 = Some"""
        vs = {}
        if none:
            vs[0] = ()
        if some is not None:
            vs[1] = (some,)
        return En(ty, vs)

    def result(self, ty, ok=None, err=None):
        vs = {}
        if ok is not None:
            vs[0] = (ok,)
        if err is not None:
            vs[1] = (err,)
        return En(ty, vs)

    def site_key(self, ip, inst, bi):
        # the chain of call sites (caller, block) down to the draw: two calls of the same sampler are different sites
        return (tuple(ip.site_stack), tuple(ip.call_stack[-1:]), bi)

    def draw(self, ip, inst, bi, kind, generic, specials):
        """A draw from the RNG at this site: `generic` excludes the special points; `specials` are the single-word events."""
        key = self.site_key(ip, inst, bi)
        self.draw_sites.setdefault(key, (kind, [repr(s) for _, s in specials], inst["key"] if inst else None, bi))
        if self.tagged is not None and self.tagged[0] == key:
            name, val = specials[self.tagged[1]]
            return val
        return generic

    # ------------------------------------------------------------------ dispatch
    def try_call(self, ip, inst, fid, bi, st, t, fn, args, argpl):
        name = norm_name(fn)
        raw = fn.get("res_path") or fn.get("path") or ""
        method = fn.get("method") or name.rsplit("::", 1)[-1]
        trait = fn.get("trait") or ""
        dty = self.dest_ty(inst, t)
        h = None
        ov = getattr(self, "overrides", None)
        if ov:
            # what-if runs: a named callee returns a fixed value (e.g. every Gamma variate is exactly 1) so that an algebraic identity
            # of the caller can be checked exactly
            k_ = fn.get("key") or raw
            for rx, val in ov:
                if rx.search(k_):
                    self.used["override:" + rx.pattern] = self.used.get("override:" + rx.pattern, 0) + 1
                    return val, st
        if raw.startswith(PANIC_PATHS):
            ip.event("panic:call", inst, bi, raw.split("<")[0], t.get("span"), fid=fid)
            return DIVERGE
        # --- RNG
        if fn.get("res") == "unresolved" and (trait.startswith("rand::Rng") or trait.startswith("rand::TryRng") or trait.startswith("rand_core")):
            return self.rng_call(ip, inst, fid, bi, st, t, fn, args, method, dty)
        if trait.endswith("::Distribution") and method == "sample" and fn.get("res_krate") == "rand":
            return self.rand_dist_sample(ip, inst, fid, bi, st, t, fn, args, dty)
        key = (trait.rsplit("::", 1)[-1] if trait else "", method)
        h = TRAIT_AXIOMS.get(key)
        if h is None:
            for pat, hh in PATH_AXIOMS:
                if pat.search(name):
                    h = hh
                    break
        if h is None:
            return NOT_HANDLED
        self.used[name] = self.used.get(name, 0) + 1
        r = h(self, ip, inst, fid, bi, st, t, fn, args, argpl, dty)
        return r

    # ------------------------------------------------------------------ RNG
    def rng_call(self, ip, inst, fid, bi, st, t, fn, args, method, dty):
        if method == "sample":
            ds = fn.get("dist_sample")
            if ds is None:
                return Top(dty), st
            distr = args[1] if len(args) > 1 else Top()
            rng = args[0]
            callee = self.F.by_key.get(ds.get("key")) if ds.get("key") else None
            if callee is not None and callee.get("full") and callee.get("local"):
                rv, st2 = ip.run_fn(callee, [Rf(None, distr, False), rng], st, (inst["key"], bi))
                if st2 is None:
                    return DIVERGE
                return rv, st2
            return self.rand_dist_value(ip, inst, bi, st, ds, distr, dty), st
        if method == "random":
            return self.standard_uniform(ip, inst, bi, dty), st
        if method in ("next_u64", "next_u32"):
            tt = self.F.types[dty]
            full = In.of_type(tt["bits"], tt["signed"])
            v = self.draw(ip, inst, bi, "word", full, [("all-zeros", In(0, 0, full.bits, full.signed)), ("all-ones", In(full.hi, full.hi, full.bits, full.signed))])
            return v, st
        if method == "random_range":
            rng_arg = ip.materialize(args[1]) if len(args) > 1 else Top()
            tt = self.F.types[dty]
            if isinstance(rng_arg, St) and len(rng_arg.fields) == 2:
                lo, hi = ip.materialize(rng_arg.fields[0]), ip.materialize(rng_arg.fields[1])
                if isinstance(lo, In) and isinstance(hi, In):
                    if hi.lo <= lo.hi:
                        ip.event("panic:call", inst, bi, "random_range on a possibly empty range", t.get("span"))
                    if hi.hi <= lo.lo:
                        return DIVERGE
                    g = In(lo.lo, hi.hi - 1, lo.bits, lo.signed)
                    v = self.draw(ip, inst, bi, "range", g, [("low", In(lo.lo, lo.hi, lo.bits, lo.signed)), ("high-1", In(hi.lo - 1, hi.hi - 1, lo.bits, lo.signed))])
                    return v, st
                if isinstance(lo, Fl) and isinstance(hi, Fl):
                    t_, f_ = V.cmp_outcomes("lt", lo, hi)
                    if f_:
                        ip.event("panic:call", inst, bi, "random_range on a possibly empty range", t.get("span"))
                    if not t_:
                        return DIVERGE
                    return self.uniform_float(ip, inst, bi, lo, hi), st
            return ip.top_of(dty), st
        return ip.top_of(dty), st

    @staticmethod
    def unit_generic(tt):
        """Interior of rand's unit-interval float draws: multiples of 2^-p, so the smallest non-zero value is 2^-p and the largest
        value below 1 is 1 - 2^-p (p = 53 for f64, 24 for f32); the special points 0, 1/2, 1 are handled as tagged draws."""
        p = 24 if tt.get("bits") == 32 else 53
        eps = Fraction(2) ** -p
        half = Fraction(1, 2)
        return Fl([(eps, True, half, False), (half, False, 1 - eps, True)])

    def standard_uniform(self, ip, inst, bi, dty):
        tt = self.F.types[dty] if dty is not None else {"k": "?"}
        if tt["k"] == "float":
            half = Fraction(1, 2)
            g = self.unit_generic(tt)
            top = 1 - Fraction(2) ** -(24 if tt.get("bits") == 32 else 53)
            return self.draw(ip, inst, bi, "StandardUniform[0,1)", g, [("0", Fl.point(0)), ("1/2", Fl.point(half)), ("max", Fl.point(top))])
        if tt["k"] == "int":
            full = In.of_type(tt["bits"], tt["signed"])
            return self.draw(ip, inst, bi, "word", full, [("min", In(full.lo, full.lo, full.bits, full.signed)), ("max", In(full.hi, full.hi, full.bits, full.signed))])
        if tt["k"] == "bool":
            return Bo(True, True)
        return ip.top_of(dty)

    def uniform_float(self, ip, inst, bi, lo, hi):
        """Uniform over [lo, hi): generic draw is the open interval (lo, hi) minus 0; special points: lo, and 0 when interior."""
        l = lo.lo()
        h = hi.hi()
        if l is None or h is None or l[0] in (V.NINF, V.INF) or h[0] in (V.NINF, V.INF):
            return Fl.finite()
        g = Fl([(l[0], False, h[0], False)])
        specials = [("low", Fl(lo.ivs))]
        if l[0] < 0 < h[0]:
            g = Fl([(l[0], False, Fraction(0), False), (Fraction(0), False, h[0], False)])
            specials.append(("0", Fl.point(0)))
        return self.draw(ip, inst, bi, "Uniform[low,high)", g, specials)

    def rand_dist_value(self, ip, inst, bi, st, ds, distr, dty):
        p = ds.get("res_path") or ds.get("shown") or ""
        tt = self.F.types[dty] if dty is not None else {"k": "?"}
        half = Fraction(1, 2)
        if "OpenClosed01" in p:
            g = self.unit_generic(tt)
            return self.draw(ip, inst, bi, "OpenClosed01(0,1]", g, [("1", Fl.point(1)), ("1/2", Fl.point(half))])
        if "Open01" in p:
            g = self.unit_generic(tt)
            return self.draw(ip, inst, bi, "Open01(0,1)", g, [("1/2", Fl.point(half))])
        if "StandardUniform" in p:
            return self.standard_uniform(ip, inst, bi, dty)
        if "Uniform" in p:
            d = self.deref(ip, st, distr)
            if isinstance(d, Ax) and d.kind == "uniform":
                lo, hi = d.data[0], d.data[1]
                if isinstance(lo, Fl):
                    return self.uniform_float(ip, inst, bi, lo, hi)
                if isinstance(lo, In):
                    incl = d.data[2]
                    top = hi.hi if incl else hi.hi - 1
                    g = In(lo.lo, top, lo.bits, lo.signed)
                    return self.draw(ip, inst, bi, "UniformInt", g, [("low", In(lo.lo, lo.hi, lo.bits, lo.signed)), ("high", In(top if not incl else hi.lo, top, lo.bits, lo.signed))])
            return ip.top_of(dty) if tt["k"] != "float" else Fl.finite()
        ip.imprecise.append("unknown rand distribution " + p)
        return ip.top_of(dty)

    def rand_dist_sample(self, ip, inst, fid, bi, st, t, fn, args, dty):
        return self.rand_dist_value(ip, inst, bi, st, fn, args[0], dty), st


# ---------------------------------------------------------------------------------------- handlers
def _fl(ip, ax, st, v):
    v = ax.deref(ip, st, v)
    return v if isinstance(v, Fl) else None


def _num(ip, ax, st, v):
    v = ax.deref(ip, st, v)
    if isinstance(v, DiscrIn):
        v = v.iv
    return v


def h_arith(op):
    def h(ax, ip, inst, fid, bi, st, t, fn, args, argpl, dty):
        a, b = _num(ip, ax, st, args[0]), _num(ip, ax, st, args[1])
        same = argpl[0] is not None and argpl[0] == argpl[1]
        return ip.binop(op, a, b, None, None, same, inst, bi, t.get("span")), st
    return h


def h_arith_assign(op):
    def h(ax, ip, inst, fid, bi, st, t, fn, args, argpl, dty):
        r = ip.materialize(args[0])
        a = ax.deref(ip, st, r)
        b = _num(ip, ax, st, args[1])
        val = ip.binop(op, a, b, None, None, False, inst, bi, t.get("span"))
        if isinstance(a, In) and isinstance(val, In) and op in ("Add", "Sub", "Mul"):
            # checked arithmetic in debug builds: report possible overflow
            lo, hi = (a.lo + b.lo, a.hi + b.hi) if op == "Add" else (a.lo - b.hi, a.hi - b.lo) if op == "Sub" else (min(a.lo * b.lo, a.lo * b.hi, a.hi * b.lo, a.hi * b.hi), max(a.lo * b.lo, a.lo * b.hi, a.hi * b.lo, a.hi * b.hi))
            if lo < a.tmin() or hi > a.tmax():
                ip.event("panic:assert:Overflow:" + op, inst, bi, "Overflow:%s (compound assignment)" % op, t.get("span"))
                val = In(max(lo, a.tmin()), min(hi, a.tmax()), a.bits, a.signed)
        if isinstance(r, Rf) and r.place is not None:
            ip.write_resolved(st, ("place", r.place), val)
        else:
            ip.imprecise.append("compound assignment through untracked reference")
        return UNIT, st
    return h


def h_neg(ax, ip, inst, fid, bi, st, t, fn, args, argpl, dty):
    return ip.unop("Neg", _num(ip, ax, st, args[0]), None), st


def h_cmp(op):
    def h(ax, ip, inst, fid, bi, st, t, fn, args, argpl, dty):
        ra, rb = ip.materialize(args[0]), ip.materialize(args[1])
        a, pa = ax.deref1(ip, st, ra)
        b, pb = ax.deref1(ip, st, rb)
        # references to references (e.g. iterator items)
        if isinstance(a, Rf):
            a, pa = ax.deref1(ip, st, a)
        if isinstance(b, Rf):
            b, pb = ax.deref1(ip, st, b)
        same = pa is not None and pa == pb
        opn = {"lt": "Lt", "le": "Le", "gt": "Gt", "ge": "Ge", "eq": "Eq", "ne": "Ne"}[op]
        if isinstance(a, (Fl, In, DiscrIn, Bo)) and isinstance(b, (Fl, In, DiscrIn, Bo)):
            return ip.binop(opn, a, b, pa, pb, same, inst, bi, t.get("span")), st
        return Bo(True, True), st
    return h


def h_const(mk):
    def h(ax, ip, inst, fid, bi, st, t, fn, args, argpl, dty):
        tt = ax.F.types[dty] if dty is not None else None
        return mk(tt), st
    return h


def _zero(tt):
    if tt and tt["k"] == "int":
        return In(0, 0, tt["bits"], tt["signed"])
    return Fl.point(0)


def _one(tt):
    if tt and tt["k"] == "int":
        return In(1, 1, tt["bits"], tt["signed"])
    return Fl.point(1)


def _fmax(tt):
    return Fl.point(F32_MAX if tt and tt.get("bits") == 32 else F64_MAX)


def _fminpos(tt):
    return Fl.point(F32_MIN_POS if tt and tt.get("bits") == 32 else F64_MIN_POS)


def _feps(tt):
    return Fl.point(F32_EPS if tt and tt.get("bits") == 32 else F64_EPS)


def h_unary(f):
    def h(ax, ip, inst, fid, bi, st, t, fn, args, argpl, dty):
        a = _fl(ip, ax, st, args[0])
        if a is None:
            return Fl.top(), st
        return ip.fl_post(f(a)), st
    return h


def h_binary(f):
    def h(ax, ip, inst, fid, bi, st, t, fn, args, argpl, dty):
        a, b = _fl(ip, ax, st, args[0]), _fl(ip, ax, st, args[1])
        if a is None or b is None:
            return Fl.top(), st
        return ip.fl_post(f(a, b)), st
    return h


def fl_pow_ieee(x, y):
    """pow; for point operands whose exact result is far outside the double range the outcome is decided (overflow/underflow),
    which the later IEEE rounding step then turns into +inf / 0"""
    import math
    if x.is_point() and y.is_point() and x.ivs and y.ivs and x.ivs[0][0] > 0 and x.ivs[0][0] != 1:
        try:
            e = float(y.ivs[0][0]) * math.log2(float(x.ivs[0][0])) if float(x.ivs[0][0]) > 0 else None
        except (OverflowError, ValueError):
            e = None
        if e is not None:
            if e > 1100:
                return Fl.point(Fraction(2) ** 1100)      # rounds to +inf in either float format
            if e < -1200:
                return Fl.point(Fraction(2) ** -1200)     # rounds to +0
    return V.fl_pow(x, y)


def h_powi(ax, ip, inst, fid, bi, st, t, fn, args, argpl, dty):
    a = _fl(ip, ax, st, args[0])
    n = _num(ip, ax, st, args[1])
    if a is None or not isinstance(n, In):
        return Fl.top(), st
    return ip.fl_post(V.fl_powi(a, n.lo, n.hi)), st


def h_signum(ax, ip, inst, fid, bi, st, t, fn, args, argpl, dty):
    a = _fl(ip, ax, st, args[0])
    if a is None:
        return Fl.top(), st
    neg, z, pos = V.split_sign(a)
    ivs = []
    if pos or a.pinf or z:
        ivs.append((Fraction(1), True, Fraction(1), True))
    if neg or a.ninf or z:
        ivs.append((Fraction(-1), True, Fraction(-1), True))
    return Fl(ivs, nan=a.nan), st


def h_pred(name):
    def h(ax, ip, inst, fid, bi, st, t, fn, args, argpl, dty):
        r = ip.materialize(args[0])
        a, pa = ax.deref1(ip, st, r) if isinstance(r, Rf) else (r, argpl[0])
        if not isinstance(a, Fl):
            return Bo(True, True), st
        nm = name
        if name == "is_normal":
            # smallest positive normal of the float type at hand
            bits = None
            for ar in t["args"]:
                pass
            tyi = None
            if fn.get("targs"):
                tyi = fn["targs"][0]
            bits = ax.F.types[tyi]["bits"] if tyi is not None and ax.F.types[tyi]["k"] == "float" else 64
            nm = "is_normal:%s" % (F32_MIN_POS if bits == 32 else F64_MIN_POS)
        yes = fl_pred_refine(a, nm, True)
        no = fl_pred_refine(a, nm, False)
        if name == "is_normal":
            # zero is not normal
            pass
        return Bo(not yes.is_bottom(), not no.is_bottom(), ("pred", nm, (pa, a)), ip.stamp, (inst["key"] if inst else None, bi)), st
    return h


def h_numcast_from(ax, ip, inst, fid, bi, st, t, fn, args, argpl, dty):
    a = _num(ip, ax, st, args[0])
    ot = ax.F.types[dty] if dty is not None else None
    inner = None
    if ot and ot["k"] == "adt" and ot["args"]:
        inner = ax.F.types[ot["args"][0]]
    if inner and inner["k"] == "float":
        if isinstance(a, In):
            return ax.option(dty, some=Fl.rng(a.lo, True, a.hi, True)), st
        if isinstance(a, Fl):
            return ax.option(dty, some=a), st     # float -> float conversion never fails in num-traits
        return ax.option(dty, some=Fl.top()), st
    if inner and inner["k"] == "int":
        full = In.of_type(inner["bits"], inner["signed"])
        if isinstance(a, In):
            fits = a.lo >= full.lo and a.hi <= full.hi
            some = In(max(a.lo, full.lo), min(a.hi, full.hi), inner["bits"], inner["signed"])
            return ax.option(dty, some=None if some.is_bottom() else some, none=not fits), st
        if isinstance(a, Fl):
            v = ip.cast("FloatToInt", a, ot["args"][0])
            may_fail = a.nan or a.pinf or a.ninf or any(l < full.lo - 1 or h > full.hi + 1 for (l, lc, h, hc) in a.ivs)
            return ax.option(dty, some=v, none=bool(may_fail)), st
    return ip.top_of(dty), st


def h_to_int(ax, ip, inst, fid, bi, st, t, fn, args, argpl, dty):
    a = _num(ip, ax, st, args[0])
    ot = ax.F.types[dty]
    inner = ax.F.types[ot["args"][0]]
    full = In.of_type(inner["bits"], inner["signed"])
    if isinstance(a, Fl):
        v = ip.cast("FloatToInt", a, ot["args"][0])
        # num-traits: Some iff the truncated value is representable
        may_fail = a.nan or a.pinf or a.ninf or any(l <= full.lo - 1 or h >= full.hi + 1 for (l, lc, h, hc) in a.ivs)
        may_ok = any(not (h <= full.lo - 1 or l >= full.hi + 1) for (l, lc, h, hc) in a.ivs)
        return ax.option(dty, some=v if may_ok else None, none=bool(may_fail)), st
    return ip.top_of(dty), st


def h_clone_prim(ax, ip, inst, fid, bi, st, t, fn, args, argpl, dty):
    v, _ = ax.deref1(ip, st, args[0])
    return v, st


def h_identity(ax, ip, inst, fid, bi, st, t, fn, args, argpl, dty):
    return args[0], st


def h_default(ax, ip, inst, fid, bi, st, t, fn, args, argpl, dty):
    tt = ax.F.types[dty]
    if tt["k"] == "float":
        return Fl.point(0), st
    if tt["k"] == "int":
        return In(0, 0, tt["bits"], tt["signed"]), st
    if tt["k"] == "adt" and tt["path"] == "alloc::vec::Vec":
        return Vc(Top(tt["args"][0]), usize(0)), st
    return ip.top_of(dty), st


def h_into_float(ax, ip, inst, fid, bi, st, t, fn, args, argpl, dty):
    bits = _num(ip, ax, st, args[0])
    e = _num(ip, ax, st, args[1])
    if isinstance(e, In) and e.is_point():
        base = Fraction(2) ** e.lo
        # precondition of rand's IntoFloat: the integer fits the mantissa
        tt = ax.F.types[dty]
        mant = 52 if tt.get("bits") == 64 else 23
        if isinstance(bits, In) and bits.hi >= 1 << mant:
            ip.event("precondition:into_float", inst, bi, "argument of into_float_with_exponent may exceed the %d-bit mantissa" % mant, t.get("span"))
        mid = base * Fraction(3, 2)
        g = Fl([(base, False, mid, False), (mid, False, base * 2, False)])
        val = ax.draw(ip, inst, bi, "into_float[2^e,2^(e+1))", g, [("low", Fl.point(base)), ("mid", Fl.point(mid))])
        return val, st
    return Fl.finite(), st


def h_uniform_new(inclusive):
    def h(ax, ip, inst, fid, bi, st, t, fn, args, argpl, dty):
        lo, hi = _num(ip, ax, st, args[0]), _num(ip, ax, st, args[1])
        u = Ax("uniform", (lo, hi, inclusive))
        if isinstance(lo, Fl) and isinstance(hi, Fl):
            t_, f_ = V.cmp_outcomes("le" if inclusive else "lt", lo, hi)
            nonfinite = not (lo.is_finite() and hi.is_finite())
            ok = t_ and (lo.has_finite() and hi.has_finite())
            err = f_ or nonfinite
            return ax.result(dty, ok=u if ok else None, err=Top() if err else None), st
        if isinstance(lo, In) and isinstance(hi, In):
            t_, f_ = V.in_cmp("le" if inclusive else "lt", lo, hi)
            return ax.result(dty, ok=u if t_ else None, err=Top() if f_ else None), st
        return ax.result(dty, ok=u, err=Top()), st
    return h


def h_checked_add_assign(ax, ip, inst, fid, bi, st, t, fn, args, argpl, dty):
    r = ip.materialize(args[0])
    a = ax.deref(ip, st, r)
    b = _num(ip, ax, st, args[1])
    unit = UNIT
    if isinstance(a, Fl) and isinstance(b, Fl):
        val = V.fl_add(a, b)
        if isinstance(r, Rf) and r.place is not None:
            ip.write_resolved(st, ("place", r.place), val)
        return ax.result(dty, ok=unit), st
    if isinstance(a, In) and isinstance(b, In):
        lo, hi = a.lo + b.lo, a.hi + b.hi
        may_over = lo < a.tmin() or hi > a.tmax()
        may_ok = not (hi < a.tmin() or lo > a.tmax())
        if may_ok and isinstance(r, Rf) and r.place is not None:
            newv = In(max(lo, a.tmin()), min(hi, a.tmax()), a.bits, a.signed)
            # on Err the target is left unchanged: join
            ip.write_resolved(st, ("place", r.place), newv.join(a) if may_over else newv)
        return ax.result(dty, ok=unit if may_ok else None, err=unit if may_over else None), st
    return ax.result(dty, ok=unit, err=unit), st


# ---- vectors / slices / iterators
def _vec(ip, ax, st, v):
    v = ax.deref(ip, st, v)
    return v if isinstance(v, Vc) else None


def _vec_place(ip, ax, st, v):
    """(Vc value, place of the Vc) following references"""
    v = ip.materialize(v)
    place = None
    n = 0
    while isinstance(v, Rf) and n < 4:
        if v.place is not None:
            place = v.place
            v = ip.materialize(ip.read_resolved(st, ("place", v.place)))
        else:
            place = None
            v = ip.materialize(v.snap)
        n += 1
    return (v if isinstance(v, Vc) else None), place


def h_vec_new(ax, ip, inst, fid, bi, st, t, fn, args, argpl, dty):
    tt = ax.F.types[dty]
    return Vc(None, usize(0)), st


def h_vec_len(ax, ip, inst, fid, bi, st, t, fn, args, argpl, dty):
    v = _vec(ip, ax, st, args[0])
    if v is None:
        a = ax.deref(ip, st, args[0])
        if isinstance(a, Ax) and a.kind == "table":
            return usize(257), st
        return usize(0, (1 << 63) - 1), st
    return v.len, st


def h_vec_is_empty(ax, ip, inst, fid, bi, st, t, fn, args, argpl, dty):
    v = _vec(ip, ax, st, args[0])
    if v is None:
        return Bo(True, True), st
    return Bo(v.len.lo == 0, v.len.hi > 0), st


def h_vec_push(ax, ip, inst, fid, bi, st, t, fn, args, argpl, dty):
    v, place = _vec_place(ip, ax, st, args[0])
    if v is None or place is None:
        ip.imprecise.append("push on untracked vector")
        return UNIT, st
    elem = join(v.elem, args[1]) if v.elem is not None else args[1]
    ip.write_resolved(st, ("place", place), Vc(elem, In(v.len.lo + 1, min(v.len.hi + 1, (1 << 63) - 1), 64, False), v.head))
    return UNIT, st


def h_vec_pop(ax, ip, inst, fid, bi, st, t, fn, args, argpl, dty):
    v, place = _vec_place(ip, ax, st, args[0])
    if v is None:
        return ip.top_of(dty), st
    some = v.len.hi > 0
    none = v.len.lo == 0
    if place is not None and some:
        ip.write_resolved(st, ("place", place), Vc(v.elem, In(max(v.len.lo - 1, 0), v.len.hi - 1, 64, False), v.head if v.len.lo > 1 else None))
    return ax.option(dty, some=v.all_elems() if some else None, none=none), st


def h_index(mutable):
    def h(ax, ip, inst, fid, bi, st, t, fn, args, argpl, dty):
        v, place = _vec_place(ip, ax, st, args[0])
        idx = _num(ip, ax, st, args[1])
        if v is None:
            a = ax.deref(ip, st, args[0])
            return Rf(None, Top(), mutable), st
        if isinstance(idx, In):
            if idx.hi >= v.len.lo:
                ip.event("panic:index", inst, bi, "index may be out of bounds", t.get("span"))
            if idx.lo >= v.len.hi:
                return DIVERGE
            return Rf((place[0], place[1], place[2] + (("e", (idx.lo, idx.hi)),)) if place is not None else None, v.at(idx.lo, idx.hi), mutable), st
        # range index -> subslice of known length when the bounds are known
        rng = ip.materialize(idx)
        tpath = None
        a1 = t["args"][1]
        if inst is not None and a1.get("k") in ("copy", "move") and not a1["p"]:
            tpath = ax.F.types[inst["locals"][a1["l"]]["ty"]].get("path")
        if isinstance(rng, St) and tpath:
            fs = [ip.materialize(f) for f in rng.fields]
            fs = [f.iv if isinstance(f, DiscrIn) else f for f in fs]
            lo = hi = None
            if tpath == "core::ops::RangeTo" and len(fs) == 1:
                lo, hi = usize(0), fs[0]
            elif tpath == "core::ops::RangeFrom" and len(fs) == 1:
                lo, hi = fs[0], v.len
            elif tpath == "core::ops::Range" and len(fs) == 2:
                lo, hi = fs[0], fs[1]
            elif tpath == "core::ops::RangeFull":
                return Rf(place, v, mutable), st
            if isinstance(lo, In) and isinstance(hi, In):
                if hi.hi > v.len.lo or lo.hi > hi.lo:
                    ip.event("panic:index", inst, bi, "slice range may be out of bounds", t.get("span"))
                n = In(max(hi.lo - lo.hi, 0), max(hi.hi - lo.lo, 0), 64, False)
                n = In(min(n.lo, v.len.hi), min(n.hi, v.len.hi), 64, False)
                # a sub-slice starting at 0 keeps the separately tracked first element, one starting later drops it
                if lo.hi == 0:
                    sub = Vc(v.elem, n, v.head)
                elif lo.lo >= 1:
                    sub = Vc(v.elem, n)
                else:
                    sub = Vc(v.all_elems(), n)
                # writes through a sub-slice reach the parent only as weak element updates
                return Rf((place[0], place[1], place[2] + (("s",),)) if place is not None and mutable else None, sub, mutable), st
        return Rf(None, Vc(v.all_elems(), In(0, v.len.hi, 64, False)), mutable), st
    return h


def h_first(ax, ip, inst, fid, bi, st, t, fn, args, argpl, dty):
    v, place = _vec_place(ip, ax, st, args[0])
    if v is None:
        return ip.top_of(dty), st
    r = Rf((place[0], place[1], place[2] + (("e", (0, 0)),)) if place is not None else None, v.at(0, 0), False)
    return ax.option(dty, some=r if v.len.hi > 0 else None, none=v.len.lo == 0), st


def h_last(mutable):
    """`slice.last()` / `slice.last_mut()`: a reference to the element at len - 1 (the same element `slice[slice.len() - 1]` names), None when empty."""
    def h(ax, ip, inst, fid, bi, st, t, fn, args, argpl, dty):
        v, place = _vec_place(ip, ax, st, args[0])
        if v is None:
            return ip.top_of(dty), st
        if v.len.hi == 0:
            return ax.option(dty, some=None, none=True), st
        lo, hi = max(v.len.lo - 1, 0), v.len.hi - 1
        r = Rf((place[0], place[1], place[2] + (("e", (lo, hi)),)) if place is not None else None, v.at(lo, hi), mutable)
        return ax.option(dty, some=r, none=v.len.lo == 0), st
    return h


def h_from_elem(ax, ip, inst, fid, bi, st, t, fn, args, argpl, dty):
    n = _num(ip, ax, st, args[1])
    return Vc(args[0], n if isinstance(n, In) else usize(0, (1 << 63) - 1)), st


def h_as_slice(ax, ip, inst, fid, bi, st, t, fn, args, argpl, dty):
    # &Vec<T> -> &[T] (same summary); keep the place so that writes through iter_mut reach the vector
    return args[0], st


def h_into_boxed(ax, ip, inst, fid, bi, st, t, fn, args, argpl, dty):
    return ax.deref(ip, st, args[0]) if isinstance(ip.materialize(args[0]), Rf) else args[0], st


def h_iter(mutable):
    def h(ax, ip, inst, fid, bi, st, t, fn, args, argpl, dty):
        v, place = _vec_place(ip, ax, st, args[0])
        if v is None:
            a = ax.deref(ip, st, args[0])
            if isinstance(a, Ax) and a.kind in ("iter", "range"):
                return a, st
            return Ax("iter", (Top(), usize(0, (1 << 63) - 1))), st
        # with a separately tracked first element the summary reference stands for the elements at index >= 1 only
        etail = ("e", (1, (1 << 63) - 1)) if v.head is not None else ("e",)
        eplace = (place[0], place[1], place[2] + (etail,)) if place is not None else None
        hplace = (place[0], place[1], place[2] + (("e", (0, 0)),)) if place is not None else None
        head = Rf(hplace, v.head, mutable) if v.head is not None else None
        return Ax("iter", (Rf(eplace, v.elem, mutable), v.len, None, head)), st
    return h


def h_into_iter(ax, ip, inst, fid, bi, st, t, fn, args, argpl, dty):
    a = ip.materialize(args[0])
    if isinstance(a, Ax) and a.kind in ("iter", "range"):
        return a, st
    if isinstance(a, Vc):
        return Ax("iter", (a.elem, a.len, None, a.head)), st
    if isinstance(a, Rf):
        v, place = _vec_place(ip, ax, st, a)
        if v is not None:
            etail = ("e", (1, (1 << 63) - 1)) if v.head is not None else ("e",)
            eplace = (place[0], place[1], place[2] + (etail,)) if place is not None else None
            hplace = (place[0], place[1], place[2] + (("e", (0, 0)),)) if place is not None else None
            head = Rf(hplace, v.head, a.mut) if v.head is not None else None
            return Ax("iter", (Rf(eplace, v.elem, a.mut), v.len, None, head)), st
    if isinstance(a, St) and len(a.fields) == 2 and isinstance(ip.materialize(a.fields[0]), In):
        return a, st       # Range<int> is its own iterator
    if isinstance(a, St):
        return a, st
    return Ax("iter", (Top(), usize(0, (1 << 63) - 1))), st


def _iter_head(a):
    return a.data[3] if len(a.data) > 3 else None


def _iter_parts(ip, a):
    """(summary of every remaining element, remaining length) — the separately tracked head folded in"""
    a = ip.materialize(a)
    if isinstance(a, Ax) and a.kind == "iter":
        h = _iter_head(a)
        return (join(h, a.data[0]) if h is not None else a.data[0]), a.data[1]
    return None, None


def h_iter_next(ax, ip, inst, fid, bi, st, t, fn, args, argpl, dty):
    r = ip.materialize(args[0])
    it = ax.deref(ip, st, r)
    if isinstance(it, Ax) and it.kind == "iter":
        elem, ln = it.data[0], it.data[1]
        head = _iter_head(it)
        some = ln.hi > 0
        none = ln.lo == 0
        rest = Ax("iter", (it.data[0], In(max(ln.lo - 1, 0), ln.hi - 1, 64, False), it.data[2] if len(it.data) > 2 else None, None))
        if isinstance(r, Rf) and r.place is not None and some:
            ip.write_resolved(st, ("place", r.place), rest)
        if head is not None:
            elem = head       # the first element comes out first
        if it.data[2:] and it.data[2] is not None:
            # mapped iterator: apply the closure
            res = ip.call_value(it.data[2], [elem], st, inst, bi)
            if res is DIVERGE:
                return DIVERGE
            elem, st = res
        return ax.option(dty, some=elem if some else None, none=none), st
    if isinstance(it, St) and len(it.fields) >= 2:
        lo, hi = ip.materialize(it.fields[0]), ip.materialize(it.fields[1])
        if isinstance(lo, In) and isinstance(hi, In):
            inclusive = len(it.fields) == 3
            # Range / RangeInclusive over integers
            if inclusive:
                some, none = lo.lo <= hi.hi, True
                val = In(lo.lo, min(lo.hi, hi.hi), lo.bits, lo.signed)
            else:
                some, none = lo.lo < hi.hi, lo.hi >= hi.lo
                val = In(lo.lo, min(lo.hi, hi.hi - 1), lo.bits, lo.signed)
            if isinstance(r, Rf) and r.place is not None and some:
                nlo = In(lo.lo + (0 if none else 1), min(lo.hi + 1, lo.tmax()), lo.bits, lo.signed)
                nf = list(it.fields)
                nf[0] = nlo.join(lo) if none else nlo
                ip.write_resolved(st, ("place", r.place), St(it.ty, nf))
            return ax.option(dty, some=val if some else None, none=none), st
    return ip.top_of(dty), st


def h_zip(ax, ip, inst, fid, bi, st, t, fn, args, argpl, dty):
    ea, la = _iter_parts(ip, args[0])
    b = ip.materialize(args[1])
    if not (isinstance(b, Ax) and b.kind == "iter"):
        r = h_into_iter(ax, ip, inst, fid, bi, st, t, fn, [b], [None], None)
        b = r[0]
    eb, lb = _iter_parts(ip, b)
    if ea is None or eb is None:
        return Ax("iter", (Top(), usize(0, (1 << 63) - 1))), st
    return Ax("iter", (St(None, [ea, eb]), In(min(la.lo, lb.lo), min(la.hi, lb.hi), 64, False))), st


def h_rev(ax, ip, inst, fid, bi, st, t, fn, args, argpl, dty):
    return args[0], st


def h_copied(ax, ip, inst, fid, bi, st, t, fn, args, argpl, dty):
    a0 = ip.materialize(args[0])
    if isinstance(a0, Ax) and a0.kind == "iter":
        h = _iter_head(a0)
        return Ax("iter", (ax.deref(ip, st, a0.data[0]), a0.data[1], a0.data[2] if len(a0.data) > 2 else None,
                           ax.deref(ip, st, h) if h is not None else None)), st
    return args[0], st


def h_enumerate(ax, ip, inst, fid, bi, st, t, fn, args, argpl, dty):
    e, ln = _iter_parts(ip, args[0])
    if e is None:
        return args[0], st
    return Ax("iter", (St(None, [usize(0, max(ln.hi - 1, 0)), e]), ln)), st


def h_map(ax, ip, inst, fid, bi, st, t, fn, args, argpl, dty):
    e, ln = _iter_parts(ip, args[0])
    if e is None:
        a = ip.materialize(args[0])
        if isinstance(a, St) and len(a.fields) >= 2 and isinstance(ip.materialize(a.fields[0]), In):
            lo, hi = ip.materialize(a.fields[0]), ip.materialize(a.fields[1])
            n = In(max(hi.lo - lo.hi, 0), max(hi.hi - lo.lo, 0), 64, False)
            return Ax("iter", (In(lo.lo, max(hi.hi - 1, lo.lo), lo.bits, lo.signed), n, args[1])), st
        return Ax("iter", (Top(), usize(0, (1 << 63) - 1))), st
    return Ax("iter", (e, ln, args[1])), st


def h_all(ax, ip, inst, fid, bi, st, t, fn, args, argpl, dty):
    r = ip.materialize(args[0])
    it = ax.deref(ip, st, r)
    e, ln = _iter_parts(ip, it)
    if e is None:
        return Bo(True, True), st
    if ln.hi == 0:
        return Bo(True, False), st
    head = _iter_head(it) if isinstance(it, Ax) else None
    parts = [it.data[0]] if head is None else ([head] + ([it.data[0]] if ln.hi > 1 else []))
    t_all, f_any = True, False
    for p_ in parts:
        res = ip.call_value(args[1], [p_], st, inst, bi)
        if res is DIVERGE:
            return DIVERGE
        b, st = res
        b = ip.materialize(b)
        if not isinstance(b, Bo):
            return Bo(True, True), st
        t_all = t_all and b.t
        f_any = f_any or b.f
    # all(): true iff every element satisfies the predicate
    return Bo(t_all or ln.lo == 0, f_any), st


def h_any(ax, ip, inst, fid, bi, st, t, fn, args, argpl, dty):
    """`iter.any(pred)`, the dual of h_all: may be true iff the predicate may be true on some part; may be false iff it may be false on every part
    (or the iterator may be empty)."""
    r = ip.materialize(args[0])
    it = ax.deref(ip, st, r)
    e, ln = _iter_parts(ip, it)
    if e is None:
        return Bo(True, True), st
    if ln.hi == 0:
        return Bo(False, True), st
    head = _iter_head(it) if isinstance(it, Ax) else None
    parts = [it.data[0]] if head is None else ([head] + ([it.data[0]] if ln.hi > 1 else []))
    t_any, f_all = False, True
    for p_ in parts:
        res = ip.call_value(args[1], [p_], st, inst, bi)
        if res is DIVERGE:
            return DIVERGE
        b, st = res
        b = ip.materialize(b)
        if not isinstance(b, Bo):
            return Bo(True, True), st
        t_any = t_any or b.t
        f_all = f_all and b.f
    return Bo(t_any, f_all or ln.lo == 0), st


def h_sum(ax, ip, inst, fid, bi, st, t, fn, args, argpl, dty):
    e, ln = _iter_parts(ip, args[0])
    tt = ax.F.types[dty] if dty is not None else {"k": "?"}
    if e is None:
        return ip.top_of(dty), st
    e = ax.deref(ip, st, e)
    if isinstance(e, Fl):
        # sum of n copies of the summary element
        if ln.hi == 0:
            return Fl.point(0), st
        neg, z, pos = V.split_sign(e)
        ivs = []
        lo = e.lo()
        hi = e.hi()
        if not e.ivs:
            return Fl((), e.pinf, e.ninf, e.nan or (e.pinf and e.ninf), e.nz), st
        l0, h0 = e.ivs[0][0], e.ivs[-1][2]
        lc, hc = e.ivs[0][1], e.ivs[-1][3]
        nlo = l0 * ln.lo if l0 >= 0 else (V.NINF if ln.hi > 1 << 40 else l0 * ln.hi) if l0 != V.NINF else V.NINF
        nhi = h0 * ln.lo if h0 <= 0 else (V.INF if ln.hi > 1 << 40 else h0 * ln.hi) if h0 != V.INF else V.INF
        if l0 >= 0 and ln.lo == 0:
            nlo, lc = Fraction(0), True
        if h0 <= 0 and ln.lo == 0:
            nhi, hc = Fraction(0), True
        if l0 >= 0 and l0 != V.NINF and ln.lo > 0:
            nlo = l0 * ln.lo
        if nlo != V.NINF and nhi != V.INF and nlo > nhi:
            nlo, nhi = nhi, nlo
        return Fl([(nlo, lc, nhi, hc)], e.pinf, e.ninf, e.nan or (e.pinf and e.ninf)), st
    if isinstance(e, In):
        lo = e.lo * (ln.hi if e.lo < 0 else ln.lo)
        hi = e.hi * (ln.hi if e.hi > 0 else ln.lo)
        full = In.of_type(e.bits, e.signed)
        if lo < full.lo or hi > full.hi:
            ip.event("panic:assert:Overflow:Add", inst, bi, "Overflow in iterator sum", t.get("span"))
        return In(max(lo, full.lo), min(hi, full.hi), e.bits, e.signed), st
    return ip.top_of(dty), st


def h_collect(ax, ip, inst, fid, bi, st, t, fn, args, argpl, dty):
    it = ip.materialize(args[0])
    e, ln = _iter_parts(ip, it)
    if e is None:
        return ip.top_of(dty), st
    if it.data[2:] and it.data[2] is not None and ln.hi > 0:
        res = ip.call_value(it.data[2], [e], st, inst, bi)
        if res is DIVERGE:
            return DIVERGE
        e, st = res
    return Vc(e, ln), st


def h_fold(ax, ip, inst, fid, bi, st, t, fn, args, argpl, dty):
    e, ln = _iter_parts(ip, args[0])
    init = args[1]
    if e is None:
        return ip.top_of(dty), st
    acc = init
    if isinstance(ln, In) and ln.lo == ln.hi and ln.lo <= 4096:
        # exactly known length: apply the closure that many times (first to the separately tracked head, if any)
        it = ip.materialize(args[0])
        head = _iter_head(it) if isinstance(it, Ax) else None
        for k_ in range(ln.lo):
            x = head if (k_ == 0 and head is not None) else (it.data[0] if head is not None else e)
            res = ip.call_value(args[2], [acc, x], st, inst, bi)
            if res is DIVERGE:
                return DIVERGE
            acc, st = res
        return acc, st
    for _ in range(4):
        res = ip.call_value(args[2], [acc, e], st, inst, bi)
        if res is DIVERGE:
            return DIVERGE
        nv, st = res
        j = join(acc, nv)
        if j == acc:
            break
        acc = j
    else:
        acc = ip.top_of(dty)
    return acc, st


def h_split_at(ax, ip, inst, fid, bi, st, t, fn, args, argpl, dty):
    v, place = _vec_place(ip, ax, st, args[0])
    mid = _num(ip, ax, st, args[1])
    if v is None or not isinstance(mid, In):
        return ip.top_of(dty), st
    if mid.hi > v.len.lo:
        ip.event("panic:index", inst, bi, "split_at beyond the length", t.get("span"))
    a = Vc(v.elem, In(mid.lo, min(mid.hi, v.len.hi), 64, False))
    b = Vc(v.elem, In(max(v.len.lo - mid.hi, 0), max(v.len.hi - mid.lo, 0), 64, False))
    return St(None, [Rf(None, a, False), Rf(None, b, False)]), st


def h_chunks(exact):
    """slice::chunks_exact(k) / chunks(k): an iterator of sub-slices; with an exactly known length the number of chunks is exact
    (chunks_exact drops the remainder of len % k elements — `remainder()` is not modelled)."""
    def h(ax, ip, inst, fid, bi, st, t, fn, args, argpl, dty):
        v, place = _vec_place(ip, ax, st, args[0])
        k = _num(ip, ax, st, args[1])
        if v is None or not isinstance(k, In) or k.lo != k.hi or k.lo <= 0:
            return NOT_HANDLED
        k = k.lo
        e = v.all_elems()
        n = v.len
        if exact:
            cnt = In(n.lo // k, n.hi // k, 64, False)
            chunk = Vc(e, usize(k))
        else:
            cnt = In(-(-n.lo // k), -(-n.hi // k), 64, False)
            short = n.lo % k if (n.lo == n.hi and n.lo % k) else (k if n.lo == n.hi else 1)
            chunk = Vc(e, usize(min(short, k), k))
        return Ax("iter", (Rf(None, chunk, False), cnt, None)), st
    return h


def h_minmax_ord(is_min):
    def h(ax, ip, inst, fid, bi, st, t, fn, args, argpl, dty):
        a, b = _num(ip, ax, st, args[0]), _num(ip, ax, st, args[1])
        if isinstance(a, In) and isinstance(b, In):
            if is_min:
                return In(min(a.lo, b.lo), min(a.hi, b.hi), a.bits, a.signed), st
            return In(max(a.lo, b.lo), max(a.hi, b.hi), a.bits, a.signed), st
        if isinstance(a, Fl) and isinstance(b, Fl):
            return (V.fl_min(a, b) if is_min else V.fl_max(a, b)), st
        return ip.top_of(dty), st
    return h


def h_range_incl_new(ax, ip, inst, fid, bi, st, t, fn, args, argpl, dty):
    return St(dty, [args[0], args[1], Bo(False, True)]), st


def h_leading_zeros(ax, ip, inst, fid, bi, st, t, fn, args, argpl, dty):
    a = _num(ip, ax, st, args[0])
    if isinstance(a, In) and a.lo >= 0:
        return In(a.bits - a.hi.bit_length(), a.bits - a.lo.bit_length(), 32, False), st
    return In(0, 128, 32, False), st


def h_abs_diff(ax, ip, inst, fid, bi, st, t, fn, args, argpl, dty):
    a, b = _num(ip, ax, st, args[0]), _num(ip, ax, st, args[1])
    tt = ax.F.types[dty]
    if isinstance(a, In) and isinstance(b, In):
        c = [abs(a.lo - b.lo), abs(a.lo - b.hi), abs(a.hi - b.lo), abs(a.hi - b.hi)]
        lo = 0 if not (a.hi < b.lo or b.hi < a.lo) else min(c)
        return In(lo, max(c), tt["bits"], tt["signed"]), st
    return ip.top_of(dty), st


def h_contains(ax, ip, inst, fid, bi, st, t, fn, args, argpl, dty):
    """RangeInclusive::contains(&self, &item): start <= item && item <= end"""
    r = ax.deref(ip, st, args[0])
    item_ref = ip.materialize(args[1])
    item, pitem = ax.deref1(ip, st, item_ref)
    if isinstance(item, Rf):
        item, pitem = ax.deref1(ip, st, item)
    if isinstance(r, St) and len(r.fields) >= 2:
        lo, hi = ip.materialize(r.fields[0]), ip.materialize(r.fields[1])
        if isinstance(lo, type(item)) and isinstance(hi, type(item)) and isinstance(item, (Fl, In)):
            b1 = ip.binop("Le", lo, item, None, pitem, False, inst, bi, None)
            b2 = ip.binop("Le", item, hi, pitem, None, False, inst, bi, None)
            return Bo(b1.t and b2.t, b1.f or b2.f, ("and", b1.origin, b2.origin), ip.stamp, (inst["key"] if inst else None, bi)), st
    return Bo(True, True), st


TRAIT_AXIOMS = {
    ("Mul", "mul"): h_arith("Mul"), ("Add", "add"): h_arith("Add"), ("Sub", "sub"): h_arith("Sub"), ("Div", "div"): h_arith("Div"),
    ("Rem", "rem"): h_arith("Rem"), ("Neg", "neg"): h_neg,
    ("BitAnd", "bitand"): h_arith("BitAnd"), ("BitOr", "bitor"): h_arith("BitOr"), ("Shl", "shl"): h_arith("Shl"), ("Shr", "shr"): h_arith("Shr"),
    ("AddAssign", "add_assign"): h_arith_assign("Add"), ("SubAssign", "sub_assign"): h_arith_assign("Sub"),
    ("MulAssign", "mul_assign"): h_arith_assign("Mul"), ("DivAssign", "div_assign"): h_arith_assign("Div"),
    ("PartialOrd", "lt"): h_cmp("lt"), ("PartialOrd", "le"): h_cmp("le"), ("PartialOrd", "gt"): h_cmp("gt"), ("PartialOrd", "ge"): h_cmp("ge"),
    ("PartialEq", "eq"): h_cmp("eq"), ("PartialEq", "ne"): h_cmp("ne"),
    ("One", "one"): h_const(_one), ("Zero", "zero"): h_const(_zero),
    ("Float", "infinity"): h_const(lambda tt: Fl(pinf=True)), ("Float", "neg_infinity"): h_const(lambda tt: Fl(ninf=True)),
    ("Float", "nan"): h_const(lambda tt: Fl(nan=True)), ("Float", "max_value"): h_const(_fmax),
    ("Float", "min_value"): h_const(lambda tt: V.fl_neg(_fmax(tt))), ("Float", "min_positive_value"): h_const(_fminpos),
    ("Float", "epsilon"): h_const(_feps),
    ("Bounded", "max_value"): h_const(lambda tt: _fmax(tt) if tt and tt["k"] == "float" else In(In.of_type(tt["bits"], tt["signed"]).hi, In.of_type(tt["bits"], tt["signed"]).hi, tt["bits"], tt["signed"])),
    ("FloatConst", "PI"): h_const(lambda tt: Fl.point(3.141592653589793)), ("FloatConst", "E"): h_const(lambda tt: Fl.point(2.718281828459045)),
    ("FloatConst", "FRAC_PI_2"): h_const(lambda tt: Fl.point(1.5707963267948966)), ("FloatConst", "TAU"): h_const(lambda tt: Fl.point(6.283185307179586)),
    ("FloatConst", "SQRT_2"): h_const(lambda tt: Fl.point(1.4142135623730951)), ("FloatConst", "LN_2"): h_const(lambda tt: Fl.point(0.6931471805599453)),
    ("FloatConst", "FRAC_1_SQRT_2"): h_const(lambda tt: Fl.point(0.7071067811865476)), ("FloatConst", "FRAC_2_SQRT_PI"): h_const(lambda tt: Fl.point(1.1283791670955126)),
    ("Float", "ln"): h_unary(V.fl_ln), ("Float", "exp"): h_unary(V.fl_exp), ("Float", "sqrt"): h_unary(V.fl_sqrt),
    ("Float", "floor"): h_unary(V.fl_floor), ("Float", "ceil"): h_unary(V.fl_ceil), ("Float", "abs"): h_unary(V.fl_abs),
    ("Float", "recip"): h_unary(V.fl_recip), ("Float", "tan"): h_unary(V.fl_tan), ("Float", "powf"): h_binary(fl_pow_ieee),
    ("Float", "powi"): h_powi, ("Float", "max"): h_binary(V.fl_max), ("Float", "min"): h_binary(V.fl_min), ("Float", "signum"): h_signum,
    ("Float", "is_nan"): h_pred("is_nan"), ("Float", "is_finite"): h_pred("is_finite"), ("Float", "is_infinite"): h_pred("is_infinite"),
    ("Float", "is_normal"): h_pred("is_normal"), ("Float", "is_sign_negative"): h_pred("is_sign_negative"),
    ("Float", "is_sign_positive"): h_pred("is_sign_positive"),
    ("NumCast", "from"): h_numcast_from, ("ToPrimitive", "to_usize"): h_to_int, ("ToPrimitive", "to_u64"): h_to_int, ("ToPrimitive", "to_i64"): h_to_int,
    ("Default", "default"): h_default,
    ("IntoFloat", "into_float_with_exponent"): h_into_float,
    ("Weight", "checked_add_assign"): h_checked_add_assign,
    ("SampleBorrow", "borrow"): h_identity, ("Borrow", "borrow"): h_identity, ("Deref", "deref"): h_as_slice, ("DerefMut", "deref_mut"): h_as_slice,
    ("Index", "index"): h_index(False), ("IndexMut", "index_mut"): h_index(True),
    ("IntoIterator", "into_iter"): h_into_iter,
    ("Iterator", "next"): h_iter_next, ("Iterator", "zip"): h_zip, ("Iterator", "rev"): h_rev, ("Iterator", "copied"): h_copied,
    ("Iterator", "cloned"): h_copied, ("Iterator", "enumerate"): h_enumerate, ("Iterator", "map"): h_map, ("Iterator", "all"): h_all, ("Iterator", "any"): h_any,
    ("Iterator", "sum"): h_sum, ("Iterator", "collect"): h_collect, ("Iterator", "fold"): h_fold,
    ("Ord", "max"): h_minmax_ord(False), ("Ord", "min"): h_minmax_ord(True),
}

PATH_AXIOMS = [(re.compile(p), h) for p, h in [
    (r"^(std|core)::F::<impl F>::ln$", h_unary(V.fl_ln)), (r"^(std|core)::F::<impl F>::exp$", h_unary(V.fl_exp)),
    (r"^(std|core)::F::<impl F>::sqrt$", h_unary(V.fl_sqrt)), (r"^(std|core)::F::<impl F>::floor$", h_unary(V.fl_floor)),
    (r"^(std|core)::F::<impl F>::ceil$", h_unary(V.fl_ceil)), (r"^(std|core)::F::<impl F>::abs$", h_unary(V.fl_abs)),
    (r"^(std|core)::F::<impl F>::recip$", h_unary(V.fl_recip)), (r"^(std|core)::F::<impl F>::tan$", h_unary(V.fl_tan)),
    (r"^(std|core)::F::<impl F>::powf$", h_binary(fl_pow_ieee)), (r"^(std|core)::F::<impl F>::powi$", h_powi),
    (r"^(std|core)::F::<impl F>::max$", h_binary(V.fl_max)), (r"^(std|core)::F::<impl F>::min$", h_binary(V.fl_min)),
    (r"^(std|core)::F::<impl F>::is_nan$", h_pred("is_nan")), (r"^(std|core)::F::<impl F>::is_finite$", h_pred("is_finite")),
    (r"^(std|core)::F::<impl F>::is_infinite$", h_pred("is_infinite")), (r"^(std|core)::F::<impl F>::signum$", h_signum),
    (r"^core::clone::impls::<impl core::clone::Clone for (F|INT|bool)>::clone$", h_clone_prim),
    (r"^rand::distr::Uniform::<X>::new$", h_uniform_new(False)), (r"^rand::distr::Uniform::<X>::new_inclusive$", h_uniform_new(True)),
    (r"^alloc::vec::Vec::<T>::new$", h_vec_new), (r"^alloc::vec::Vec::<T, A>::len$", h_vec_len), (r"^core::slice::<impl \[T\]>::len$", h_vec_len),
    (r"^alloc::vec::Vec::<T, A>::is_empty$", h_vec_is_empty), (r"^core::slice::<impl \[T\]>::is_empty$", h_vec_is_empty),
    (r"^alloc::vec::Vec::<T, A>::push$", h_vec_push), (r"^alloc::vec::Vec::<T, A>::pop$", h_vec_pop),
    (r"^alloc::vec::Vec::<T, A>::with_capacity$", h_vec_new),
    (r"^core::slice::<impl \[T\]>::first$", h_first), (r"^core::slice::<impl \[T\]>::last$", h_last(False)), (r"^core::slice::<impl \[T\]>::last_mut$", h_last(True)), (r"^alloc::vec::from_elem$", h_from_elem),
    (r"^alloc::vec::Vec::<T, A>::as_slice$", h_as_slice), (r"^alloc::vec::Vec::<T, A>::as_mut_slice$", h_as_slice),
    (r"^alloc::vec::Vec::<T, A>::into_boxed_slice$", h_into_boxed),
    (r"^core::slice::<impl \[T\]>::iter$", h_iter(False)), (r"^core::slice::<impl \[T\]>::iter_mut$", h_iter(True)),
    (r"^core::slice::<impl \[T\]>::split_at$", h_split_at),
    (r"^core::slice::<impl \[T\]>::chunks_exact$", h_chunks(True)), (r"^core::slice::<impl \[T\]>::chunks$", h_chunks(False)),
    (r"^core::ops::RangeInclusive::<Idx>::new$", h_range_incl_new), (r"^core::ops::RangeInclusive::<Idx>::contains$", h_contains),
    (r"^core::num::<impl INT>::leading_zeros$", h_leading_zeros), (r"^core::num::<impl INT>::abs_diff$", h_abs_diff),
    (r"^<alloc::boxed::Box<\[T\], A> as core::clone::Clone>::clone$", h_clone_prim),
    (r"^<rand::distr::Uniform<X> as core::clone::Clone>::clone$", h_clone_prim),
]]
