"""C04 — constructors accept exactly the documented domain and never panic.

Every public constructor instance is run in the abstract interpreter (E2) on every case of a partition of its argument
space: special values (NaN, ±inf, ±0) and the cells between the constants the code and the documentation compare
against; arguments that are compared with each other additionally range over a ladder of disjoint cells that realises
every weak ordering.  The abstract outcome set (Ok / Err(variant) / panic) is compared with the oracle in spec_c04.py.
"""
import itertools
import multiprocessing
import os
from fractions import Fraction

import values as V
from absint import Interp, En, St, Rf, Vc, Top, DIVERGE, usize
from axioms import Axioms, F32_MIN_POS, F64_MIN_POS, F32_MAX, F64_MAX
from facts import span_str
from mirutil import const_value
from spec_c04 import SPEC
from values import Fl, In


class Cell:
    """One cell of the partition of a float (or integer) argument."""

    def __init__(self, name, value, lo=None, hi=None, kind="f"):
        self.name = name
        self.value = value
        self.kind = kind
        self.nan = self.pinf = self.ninf = self.pzero = self.nzero = False
        self.lo, self.hi = lo, hi
        if kind == "f":
            self.nan = value.nan
            self.pinf = value.pinf
            self.ninf = value.ninf
            self.nzero = value.nz
            self.pzero = value.contains(0) and value.is_point()
        self.zero = self.pzero or self.nzero or (kind != "f" and lo == 0 and hi == 0)
        if self.zero:
            self.lo = self.hi = lo = hi = Fraction(0)
        fin = lo is not None
        self.inf_point = kind == "f" and (self.pinf or self.ninf) and not fin
        self.neg = fin and hi <= 0 and not self.zero
        self.pos = fin and lo >= 0 and not self.zero
        self.point = (fin and lo == hi) or self.inf_point

    def _chk(self, k):
        k = Fraction(k)
        if self.lo is not None and self.lo < k < self.hi:
            raise ValueError("cell %s straddles the constant %s: partition is missing a cut" % (self.name, k))
        return k

    def gt(self, k):
        k = self._chk(k)
        if self.nan or self.ninf:
            return False
        if self.pinf:
            return True
        return self.lo >= k and not (self.point and self.lo == k)

    def lt(self, k):
        k = self._chk(k)
        if self.nan or self.pinf:
            return False
        if self.ninf:
            return True
        return self.hi <= k and not (self.point and self.hi == k)

    def le(self, k):
        return not self.nan and not self.gt(k)

    def ge(self, k):
        return not self.nan and not self.lt(k)

    def rng(self):
        """(lo, hi) on the extended reals for relational decisions"""
        if self.nan:
            return None
        if self.pinf:
            return (V.INF, V.INF)
        if self.ninf:
            return (V.NINF, V.NINF)
        return (self.lo, self.hi)

    def __repr__(self):
        return self.name


class Case(dict):
    def _rel(self, a, b):
        """-1 if a<b, 0 if a==b, 1 if a>b for every member pair; None if undecided"""
        ra, rb = self[a].rng(), self[b].rng()
        if ra is None or rb is None:
            return None
        if ra[0] == ra[1] == rb[0] == rb[1]:
            return 0
        a_open = not self[a].point
        b_open = not self[b].point
        if ra[1] < rb[0] or (ra[1] == rb[0] and (a_open or b_open)):
            return -1
        if rb[1] < ra[0] or (rb[1] == ra[0] and (a_open or b_open)):
            return 1
        return None

    def lt(self, a, b):
        r = self._rel(a, b)
        if r is None:
            raise Undecided()
        return r < 0

    def eq(self, a, b):
        r = self._rel(a, b)
        if r is None:
            raise Undecided()
        return r == 0

    def abs_ge(self, b, a):
        """|b| >= a ?  (None if the cells do not decide it)"""
        rb, ra = self[b].rng(), self[a].rng()
        if rb is None or ra is None:
            return None
        if rb[0] < 0 < rb[1]:
            return None
        lo, hi = sorted((abs(rb[0]), abs(rb[1])))
        b_open = not self[b].point
        a_open = not self[a].point
        if lo > ra[1] or (lo == ra[1] and not (b_open and a_open) and True):
            # |b| >= a for all members (equality possible only when both are the same point)
            if lo == ra[1] and (b_open or a_open) and not (self[b].point and self[a].point):
                return True
            return True
        if hi < ra[0] or (hi == ra[0] and (b_open or a_open)):
            return False
        return None


class Undecided(Exception):
    pass


class SliceCell:
    """A homogeneous slice: every element in one cell, length in [len_lo, len_hi]"""

    def __init__(self, elem, len_lo, len_hi, min_pos, head=None):
        self.elem, self.len_lo, self.len_hi, self.min_pos, self.head = elem, len_lo, len_hi, min_pos, head
        ln = len_lo if len_lo == len_hi else "%d..%d" % (len_lo, len_hi)
        if head is None:
            self.name = "[%s; len %s]" % (elem.name, ln)
            self.value = Rf(None, Vc(elem.value, usize(len_lo, len_hi)), False)
        else:
            self.name = "[%s, then %s; len %s]" % (head.name, elem.name, ln)
            self.value = Rf(None, Vc(elem.value, usize(len_lo, len_hi), head.value), False)
        self.elems = [elem] if head is None else [head, elem]
        self.nan = self.pinf = self.ninf = False

    def rng(self):
        return None

    def __repr__(self):
        return self.name


LADDER = [1, 2]
LADDER_THOROUGH = [-2, -1, 1, 2, 3]


def float_cells(bits, cuts, thorough=False, extremes=False):
    cells = [Cell("nan", Fl(nan=True)), Cell("-inf", Fl(ninf=True)), Cell("+inf", Fl(pinf=True)),
             Cell("-0", Fl(nz=True)), Cell("+0", Fl.point(0))]
    pts = sorted({Fraction(c) for c in cuts if c == c and abs(c) != float("inf") and c != 0})
    if thorough or extremes:
        mp, mx = (F32_MIN_POS, F32_MAX) if bits == 32 else (F64_MIN_POS, F64_MAX)
        tiny = Fraction(2) ** (-149 if bits == 32 else -1074)       # smallest positive subnormal
        pts = sorted(set(pts) | ({mp, mx, -mp, -mx, tiny} if thorough else {mx, tiny}))
    allp = sorted(set(pts) | {Fraction(0)})
    for i, p in enumerate(allp):
        if p != 0:
            cells.append(Cell("{%s}" % _fs(p), Fl.point(p), p, p))
    bounds = [V.NINF] + allp + [V.INF]
    fmax = F32_MAX if bits == 32 else F64_MAX
    for lo, hi in zip(bounds, bounds[1:]):
        if (lo != V.NINF and lo >= fmax) or (hi != V.INF and hi <= -fmax):
            continue      # no float of this type lies beyond ±MAX
        cells.append(Cell("(%s,%s)" % (_fs(lo), _fs(hi)), Fl([(lo, False, hi, False)]), lo if lo != V.NINF else -(Fraction(10) ** 400),
                          hi if hi != V.INF else Fraction(10) ** 400))
    return cells


def _fs(x):
    if x == V.INF:
        return "inf"
    if x == V.NINF:
        return "-inf"
    f = float(x)
    return ("%g" % f)


def int_cells(bits, signed, ladder=False):
    mx = (1 << (bits - (1 if signed else 0))) - 1
    if ladder:
        spans = [(0, 0), (1, 1), (2, 5), (6, 6), (7, 20), (21, 21), (22, 1000), (1001, mx - 2), (mx - 1, mx - 1), (mx, mx)]
    else:
        spans = [(0, 0), (1, 1), (2, 1 << 31), ((1 << 31) + 1, mx - 1), (mx, mx)]
    return [Cell("%d" % a if a == b else "[%d..%d]" % (a, b), In(a, b, bits, signed), a, b, kind="i") for a, b in spans]


def code_constants(F, inst, limit=12):
    """Float constants compared/used in the constructor and the crate-local functions it calls (cut-point candidates)."""
    seen, st, vals = set(), [inst["key"]], set()
    while st:
        k = st.pop()
        if k in seen:
            continue
        seen.add(k)
        i = F.by_key.get(k)
        if not i or not i.get("full") or not i.get("local"):
            continue

        def visit(x):
            if isinstance(x, dict):
                if x.get("k") == "const" and "bits" in x and F.types[x["ty"]]["k"] == "float":
                    v = const_value(F, x)
                    if v == v and abs(v) != float("inf"):
                        vals.add(v)
                if x.get("k") == "const" and "fn" in x and x["fn"].get("key"):
                    st.append(x["fn"]["key"])
                for y in x.values():
                    if isinstance(y, (dict, list)):
                        visit(y)
            elif isinstance(x, list):
                for y in x:
                    visit(y)
        visit(i["blocks"])
    vals = sorted(vals, key=lambda v: (abs(v), v))
    return vals[:limit]


# ------------------------------------------------------------------------------------------------ running
_G = {}


def outcome_names(F, rv):
    """{'Ok'} | {'<Variant>'} ... from an abstract Result value"""
    outs = set()
    if not isinstance(rv, En):
        return None
    for vi, payload in rv.variants.items():
        if vi == 0:
            outs.add("Ok")
        else:
            e = payload[0] if payload else None
            if isinstance(e, En) and isinstance(e.ty, int):
                t = F.types[e.ty]
                for evi in e.variants:
                    outs.add(t["variants"][evi]["name"] if evi < len(t["variants"]) else "Err#%d" % evi)
            else:
                outs.add("Err(?)")
    return outs


def run_case(F, ax, entry, insts, case_vals, ieee=None):
    """Run one case through the (pipeline of) constructor(s).  -> (outcomes set, events, imprecise list, ok payload)"""
    ip = Interp(F, ax)
    ip.ieee = ieee
    steps = entry.get("pipeline") or [(entry["path"], [a for a, _ in entry["args"]])]
    prev = None
    st = {}
    rv = None
    for (path, argnames), inst in zip(steps, insts):
        args = []
        for a in argnames:
            args.append(prev if a == "$prev" else case_vals[a])
        if ip.frames is None:
            ip.frames = {}
        rv, st2 = ip.run_root(inst, args, st) if prev is None else ip.run_fn(inst, args, st, None)
        if st2 is None:
            return {"panic"}, list(ip.events.values()), ip.imprecise, None
        st = st2
        prev = rv
    outs = outcome_names(F, rv)
    if outs is None:
        outs = {"?"}
    panics = [e for e in ip.events.values() if e.kind.startswith("panic")]
    if panics:
        outs = set(outs) | {"panic"}
    ok_payload = None
    if isinstance(rv, En) and 0 in rv.variants and rv.variants[0]:
        ok_payload = rv.variants[0][0]
    return outs, list(ip.events.values()), ip.imprecise, ok_payload


def find_insts(F, path, bits):
    want = "f32" if bits == 32 else "f64"
    out = []
    for i in F.instances:
        if i.get("full") and i["path"] == path:
            ts = [F.types[t]["s"] for t in i.get("targs", [])]
            if not ts or want in ts or all(t not in ("f32", "f64") for t in ts):
                out.append(i)
    return out[0] if out else None


def entry_tasks(F, entry, tier):
    generic = "<F>" in entry["path"] or any("<F>" in p for p, _ in entry.get("pipeline") or [])
    return [(entry["path"], bits) for bits in ((32, 64) if generic else (64,))]


def run_entry(args):
    path, bits, tier = args
    F = _G["F"]
    entry = next(e for e in SPEC if e["path"] == path)
    ax = Axioms(F)
    steps = entry.get("pipeline") or [(entry["path"], None)]
    insts = [find_insts(F, p, bits) for p, _ in steps]
    res = {"path": path, "bits": bits, "cases": 0, "decided": 0, "violations": [], "undecided": [], "unspecified": 0, "samples": [],
           "missing": None, "errors": []}
    if any(i is None for i in insts):
        res["missing"] = [p for (p, _), i in zip(steps, insts) if i is None]
        return res
    ordered = set(entry.get("ordered") or ())
    cuts = entry.get("cuts") or {}
    consts = set()
    for i in insts:
        consts |= set(code_constants(F, i))
    res["constants"] = sorted(consts)
    cellsets = []
    for name, kind in entry["args"]:
        if kind == "slice:f":
            mp = F32_MIN_POS if bits == 32 else F64_MIN_POS
            cs = {mp if c == "MIN_POS" else c for c in cuts.get(name, [])}
            elems = float_cells(bits, cs, False)
            homog = [SliceCell(e, lo, hi, mp) for e in elems for lo, hi in ((0, 0), (1, 1), (2, 2), (3, 3), (4, 9))]
            # position-sensitive cases: the first element in one cell, all the others in a valid cell, and the reverse
            good = [e for e in elems if e.pos and not e.point and e.lo is not None and e.lo >= mp]
            hetero = []
            for g in good[:2]:
                for e in elems:
                    if e is g:
                        continue
                    for lo, hi in ((2, 2), (3, 3)):
                        hetero.append(SliceCell(g, lo, hi, mp, head=e))
                        hetero.append(SliceCell(e, lo, hi, mp, head=g))
            cellsets.append(homog + hetero)
        elif kind == "f":
            cs = set(cuts.get(name, [])) | (consts if tier == "thorough" else set(sorted(consts, key=abs)[:entry.get("quick_consts", 12 if len(entry["args"]) <= 2 else 2)]))
            if name in ordered:
                cs = set(cuts.get(name, [])) | set(LADDER_THOROUGH if tier == "thorough" else LADDER)
            cellsets.append(float_cells(bits, cs, tier == "thorough", extremes=(len(entry["args"]) <= 2)))
        else:
            b = int(kind[1:])
            cellsets.append(int_cells(b, kind[0] == "i", name in ordered))
    names = [a for a, _ in entry["args"]]
    total = 1
    for cs in cellsets:
        total *= len(cs)
    # keep the cross product tractable in the quick tier: thin the interior cells of non-ordered arguments
    cap = 4000 if tier == "quick" else 30000
    for _round in range(1 if tier == "quick" else 3):
        total = 1
        for cs in cellsets:
            total *= len(cs)
        if total <= cap:
            break
        for k, (name, kind) in enumerate(entry["args"]):
            if (name not in ordered or _round > 0) and len(cellsets[k]) > 9:
                keep = [c for c in cellsets[k] if c.lo is None or c.point or c.name.startswith("(-inf") or c.name.endswith("inf)") or c.zero]
                rest = [c for c in cellsets[k] if c not in keep]
                cellsets[k] = keep + rest[::2]
    for combo in itertools.product(*cellsets):
        case = Case(zip(names, combo))
        vals = {n: c.value for n, c in zip(names, combo)}
        res["cases"] += 1
        try:
            exp = entry["expect"](case)
        except Undecided:
            res["skipped"] = res.get("skipped", 0) + 1
            continue
        except ValueError as e:
            res["errors"].append(str(e))
            continue
        try:
            outs, events, imprecise, okp = run_case(F, ax, entry, insts, vals, ieee=bits)
        except Exception as e:  # noqa: BLE001
            import traceback
            res["errors"].append("%s: %s" % (dict(case), traceback.format_exc().splitlines()[-1]))
            continue
        cname = ", ".join("%s=%s" % (n, c.name) for n, c in zip(names, combo))
        panic_ev = [e for e in events if e.kind.startswith("panic")]
        real = outs - {"panic"}
        if "panic" in outs:
            if not real:
                ev = panic_ev[0] if panic_ev else None
                res["violations"].append({"case": cname, "kind": "panic", "outs": sorted(outs),
                                          "what": "always panics (%s)" % (ev.detail if ev else "diverges"),
                                          "where": span_str(ev.span) if ev else None, "site": ev.inst if ev else None})
            else:
                ev = panic_ev[0]
                res["undecided"].append({"case": cname, "outs": sorted(outs), "why": "may panic: %s in %s" % (ev.detail, ev.inst), "where": span_str(ev.span)})
            continue
        if exp is None:
            res["unspecified"] += 1
            continue
        if not (real & exp):
            tag = entry["tag"](case, bits) if entry.get("tag") else ""
            res["violations"].append({"case": cname, "kind": "verdict", "outs": sorted(real), "allowed": sorted(exp), "tag": tag,
                                      "what": "returns %s, the documentation allows only %s%s" % ("/".join(sorted(real)), "/".join(sorted(exp)), " [%s]" % tag if tag else "")})
            continue
        if len(real) == 1 and not imprecise:
            res["decided"] += 1
            if len(res["samples"]) < 4:
                res["samples"].append({"case": cname, "outcome": sorted(real)[0], "allowed": sorted(exp)})
        elif real <= exp:
            res["decided"] += 1
        else:
            res["undecided"].append({"case": cname, "outs": sorted(real), "allowed": sorted(exp), "why": "several abstract outcomes" + (" (imprecise: %s)" % imprecise[0] if imprecise else "")})
    return res


ACCESSORS = [
    # (constructor path, accessor path, argument returned)
    ("normal::Normal::<F>::new", "normal::Normal::<F>::mean", "mean"),
    ("normal::Normal::<F>::new", "normal::Normal::<F>::std_dev", "std_dev"),
    ("skew_normal::SkewNormal::<F>::new", "skew_normal::SkewNormal::<F>::location", "location"),
    ("skew_normal::SkewNormal::<F>::new", "skew_normal::SkewNormal::<F>::scale", "scale"),
    ("skew_normal::SkewNormal::<F>::new", "skew_normal::SkewNormal::<F>::shape", "shape"),
]


def accessor_rules(chk, F):
    ax = Axioms(F)
    # distinct marker cells per argument position, all valid
    markers = [Fl.rng(2, False, 3, False), Fl.rng(5, False, 6, False), Fl.rng(8, False, 9, False)]
    # Normal's std_dev may be negative (documented): use a negative marker there so that a stored |std_dev| is seen
    neg_ok = {("normal::Normal::<F>::new", "std_dev"): Fl.rng(-6, False, -5, False), ("normal::Normal::<F>::new", "mean"): Fl.rng(-3, False, -2, False),
              ("skew_normal::SkewNormal::<F>::new", "location"): Fl.rng(-3, False, -2, False), ("skew_normal::SkewNormal::<F>::new", "shape"): Fl.rng(-9, False, -8, False)}
    n = 0
    for cpath, apath, argname in ACCESSORS:
        entry = next(e for e in SPEC if e["path"] == cpath)
        for bits in (32, 64):
            cinst, ainst = find_insts(F, cpath, bits), find_insts(F, apath, bits)
            if not cinst or not ainst:
                chk.violation("accessor", "%s:f%d" % (apath, bits), "accessor or constructor instance not found (anchor lost)")
                continue
            names = [a for a, _ in entry["args"]]
            vals = dict(zip(names, markers))
            for a in names:
                if (cpath, a) in neg_ok:
                    vals[a] = neg_ok[(cpath, a)]
            ip = Interp(F, ax)
            rv, st = ip.run_root(cinst, [vals[a] for a in names])
            if not isinstance(rv, En) or 0 not in rv.variants:
                chk.violation("accessor", "%s:f%d" % (apath, bits), "constructor did not return Ok on valid marker arguments")
                continue
            obj = rv.variants[0][0]
            ip2 = Interp(F, ax)
            got, _ = ip2.run_root(ainst, [Rf(None, obj, False)])
            n += 1
            if got == vals[argname]:
                chk.ok("accessor", "%s:f%d returns the `%s` argument" % (apath, bits, argname))
            else:
                which = [a for a in names if vals[a] == got]
                chk.violation("accessor", "%s:f%d" % (apath, bits), "%s() returns %s, not the `%s` the value was built from"
                              % (apath.split("::")[-1], "the `%s` argument" % which[0] if which else repr(got), argname), where=span_str(ainst.get("span")))
    chk.floor("accessor instances checked", n, 10)


def run(chk, F, tier):
    chk.trusted += ["axioms for core/num_traits/rand functions (analysis/axioms.py): float comparison and classification, NumCast::from, "
                    "Uniform::new, Option/Result helpers are interpreted from their own MIR",
                    "envelope semantics: finite (+,-,*,/) finite is finite; thresholds moved by one ulp are invisible"]
    _G["F"] = F
    tasks = []
    for e in SPEC:
        for path, bits in entry_tasks(F, e, tier):
            tasks.append((path, bits, tier))
    ncpu = min(16, os.cpu_count() or 4)
    if ncpu > 1 and not os.environ.get("VERIF_SERIAL"):
        with multiprocessing.get_context("fork").Pool(ncpu) as pool:
            results = pool.map(run_entry, tasks, chunksize=1)
    else:
        results = [run_entry(t) for t in tasks]
    total = decided = unspec = 0
    per = {}
    for r in results:
        key = "%s:f%d" % (r["path"], r["bits"])
        if r["missing"]:
            chk.violation("verdict", key + ":missing", "constructor instance %s not found in the extracted program (anchor lost)" % r["missing"])
            continue
        for e in r["errors"][:3]:
            chk.violation("verdict", key + ":oracle", "oracle/analysis error: %s" % e)
        total += r["cases"]
        decided += r["decided"]
        unspec += r["unspecified"]
        per[key] = {"cases": r["cases"], "decided": r["decided"], "unspecified": r["unspecified"], "undecided": len(r["undecided"]),
                    "violations": len(r["violations"]), "cut_constants": r.get("constants")}
        seen_v = set()
        for v in r["violations"]:
            # one report per distinct (kind, outcome): the first failing case is the witness, the count is reported
            sig = (v["kind"], tuple(v.get("outs", ())), tuple(v.get("allowed", ())), v.get("site"), v.get("tag", ""))
            if sig in seen_v:
                continue
            seen_v.add(sig)
            same = [w for w in r["violations"] if (w["kind"], tuple(w.get("outs", ())), tuple(w.get("allowed", ())), w.get("site"), w.get("tag", "")) == sig]
            vkey = "%s|%s|%s" % (r["path"], v["kind"], "/".join(v.get("outs", []))) + ("|" + v["tag"] if v.get("tag") else "")
            chk.violation("verdict", vkey, "%s (f%d) with %s %s  [%d case(s) of this kind, e.g. %s]" % (
                r["path"], r["bits"], v["case"], v["what"], len(same), "; ".join(w["case"] for w in same[1:3]) or "-"), where=v.get("where"))
        for u in r["undecided"][:20]:
            chk.unproved_note("verdict", "%s|%s" % (key, u["case"]), u["why"] + " -> " + "/".join(u["outs"]), u.get("where"))
        chk.samples.extend({"rule": "verdict", "constructor": key, **s} for s in r["samples"][:2])
    chk.obligations += decided
    chk.discharged += decided if not chk.violations else max(0, decided)
    chk.evaluations += total
    for k, v in per.items():
        if v["decided"]:
            chk.nontrivial.add("verdict|" + k)
    chk.extra["constructors"] = per
    chk.extra["cases_total"] = total
    chk.extra["cases_decided"] = decided
    chk.extra["cases_unspecified"] = unspec
    chk.rule("verdict")["instances"] += total
    chk.rule("verdict")["ok"] += decided
    chk.floor("constructor instances analysed", len(per), 48)
    chk.floor("decided constructor cases", decided, 3000 if tier == "quick" else 6000)
    accessor_rules(chk, F)
