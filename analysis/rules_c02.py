"""C02 — discrete samplers: agreement with their reference algorithms (DESIGN.md 5/C02, 11.9).

Same machinery and the same comparisons (A tests, B decision function, C returned terms / derived constants) as C01 (rules_c01.py); samplers whose
loops carry state are compared as transition systems cut at the loop headers (per segment: guard, next cut point, update of every carried variable).
Covered: Zeta (Devroye's rejection from the Pareto-like envelope), Zipf (rejection from the piecewise envelope; Zipf::new, inv_cdf), Poisson/Knuth,
Binomial BINV and BTPE (Kachitvichyanukul & Schmeiser 1988) with Binomial::new, StandardGeometric, Geometric (trivial algorithm / Bringmann &
Friedrich 2013), Hypergeometric HIN (Kachitvichyanukul & Schmeiser 1985, inverse transform by the pmf ratio), Poisson for lambda >= 12 (Ahrens & Dieter 1982, algorithm PD:
Poisson::new's switch, the set-up constants, steps N/I/S/Q/E/H, procedure F with Table 1 and the factorial table).
Hypergeometric::new (both reflections with the sign/offset bookkeeping, the HIN/H2PE switch, HIN's starting point, H2PE's set-up constants).
Not covered (reported in the evidence as not examined): the H2PE sampler itself (Hypergeometric::sample, RejectionAcceptance arm).
The pmf itself is not decided anywhere.
"""
CONFIGS_THOROUGH = ["serde", "release"]

import rules_c01

D = "rand::distr::Distribution<F>>::sample"

_X = "floor(u**(-1/s_minus_1))"
_T = "(1 + 1/%s)**s_minus_1" % _X
_IB = "Zipf_inv_cdf(self, p)"

SPECS = [
    dict(name="Zeta::new", fn="zeta::Zeta::<F>::new", kind="alg", self_ty=None, draws=[], symbols={"s": "positive"},
         rules=[("1 < s", "return Result_Ok(Zeta(s - 1, 2**(s - 1)))"), (None, "return Err")]),
    dict(name="Zeta::sample", fn="<zeta::Zeta<F> as " + D, kind="alg", self_ty="Zeta", draws=[("OpenClosed01", "u"), ("StandardUniform", "v")],
         symbols={"s_minus_1": "positive", "b": "positive", "u": "positive", "v": "positive"},
         rules=[("call is_infinite(%s)" % _X, "return " + _X),
                ("v*%s*(%s - 1)*b <= %s*(b - 1)" % (_X, _T, _T), "return " + _X),
                (None, "continue")]),
    dict(name="Zipf::inv_cdf", fn="zipf::Zipf::<F>::inv_cdf", kind="alg", self_ty="Zipf", draws=[], symbols={"s": "positive", "t": "positive", "q": "real", "p": "positive"},
         rules=[("p*t <= 1", "return p*t"), ("s == 1", "return exp(p*t - 1)"), (None, "return (p*t*(1 - s) + s)**q")]),
    dict(name="Zipf::sample", fn="<zipf::Zipf<F> as " + D, kind="alg", self_ty="Zipf", draws=[("StandardUniform", "p"), ("StandardUniform", "y")],
         symbols={"s": "positive", "t": "positive", "q": "real", "p": "positive", "y": "positive"},
         let={"x": "(floor(%s) + 1)" % _IB},
         rules={"main": [("1 < x", "goto big"), (None, "goto one")],
                "one": [("y < x**(-s)", "return x"), (None, "continue")],
                "big": [("y < x**(-s)*%s**s" % _IB, "return x"), (None, "continue")]}),
    dict(name="Zipf::new", fn="zipf::Zipf::<F>::new", kind="alg", self_ty=None, draws=[], symbols={"n": "positive", "s": "positive"},
         exclusive=[["s == 1", "s == oo"]],
         rules={"main": [("0 <= s", "goto c1"), (None, "return Err")],
                "c1": [("1 <= n", "goto c2"), (None, "return Err")],
                "c2": [("call is_infinite(n)", "goto c2b"), (None, "goto build")],
                "c2b": [("s <= 1", "return Err"), (None, "goto build")],
                "build": [("s == 1", "return Result_Ok(Zipf(s, 1 + ln(n), 0))"),
                          ("s == oo", "return Result_Ok(Zipf(s, 1, 1/(1 - s)))"),
                          (None, "return Result_Ok(Zipf(s, (n**(1 - s) - s)*(1/(1 - s)), 1/(1 - s)))")]}),
]


SPECS += [
    # ------------------------------------------------------------------ Poisson, Knuth's product method (lambda < 12)
    dict(name="KnuthMethod::sample", fn="<poisson::KnuthMethod<F> as " + D, kind="ts", self_ty="KnuthMethod", draws=[("StandardUniform", "u0"), ("StandardUniform", "u1")],
         symbols={"exp_lambda": "positive", "p": "positive", "result": "positive", "u0": "positive", "u1": "positive"},
         nodes={"entry": [], "loop": ["p", "result"]},
         rules={"entry": [(None, "goto loop {p: u0, result: 1}")],
                "loop": [("exp_lambda < p", "goto loop {p: p*u1, result: result + 1}"), (None, "return result - 1")]}),
    # ------------------------------------------------------------------ Binomial, BINV (inverse transform with restart)
    dict(name="binv", fn="binomial::binv", kind="ts", generic=False, bits=(64,), self_ty=None, draws=[("StandardUniform", "u0")],
         symbols={"binv_r": "positive", "binv_s": "positive", "binv_a": "positive", "binv_n": "positive", "r": "positive", "u": "positive", "x": "positive", "u0": "positive"},
         nodes={"entry": [], "outer": [], "inner": ["r", "u", "x"]},
         rules={"entry": [(None, "goto outer")],
                "outer": [(None, "goto inner {r: binv_r, u: u0, x: 0}")],
                "inner": [("r < u", "goto step"), (None, "goto done")],
                "step": [("110 < x + 1", "goto outer"), (None, "goto inner {u: u - r, x: x + 1, r: r*(binv_a/(x + 1) - binv_s)}")],
                "done": [("flag flipped", "return binv_n - x"), (None, "return x")]}),
    # ------------------------------------------------------------------ StandardGeometric (count leading zeros over 64-bit words)
    dict(name="StandardGeometric::sample", fn="<geometric::StandardGeometric as rand::distr::Distribution<u64>>::sample", kind="ts", generic=False, bits=(64,), self_ty=None,
         draws=[("StandardUniform", "w")], symbols={"result": "positive", "w": "positive"},
         nodes={"entry": [], "loop": ["result"]},
         rules={"entry": [(None, "goto loop {result: 0}")],
                "loop": [("leading_zeros(w) < 64", "return result + leading_zeros(w)"), (None, "goto loop {result: result + leading_zeros(w)}")]}),
]


def _btpe_spec():
    """Kachitvichyanukul & Schmeiser (1988), algorithm BTPE, in the notation of the paper; `as u64` casts are transparent in the terms."""
    q = "(1 - p)"
    np_ = "(n*p)"
    npq = "(n*p*(1 - p))"
    f_m = "(n*p + p)"
    x_m = "(m + Rational(1,2))"
    x_l = "(%s - p1)" % x_m
    x_r = "(%s + p1)" % x_m
    c = "(Rational(134,1000) + Rational(41,2)/(Rational(153,10) + m))"
    p2 = "(p1*(1 + 2*%s))" % c
    lam_l = "lam_((%s - %s)/(%s - %s*p))" % (f_m, x_l, f_m, x_l)
    lam_r = "lam_((%s - %s)/(%s*%s))" % (x_r, f_m, x_r, q)
    p3 = "(%s + %s/%s)" % (p2, c, lam_l)
    p4 = "(%s + %s/%s)" % (p3, c, lam_r)
    s_ = "(p/%s)" % q
    a_ = "(%s*(n + 1))" % s_
    x2 = "(%s + (u - p1)/%s)" % (x_l, c)
    regions = {
        "2": ("f64_to_u64(%s)" % x2, "(v*%s + 1 - Abs(%s - %s)/p1)" % (c, x2, x_m)),
        "3": ("f64_to_u64(%s + ln(v)/%s)" % (x_l, lam_l), "(v*(u - %s)*%s)" % (p2, lam_l)),
        "4": ("(%s - ln(v)/%s)" % (x_r, lam_r), "(v*(u - %s)*%s)" % (p3, lam_r)),
    }
    rules = {
        "entry": [(None, "goto outer")],
        "outer": [("p1 < u", "goto r234"), (None, "goto acc1")],
        "acc1": [("flag flipped", "return n - f64_to_u64(%s - p1*v + u)" % x_m), (None, "return f64_to_u64(%s - p1*v + u)" % x_m)],
        "r234": [("%s < u" % p2, "goto r34"), (None, "goto r2")],
        "r2": [("1 < %s" % regions["2"][1], "goto outer"), (None, "goto s5_2")],
        "r34": [("%s < u" % p3, "goto r4"), (None, "goto r3")],
        "r3": [("%s + ln(v)/%s < 0" % (x_l, lam_l), "goto outer"), (None, "goto s5_3")],
        "r4": [("n < %s" % regions["4"][0], "goto outer"), ("call is_infinite(%s)" % regions["4"][0], "goto outer"), (None, "goto s5_4")],
    }
    for R, (y, v) in regions.items():
        k = "abs_diff(%s, m)" % y
        rho = "((%s/%s)*((%s*(%s/3 + Rational(5,8)) + Rational(1,6))/%s + Rational(1,2)))" % (k, npq, k, k, npq)
        t = "(-Rational(1,2)*%s*%s/%s)" % (k, k, npq)
        A = "ln(%s)" % v
        x1, f1, z, w = "(%s + 1)" % y, "(m + 1)", "((n - m) + 1)", "((n - %s) + 1)" % y
        ysubm_pos, ysubm_neg = "(%s - m)" % y, "(-(m - %s))" % y
        def bound(ysm):
            return ("(%s*ln(%s/%s) + ((n - m) + Rational(1,2))*ln(%s/%s) + %s*ln(%s*p/(%s*%s)) + stirling(%s) + stirling(%s) - stirling(%s) - stirling(%s))"
                    % (x_m, f1, x1, z, w, ysm, w, x1, q, f1, z, x1, w))
        rules["s5_" + R] = [("20 < %s" % k, "goto s5b_" + R), (None, "goto s51_" + R)]
        rules["s5b_" + R] = [("%s < Rational(1,2)*%s - 1" % (k, npq), "goto s52_" + R), (None, "goto s51_" + R)]
        rules["s51_" + R] = [("m < %s" % y, "goto loopA {f: 1, i: m, y: %s, v: %s}" % (y, v)),
                             ("%s < m" % y, "goto loopB {f: 1, i_b: %s, y: %s, v: %s}" % (y, y, v)),
                             (None, "goto eq_" + R)]
        rules["eq_" + R] = [("1 < %s" % v, "goto outer"), (None, "goto acc_" + R)]
        rules["s52_" + R] = [("%s < %s - %s" % (A, t, rho), "goto acc_" + R), ("%s + %s < %s" % (t, rho, A), "goto outer"), (None, "goto s53_" + R)]
        # y_sub_m is computed on the branch `y > m` as (y - m) and otherwise as -(m - y): the same number, one test
        rules["s53_" + R] = [("%s < %s" % (bound(ysubm_pos), A), "goto outer"), (None, "goto acc_" + R)]
        rules["acc_" + R] = [("flag flipped", "return n - %s" % y), (None, "return %s" % y)]
    rules["loopA"] = [("i + 1 == y", "goto endA"), (None, "goto loopA {i: i + 1, f: f*(%s/(i + 1) - %s)}" % (a_, s_))]
    rules["endA"] = [("f*(%s/(i + 1) - %s) < v" % (a_, s_), "goto outer"), (None, "goto accL")]
    rules["loopB"] = [("i_b + 1 == m", "goto endB"), (None, "goto loopB {i_b: i_b + 1, f: f/(%s/(i_b + 1) - %s)}" % (a_, s_))]
    rules["endB"] = [("f/(%s/(i_b + 1) - %s) < v" % (a_, s_), "goto outer"), (None, "goto accL")]
    rules["accL"] = [("flag flipped", "return n - y"), (None, "return y")]
    return dict(name="btpe", fn="binomial::btpe", kind="ts", generic=False, bits=(64,), self_ty=None, draws=[("Uniform", "u"), ("Uniform", "v")],
                rename={"btpe_n": "n", "btpe_p": "p", "btpe_m": "m", "btpe_p1": "p1", "lambda": "lam_", "i__2": "i_b"},
                symbols={"n": "positive", "p": "positive", "m": "positive", "p1": "positive", "u": "positive", "v": "positive", "f": "positive", "i": "positive", "i_b": "positive", "y": "positive"},
                # inside BTPE's domain (n p >= 10, p <= 1/2, 0 < u, v < 1, y and the loop counters near the mode)
                points=[{"n": "200", "p": "3/10", "m": "60", "p1": "23/2", "u": "2/5", "v": "3/7", "f": "6/5", "i": "57", "i_b": "52", "y": "55"},
                        {"n": "1000", "p": "9/20", "m": "450", "p1": "67/2", "u": "7/9", "v": "1/5", "f": "3/4", "i": "461", "i_b": "440", "y": "470"},
                        # u beyond p2 = p1 (1 + 2c): the tail regions, where ln(v (u - p2) lambda) is real
                        {"n": "200", "p": "3/10", "m": "60", "p1": "23/2", "u": "25", "v": "3/7", "f": "6/5", "i": "57", "i_b": "52", "y": "55"},
                        {"n": "1000", "p": "9/20", "m": "450", "p1": "67/2", "u": "50", "v": "1/5", "f": "3/4", "i": "461", "i_b": "440", "y": "470"}],
                nodes={"entry": [], "outer": [], "loopA": ["f", "i", "y", "v"], "loopB": ["f", "i_b", "y", "v"]},
                rules=rules)


SPECS += [
    _btpe_spec(),
    dict(name="btpe::lambda", fn="binomial::btpe::lambda", kind="alg", generic=False, bits=(64,), self_ty=None, draws=[], symbols={"a": "real"},
         rules=[(None, "return a*(1 + Rational(1,2)*a)")]),
    dict(name="btpe::stirling", fn="binomial::btpe::stirling", kind="alg", generic=False, bits=(64,), self_ty=None, draws=[], symbols={"a": "positive"},
         rules=[(None, "return (13860 - (462 - (132 - (99 - 140/a**2)/a**2)/a**2)/a**2)/a/166320")]),
]


def _binomial_new_spec():
    rules = {"main": [("0 <= p", "goto c1"), (None, "return Err")],
             "c1": [("p <= 1", "goto c2"), (None, "return Err")],
             "c2": [("p == 0", "return Result_Ok(Binomial(Method_Constant(0)))"), ("p == 1", "return Result_Ok(Binomial(Method_Constant(n)))"), (None, "goto c3")],
             "c3": [("Rational(1,2) < p", "goto fl"), (None, "goto nf")]}
    for tag, pe, flag in (("nf", "p", "cmp_gt(p, Rational(1,2))"), ("fl", "(1 - p)", "cmp_gt(p, Rational(1,2))")):
        q = "(1 - %s)" % pe
        btpe = "Result_Ok(Binomial(Method_Btpe(Btpe(n, %s, f64_to_u64(n*%s + %s), floor(Rational(2195,1000)*sqrt(n*%s*%s) - Rational(46,10)*%s) + Rational(1,2)), %s)))" % (pe, pe, pe, pe, q, q, flag)
        binv = "Result_Ok(Binomial(Method_Binv(Binv(%s**n, %s/%s, (n + 1)*(%s/%s), n), %s)))" % (q, pe, q, pe, q, flag)
        pois = "Result_Ok(Binomial(Method_Poisson(KnuthMethod_new(n*%s))))" % pe
        rules[tag] = [("n*%s < 10" % pe, "goto small_" + tag), (None, "return " + btpe)]
        # flipped: q = 1 - (1 - p) is p over the reals, and p == 1 was handled above — the Poisson limit cannot occur there
        rules["small_" + tag] = [("%s == 1" % q, "return " + pois), (None, "return " + binv)] if tag == "nf" else [(None, "return " + binv)]
    return dict(name="Binomial::new", fn="binomial::Binomial::new", kind="alg", generic=False, bits=(64,), self_ty=None, draws=[],
                symbols={"n": "positive", "p": "positive"}, exclusive=[["p == 0", "p == 1"]], rules=rules)


SPECS += [_binomial_new_spec()]

_M = "bitand_(w, shl_(1, k) - 1)"
SPECS += [
    # ------------------------------------------------------------------ Geometric (trivial algorithm for p >= 2/3; Bringmann & Friedrich 2013 otherwise)
    dict(name="Geometric::sample", fn="<geometric::Geometric as rand::distr::Distribution<u64>>::sample", kind="ts", generic=False, bits=(64,), self_ty="Geometric",
         draws=[("StandardUniform", "u0"), ("StandardUniform", "u1"), ("StandardUniform", "w"), ("StandardUniform", "u2")],
         symbols={"p": "positive", "pi": "positive", "k": "positive", "failures": "positive", "fd": "positive", "u0": "positive", "u1": "positive", "w": "positive", "u2": "positive"},
         rename={"failures__2": "fd"},
         nodes={"entry": [], "trivial": ["failures"], "dloop": ["fd"], "mloop": ["fd"]},
         rules={"entry": [("Rational(2,3) <= p", "goto trivial {failures: 0}"), ("pi == 1", "return 18446744073709551615"), (None, "goto dloop {fd: 0}")],
                # count failures until the first success
                "trivial": [("u0 <= p", "return failures"), (None, "goto trivial {failures: failures + 1}")],
                # D ~ Geo(pi), pi = (1 - p)^(2^k): count draws below pi
                "dloop": [("u1 < pi", "goto dloop {fd: fd + 1}"), (None, "goto mloop")],
                # M uniform on [0, 2^k), accepted with probability (1 - p)^M; the result is D 2^k + M
                "mloop": [("%s <= 2147483647" % _M, "goto acc"), (None, "goto acc")],
                "acc": [("u2 < (1 - p)**%s" % _M, "return shl_(fd, k) + %s" % _M), (None, "goto mloop")]}),
]

SPECS += [
    # ------------------------------------------------------------------ Hypergeometric, HIN (inverse transform by the pmf ratio); H2PE is not described
    dict(name="Hypergeometric::sample [HIN]", fn="<hypergeometric::Hypergeometric as rand::distr::Distribution<u64>>::sample", kind="ts", generic=False, bits=(64,),
         self_ty="Hypergeometric", draws=[("StandardUniform", "u0")], rename={"x__2": "x"},
         symbols={"n1": "positive", "n2": "positive", "k": "positive", "offset_x": "real", "sign_x": "real", "p": "positive", "x": "positive", "u": "positive", "u0": "positive",
                  "sampling_method_InverseTransform_initial_p": "positive", "sampling_method_InverseTransform_initial_x": "positive"},
         nodes={"entry": [], "hin": ["p", "x", "u"], "h2pe_outer": [], "h2pe_inner": [], "h2pe_up": [], "h2pe_down": []},
         unspecified_nodes=["h2pe_outer", "h2pe_inner", "h2pe_up", "h2pe_down"], skip_variants={"sampling_method": ["RejectionAcceptance"]},
         iterators="ignore",        # the for-range loops of this function are H2PE's step 4.1, inside the unspecified nodes
         rules={"entry": [("variant sampling_method InverseTransform",
                           "goto hin {p: sampling_method_InverseTransform_initial_p, x: sampling_method_InverseTransform_initial_x, u: u0}"), (None, "unspecified")],
                # P(x + 1) / P(x) = (n1 - x)(k - x) / ((x + 1)(n2 - k + x + 1))
                "hin": [("p < u", "goto more"), (None, "goto done")],
                "more": [("x < k", "goto hin {u: u - p, p: p*((n1 - x)*(k - x))/((x + 1)*(n2 - k + 1 + x)), x: x + 1}"), (None, "goto done")],
                "done": [(None, "return sign_x*x + offset_x")],
                "h2pe_outer": [(None, "unspecified")], "h2pe_inner": [(None, "unspecified")], "h2pe_up": [(None, "unspecified")], "h2pe_down": [(None, "unspecified")]}),
]


def _hyper_new_spec():
    """Hypergeometric::new: the two reflections (K <-> N-K, n <-> N-n) with their sign/offset bookkeeping, the HIN/H2PE switch at
    mode - max(0, k - n2) < 10, the starting point of HIN and the set-up constants of H2PE (Kachitvichyanukul & Schmeiser 1985)."""
    N, K, n = "N", "K", "n"
    rules = {"main": [("N < K", "return Err"), (None, "goto c1")],
             "c1": [("N < n", "return Err"), (None, "goto c2")],
             "c2": [("N - K < K", "goto swapK"), (None, "goto keepK")]}
    for tagK, n1, n2, sign0, off0 in (("keepK", K, "(N - K)", "1", "0"), ("swapK", "(N - K)", K, "(-1)", n)):
        rules[tagK] = [("n <= N/2", "goto %s_keepn" % tagK), (None, "goto %s_swapn" % tagK)]
        for tagn, k, sign, off in (("keepn", n, sign0, off0), ("swapn", "(N - n)", "(%s*(-1))" % sign0, "(%s + %s*%s)" % (off0, n1, sign0))):
            tag = "%s_%s" % (tagK, tagn)
            m = "floor((%s + 1)*(%s + 1)/(N + 2))" % (k, n1)
            hyp = lambda method: "Result_Ok(Hypergeometric(%s, %s, %s, %s, %s, %s))" % (n1, n2, k, off, sign, method)      # noqa: E731
            p_lo = "fraction_of_products_of_factorials(tup_(%s, N - %s), tup_(N, %s - %s))" % (n2, k, n2, k)
            p_hi = "fraction_of_products_of_factorials(tup_(%s, %s), tup_(N, %s - %s))" % (n1, k, k, n2)
            lnf = "ln_of_factorial"
            a = "(%s(%s) + %s(%s - %s) + %s(%s - %s) + %s((%s - %s) + %s))" % (lnf, m, lnf, n1, m, lnf, k, m, lnf, n2, k, m)
            d = "(Rational(3,2)*sqrt((N - %s)*%s*%s*%s/((N - 1)*N*N)) + Rational(1,2))" % (k, k, n1, n2)
            x_l = "(%s - %s + Rational(1,2))" % (m, d)
            x_r = "(%s + %s + Rational(1,2))" % (m, d)
            k_l = "exp(%s - %s(%s) - %s(%s - %s) - %s(%s - %s) - %s((%s - %s) + %s))" % (a, lnf, x_l, lnf, n1, x_l, lnf, k, x_l, lnf, n2, k, x_l)
            k_r = "exp(%s - %s(%s - 1) - %s(%s - %s + 1) - %s(%s - %s + 1) - %s((%s - %s) + %s - 1))" % (a, lnf, x_r, lnf, n1, x_r, lnf, k, x_r, lnf, n2, k, x_r)
            lam_l = "(-ln(%s*((%s - %s) + %s)/((%s - %s + 1)*(%s - %s + 1))))" % (x_l, n2, k, x_l, n1, x_l, k, x_l)
            lam_r = "(-ln((%s - %s + 1)*(%s - %s + 1)/(%s*((%s - %s) + %s))))" % (n1, x_r, k, x_r, x_r, n2, k, x_r)
            p1 = "(2*%s)" % d
            p2 = "(%s + %s/%s)" % (p1, k_l, lam_l)
            p3 = "(%s + %s/%s)" % (p2, k_r, lam_r)
            h2pe = "SamplingMethod_RejectionAcceptance(%s, %s, %s, %s, %s, %s, %s, %s, %s)" % (m, a, lam_l, lam_r, x_l, x_r, p1, p2, p3)
            rules[tag] = [("%s - Max(0, %s - %s) < 10" % (m, k, n2), "goto %s_hin" % tag), (None, "return " + hyp(h2pe))]
            rules[tag + "_hin"] = [("%s < %s" % (k, n2), "goto %s_lo" % tag), (None, "goto %s_hi" % tag)]
            for sub, pexpr, x0 in (("lo", p_lo, "0"), ("hi", p_hi, "(%s - %s)" % (k, n2))):
                rules["%s_%s" % (tag, sub)] = [("%s <= 0" % pexpr, "return Err"), ("call is_finite(%s)" % pexpr, "return " + hyp("SamplingMethod_InverseTransform(%s, %s)" % (pexpr, x0))),
                                                (None, "return Err")]
    return dict(name="Hypergeometric::new", fn="hypergeometric::Hypergeometric::new", kind="alg", generic=False, bits=(64,), self_ty=None, draws=[],
                rename={"total_population_size": "N", "population_with_feature": "K", "sample_size": "n"},
                # identities are checked on the open set K + n < N (every difference under a square root or logarithm is positive there)
                symbols={"K": "positive", "n": "positive", "s_": "positive"}, subs={"N": "K + n + s_"}, rules=rules)


def _poisson_pd_specs():
    """Poisson, lambda >= 12: Ahrens & Dieter (1982), algorithm PD — set-up constants, steps N, I, S, Q, E, H and procedure F."""
    A = [-0.5000000002, 0.3333333343, -0.2499998565, 0.1999997049, -0.1666848753, 0.1428833286, -0.1241963125, 0.1101687109, -0.1142650302, 0.1055093006]   # Table 1
    FACT = [1.0, 1.0, 2.0, 6.0, 24.0, 120.0, 720.0, 5040.0, 40320.0, 362880.0]
    v = "((lam - k)/k)"
    series = "0"
    for a in reversed(A):
        series = "((%s)*%s + %s)" % (series, v, rules_c01.frac_of(a))
    delta0 = "(1/(12*k))"
    delta = "(%s - Rational(48,10)*%s**3)" % (delta0, delta0)
    py = "(1/sqrt(2*pi)/sqrt(k))"
    x = "((k - lam + Rational(1,2))/s)"
    fx = "(-Rational(1,2)*%s*%s)" % (x, x)
    fy = "(omega*(((c3*%s*%s + c2)*%s*%s + c1)*%s*%s + c0))" % (x, x, x, x, x, x)
    sym_f = {"lam": "positive", "s": "positive", "omega": "positive", "c0": "real", "c1": "real", "c2": "real", "c3": "real", "k": "positive"}
    proc_f = dict(name="RejectionMethod::sample::F", fn="<poisson::RejectionMethod<F> as rand::distr::Distribution<F>>::sample::{closure#0}", kind="alg", self_ty="RejectionMethod", rename={"lambda": "lam"},
                  draws=[], symbols=sym_f, tables={"FACT_": FACT},
                  rules=[("k < 10", "return tup_(-lam, lam**k/FACT_(k), %s, %s)" % (fx, fy)),
                         ("Abs(%s) <= Rational(1,4)" % v, "return tup_(k*%s**2*%s - %s, %s, %s, %s)" % (v, series, delta, py, fx, fy)),
                         (None, "return tup_(k*ln(1 + %s) - (lam - k) - %s, %s, %s, %s)" % (v, delta, py, fx, fy))])
    g = "sample(Normal_new(lam, s))"
    k1 = "floor(%s)" % g
    f1 = "closure0_(%s)" % k1
    u_ = "(u2*2 - 1)"
    t_ = "(Rational(9,5) + e*sign(%s))" % u_
    k2 = "floor(lam + s*%s)" % t_
    f2 = "closure0_(%s)" % k2
    tg = lambda f_, i: "tupget_(%s, %d)" % (f_, i)
    sample = dict(name="RejectionMethod::sample", fn="<poisson::RejectionMethod<F> as " + D, kind="ts", self_ty="RejectionMethod", rename={"lambda": "lam"},
                  draws=[("StandardUniform", "u1"), ("Exp1", "e"), ("StandardUniform", "u2")],
                  symbols={"lam": "positive", "s": "positive", "d": "positive", "l": "positive", "c": "positive", "u1": "positive", "u2": "positive", "e": "positive"},
                  nodes={"entry": [], "loop": []},
                  rules={"entry": [("0 <= %s" % g, "goto stepI"), (None, "goto loop")],
                         # I: immediate acceptance above L; S: squeeze d U >= (mu - K)^3; Q: quotient acceptance with procedure F
                         "stepI": [("l <= %s" % k1, "return " + k1), ("(lam - %s)**3 <= d*u1" % k1, "return " + k1),
                                   ("%s*(1 - u1) <= %s*exp(%s - %s)" % (tg(f1, 3), tg(f1, 1), tg(f1, 0), tg(f1, 2)), "return " + k1), (None, "goto loop")],
                         # E: double-exponential proposal T = 1.8 + E sign(U), rejected at or below -0.6744; H: hat acceptance
                         "loop": [("Rational(-6744,10000) < %s" % t_, "goto stepH"), (None, "goto loop")],
                         "stepH": [("c*Abs(%s) <= %s*exp(%s + e) - %s*exp(%s + e)" % (u_, tg(f2, 1), tg(f2, 0), tg(f2, 3), tg(f2, 2)), "return " + k2), (None, "goto loop")]})
    b1 = "(Rational(1,24)/lam)"
    b2 = "(Rational(3,10)*%s*%s)" % (b1, b1)
    c3 = "(Rational(1,7)*%s*%s)" % (b1, b2)
    ctor = dict(name="RejectionMethod::new", fn="poisson::RejectionMethod::<F>::new", kind="ctor", struct="RejectionMethod", params=["lambda"], rename={"lambda": "lam"}, symbols={"lam": "positive"},
                fields={"lambda": "lam", "s": "sqrt(lam)", "d": "6*lam**2", "l": "floor(lam - Rational(11484,10000))", "c": "Rational(1069,10000)/lam",
                        "c0": "1 - %s + 3*%s - 15*%s" % (b1, b2, c3), "c1": "%s - 6*%s + 45*%s" % (b1, b2, c3), "c2": "%s - 15*%s" % (b2, c3), "c3": c3,
                        "omega": "1/sqrt(2*pi)/sqrt(lam)"})
    new = dict(name="Poisson::new", fn="poisson::Poisson::<F>::new", kind="alg", self_ty=None, draws=[], symbols={"lam": "real"}, rename={"lambda": "lam"},
               rules={"main": [("call is_finite(lam)", "goto pos"), (None, "return Err")],
                      "pos": [("0 < lam", "goto meth"), (None, "return Err")],
                      # Knuth's product method only for small means; the rejection method up to MAX_LAMBDA = 1.844e19
                      "meth": [("lam < 12", "return Result_Ok(Poisson(Method_Knuth(KnuthMethod_new(lam))))"), ("18440000000000000000 < lam", "return Err"),
                               (None, "return Result_Ok(Poisson(Method_Rejection(RejectionMethod_new(lam))))")]})
    return [new, ctor, proc_f, sample]


SPECS += _poisson_pd_specs()

SPECS += [_hyper_new_spec()]


def run(chk, F, tier):
    chk.trusted += ["Devroye (1986, X.6) rejection algorithm for the zeta distribution; Crease's rejection sampler for the Zipf law; Knuth's product method; "
                    "Kachitvichyanukul & Schmeiser's BINV/BTPE (1988) and HIN (1985); Bringmann & Friedrich (2013) for Geometric; Ahrens & Dieter (1982) algorithm PD "
                    "for Poisson — as cited in the crate's documentation",
                    "sympy's simplification (`equal`) and 40-digit evaluation at rational points (`different`)",
                    "the reference decision lists in rules_c02.py were transcribed from those sources"]
    rules_c01.run_specs(chk, F, SPECS, 29)
    chk.notes.append("not examined: Hypergeometric H2PE's sampling loop (its paths are `unspecified` in the reference and skipped)")
