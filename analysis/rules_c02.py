"""C02 — discrete samplers: agreement with their reference algorithms, for the samplers whose algorithm is one rejection step per
iteration without state carried between iterations (DESIGN.md 5/C02, 11.9).

Same machinery and the same three comparisons (A tests, B decision function, C returned terms / derived constants) as C01
(rules_c01.py).  Covered: Zeta (Devroye's rejection from the Pareto-like envelope: proposal floor(U^(-1/(s-1))), b = 2^(s-1), acceptance
V X (T-1) b <= T (b-1), the infinite-proposal return) and Zipf (Crease's rejection from the piecewise envelope: normaliser t, its
inverse CDF on the three parameter regimes s = 1, s -> infinity and otherwise, proposal floor(B) + 1, acceptance ratio x^-s resp. x^-s B^s).
Not covered (state carried across iterations or several nested loops; reported in the evidence as not examined): Binomial (BINV, BTPE),
Poisson (Knuth, Ahrens-Dieter), Geometric, StandardGeometric, Hypergeometric (HIN, H2PE).  The pmf itself is not decided anywhere.
"""
CONFIGS_THOROUGH = ["serde", "release"]

import rules_c01

D = "rand::distr::Distribution<F>>::sample"

_X = "floor(u**(-1/s_minus_1))"
_T = "(1 + 1/%s)**s_minus_1" % _X
_IB = "Zipf_inv_cdf(self, p)"

SPECS = [
    dict(name="Zeta::new", fn="zeta::Zeta::<F>::new", kind="alg", self_ty=None, draws=[], symbols={"s": "positive"},
         rules=[("1 < s", "return Result_Ok(Zeta(s - 1, 2**(s - 1)))"), (None, "return Err")]),
    dict(name="Zeta::sample", fn="<zeta::Zeta<F> as " + D, kind="alg", self_ty="Zeta", draws=[("OpenClosed01", "u"), ("StandardUniform", "v")],
         symbols={"s_minus_1": "positive", "b": "positive", "u": "positive", "v": "positive"},
         rules=[("call is_infinite(%s)" % _X, "return " + _X),
                ("v*%s*(%s - 1)*b <= %s*(b - 1)" % (_X, _T, _T), "return " + _X),
                (None, "continue")]),
    dict(name="Zipf::inv_cdf", fn="zipf::Zipf::<F>::inv_cdf", kind="alg", self_ty="Zipf", draws=[], symbols={"s": "positive", "t": "positive", "q": "real", "p": "positive"},
         rules=[("p*t <= 1", "return p*t"), ("s == 1", "return exp(p*t - 1)"), (None, "return (p*t*(1 - s) + s)**q")]),
    dict(name="Zipf::sample", fn="<zipf::Zipf<F> as " + D, kind="alg", self_ty="Zipf", draws=[("StandardUniform", "p"), ("StandardUniform", "y")],
         symbols={"s": "positive", "t": "positive", "q": "real", "p": "positive", "y": "positive"},
         let={"x": "(floor(%s) + 1)" % _IB},
         rules={"main": [("1 < x", "goto big"), (None, "goto one")],
                "one": [("y < x**(-s)", "return x"), (None, "continue")],
                "big": [("y < x**(-s)*%s**s" % _IB, "return x"), (None, "continue")]}),
    dict(name="Zipf::new", fn="zipf::Zipf::<F>::new", kind="alg", self_ty=None, draws=[], symbols={"n": "positive", "s": "positive"},
         exclusive=[["s == 1", "s == oo"]],
         rules={"main": [("0 <= s", "goto c1"), (None, "return Err")],
                "c1": [("1 <= n", "goto c2"), (None, "return Err")],
                "c2": [("call is_infinite(n)", "goto c2b"), (None, "goto build")],
                "c2b": [("s <= 1", "return Err"), (None, "goto build")],
                "build": [("s == 1", "return Result_Ok(Zipf(s, 1 + ln(n), 0))"),
                          ("s == oo", "return Result_Ok(Zipf(s, 1, 1/(1 - s)))"),
                          (None, "return Result_Ok(Zipf(s, (n**(1 - s) - s)*(1/(1 - s)), 1/(1 - s)))")]}),
]


SPECS += [
    # ------------------------------------------------------------------ Poisson, Knuth's product method (lambda < 12)
    dict(name="KnuthMethod::sample", fn="<poisson::KnuthMethod<F> as " + D, kind="ts", self_ty="KnuthMethod", draws=[("StandardUniform", "u0"), ("StandardUniform", "u1")],
         symbols={"exp_lambda": "positive", "p": "positive", "result": "positive", "u0": "positive", "u1": "positive"},
         nodes={"entry": [], "loop": ["p", "result"]},
         rules={"entry": [(None, "goto loop {p: u0, result: 1}")],
                "loop": [("exp_lambda < p", "goto loop {p: p*u1, result: result + 1}"), (None, "return result - 1")]}),
    # ------------------------------------------------------------------ Binomial, BINV (inverse transform with restart)
    dict(name="binv", fn="binomial::binv", kind="ts", generic=False, bits=(64,), self_ty=None, draws=[("StandardUniform", "u0")],
         symbols={"binv_r": "positive", "binv_s": "positive", "binv_a": "positive", "binv_n": "positive", "r": "positive", "u": "positive", "x": "positive", "u0": "positive"},
         nodes={"entry": [], "outer": [], "inner": ["r", "u", "x"]},
         rules={"entry": [(None, "goto outer")],
                "outer": [(None, "goto inner {r: binv_r, u: u0, x: 0}")],
                "inner": [("r < u", "goto step"), (None, "goto done")],
                "step": [("110 < x + 1", "goto outer"), (None, "goto inner {u: u - r, x: x + 1, r: r*(binv_a/(x + 1) - binv_s)}")],
                "done": [("flag flipped", "return binv_n - x"), (None, "return x")]}),
    # ------------------------------------------------------------------ StandardGeometric (count leading zeros over 64-bit words)
    dict(name="StandardGeometric::sample", fn="<geometric::StandardGeometric as rand::distr::Distribution<u64>>::sample", kind="ts", generic=False, bits=(64,), self_ty=None,
         draws=[("StandardUniform", "w")], symbols={"result": "positive", "w": "positive"},
         nodes={"entry": [], "loop": ["result"]},
         rules={"entry": [(None, "goto loop {result: 0}")],
                "loop": [("leading_zeros(w) < 64", "return result + leading_zeros(w)"), (None, "goto loop {result: result + leading_zeros(w)}")]}),
]


def run(chk, F, tier):
    chk.trusted += ["Devroye (1986, X.6) rejection algorithm for the zeta distribution; Crease's rejection sampler for the Zipf law, as cited in the crate's documentation",
                    "sympy's simplification (`equal`) and 40-digit evaluation at rational points (`different`)",
                    "the reference decision lists in rules_c02.py were transcribed from those sources"]
    rules_c01.run_specs(chk, F, SPECS, 14)
    chk.notes.append("not examined (loop-carried state / nested loops): Binomial BINV and BTPE, Poisson Knuth and Ahrens-Dieter, Geometric, StandardGeometric, Hypergeometric HIN and H2PE")
