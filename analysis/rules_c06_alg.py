"""C06 part 3 — structural rules inside `ziggurat` (symbolic terms by value numbering + polynomial normal form).

For every instantiation of utils::ziggurat:
  A  layer index: i = bits & m with m + 2 == table length (all 256 layers used, accesses i and i+1 in bounds);
  B  mantissa: the uniform is built from bits >> k with k >= 12 (IntoFloat needs < 2^52) and 2^k > m (index and mantissa bits disjoint);
  C  the value returned from the rectangle/wedge is x = u * X[i]; the rectangle test compares x (its abs when symmetric) with X[i+1];
  D  the tail routine is entered exactly under i == 0;
  E  the wedge test compares F[i+1] + (F[i] - F[i+1]) * r with pdf(x), r a fresh draw — as a polynomial identity, so algebraic rewrites pass.
"""
from fractions import Fraction

from cfgrules import FnInfo
from facts import span_str
from symterm import Terms, fmt, poly


def run(chk, F, tier, pairs, tabs, info):
    insts = [i for i in F.instances if i.get("full") and i["path"] == "utils::ziggurat" and "sample::pdf" in i["key"]]
    chk.floor("concrete instantiations of utils::ziggurat", len(insts), 2)
    for inst in insts:
        fam = "normal" if "StandardNormal" in inst["key"] else "exp"
        key = "ziggurat<%s>" % fam
        if inst["arg_count"] == 6:
            # the two tables are the third and fourth parameter (rng, symmetric, X, F, pdf, zero_case); the rules call them x_tab and f_tab whatever the source does
            inst = dict(inst)
            inst["locals"] = [dict(l) for l in inst["locals"]]
            inst["locals"][3]["name"], inst["locals"][4]["name"] = "x_tab", "f_tab"
        T = Terms(F, inst)
        names = {l.get("name"): i for i, l in enumerate(inst["locals"]) if l.get("name")}
        where = span_str(inst.get("span"))
        # ---- A: index terms of every table access
        idx_terms = {}
        for b in inst["blocks"]:
            for s in b["stmts"]:
                if s["k"] == "assign" and s["rv"]["k"] == "use" and s["rv"]["op"].get("k") in ("copy", "move"):
                    op = s["rv"]["op"]
                    for p in op["p"]:
                        if p["k"] == "index":
                            base = inst["locals"][op["l"]].get("name") or "_%d" % op["l"]
                            idx_terms.setdefault(base, []).append((T.of_local(p["local"]), s.get("span")))
        if set(idx_terms) != {"x_tab", "f_tab"}:
            chk.violation("algorithm", key + ":tables", "table accesses found on %s; expected x_tab and f_tab" % sorted(idx_terms), where=where)
            continue
        masks = set()
        offs = {"x_tab": set(), "f_tab": set()}
        ok = True
        for base, lst in idx_terms.items():
            for t, sp in lst:
                off = 0
                core = t
                if t[0] == "add" and t[2][0] == "const":
                    off, core = t[2][1], t[1]
                if core[0] == "and" and core[2][0] == "const" and "next_u64" in fmt(core[1]):
                    masks.add(core[2][1])
                    offs[base].add(off)
                else:
                    ok = False
                    chk.violation("algorithm", key + ":index", "%s is indexed with %s, not with (bits & mask) or (bits & mask) + 1" % (base, fmt(t)), where=span_str(sp))
        if ok:
            n = 257
            if len(masks) != 1 or next(iter(masks)) + 2 != n:
                chk.violation("algorithm", key + ":mask", "layer index mask %s: with %d-entry tables the index must be bits & %d (all 256 layers, i+1 in bounds)"
                              % (sorted(hex(m) for m in masks), n, n - 2), where=where)
            elif offs["x_tab"] != {0, 1} or offs["f_tab"] != {0, 1}:
                chk.violation("algorithm", key + ":offsets", "table offsets used: X%s F%s; the algorithm needs X[i], X[i+1], F[i], F[i+1]"
                              % (sorted(offs["x_tab"]), sorted(offs["f_tab"])), where=where)
            else:
                chk.ok("algorithm", key + ": i = bits & 0xff; X[i], X[i+1], F[i], F[i+1] (mask + 2 == 257)")
        m = next(iter(masks)) if masks else 255
        # ---- B: mantissa shift
        shifts = []
        for b in inst["blocks"]:
            t = b["term"]
            if t and t["k"] == "call" and t["func"].get("fn", {}).get("method") == "into_float_with_exponent":
                a = T.of_operand(t["args"][0])
                shifts.append((a, t.get("span")))
        if not shifts:
            chk.violation("algorithm", key + ":mantissa", "no into_float_with_exponent call found", where=where)
        for a, sp in shifts:
            if a[0] == "shr" and a[2][0] == "const" and "next_u64" in fmt(a[1]):
                k = a[2][1]
                if k < 12 or (1 << k) <= m:
                    chk.violation("algorithm", key + ":shift", "mantissa is bits >> %d: needs >= 12 (52-bit mantissa) and must not overlap the %d index bits" % (k, m.bit_length()), where=span_str(sp))
                else:
                    chk.ok("algorithm", key + ": mantissa = bits >> %d (disjoint from the index bits, < 2^52)" % k, nontrivial=False)
            else:
                chk.violation("algorithm", key + ":mantissa", "into_float_with_exponent is fed %s, not bits >> k of the same word" % fmt(a), where=span_str(sp))
        # ---- C, D, E: the three decisions
        fi = FnInfo(F, inst)
        ret_x = None
        decisions = []
        for bi, b in enumerate(inst["blocks"]):
            t = b["term"]
            if t and t["k"] == "switch":
                dt = T.of_operand(t["discr"])
                decisions.append((bi, dt, t))
        xterm = None
        for b in inst["blocks"]:
            for s in b["stmts"]:
                if s["k"] == "assign" and s["place"]["l"] == 0 and not s["place"]["p"] and s["rv"]["k"] == "use":
                    xterm = T.of_operand(s["rv"]["op"])
        X0 = lambda: "x_tab[(" in ""  # noqa: E731
        px = poly(xterm) if xterm else None
        want_x = None
        if px is not None and len(px) == 1:
            mono = next(iter(px))
            if len(mono) == 2 and any(a.startswith("x_tab[") and "+ 1" not in a for a in mono) and px[mono] == 1:
                want_x = True
        if not want_x:
            chk.violation("algorithm", key + ":value", "the value returned from the body is %s; expected u * x_tab[i]" % (fmt(xterm) if xterm else "?"), where=where)
        else:
            chk.ok("algorithm", key + ": returned value x = u * X[i]")
        rect = tail = wedge = None
        for bi, dt, t in decisions:
            if dt[0] == "rv":
                # comparison statement: find it
                pass
        # locate comparisons by scanning binop statements feeding switches
        cmps = {}
        for bi, b in enumerate(inst["blocks"]):
            for s in b["stmts"]:
                if s["k"] == "assign" and s["rv"]["k"] == "binop" and s["rv"]["op"] in ("Lt", "Le", "Gt", "Ge", "Eq", "Ne"):
                    cmps[s["place"]["l"]] = (s["rv"]["op"], T.of_operand(s["rv"]["a"]), T.of_operand(s["rv"]["b"]), s.get("span"), bi)
        for l, (op, a, b2, sp, bi) in cmps.items():
            # `b > a` is the comparison `a < b` written the other way round (same value, same NaN behaviour): classify the mirrored form
            if op in ("Gt", "Ge"):
                op, a, b2 = {"Gt": "Lt", "Ge": "Le"}[op], b2, a
            fa, fb = fmt(a), fmt(b2)
            if op in ("Lt", "Le") and "x_tab[" in fb and "+ 1" in fb and "f_tab" not in fa:
                rect = (op, a, b2, sp)
            elif op == "Eq" and (b2 == ("const", 0) or a == ("const", 0)) and "& " in (fa + fb):
                tail = (op, a, b2, sp, bi)
            elif op in ("Lt", "Le") and "f_tab" in fa:
                wedge = (op, a, b2, sp)
        # C rectangle
        if rect is None:
            chk.violation("algorithm", key + ":rect", "rectangle test `test_x < x_tab[i + 1]` not found", where=where)
        else:
            lhs = fmt(rect[1])
            if "x_tab[" in fmt(rect[2]) and "+ 1" in fmt(rect[2]) and rect[0] == "Lt":
                chk.ok("algorithm", key + ": rectangle test %s < X[i+1]" % lhs[:40], nontrivial=False)
            else:
                chk.violation("algorithm", key + ":rect", "rectangle test is `%s %s %s`" % (lhs, rect[0], fmt(rect[2])), where=span_str(rect[3]))
        # D tail entry
        if tail is None:
            chk.violation("algorithm", key + ":tail", "no `i == 0` test guarding the tail routine", where=where)
        else:
            # the true branch of that switch must call zero_case
            bi = tail[4]
            t = inst["blocks"][bi]["term"]
            true_target = t["otherwise"] if t["k"] == "switch" else None
            called = False
            if true_target is not None:
                tt = inst["blocks"][true_target]["term"]
                called = bool(tt and tt["k"] == "call" and "zero_case" in (tt["func"].get("fn", {}).get("shown") or ""))
            if called:
                chk.ok("algorithm", key + ": tail routine entered exactly under i == 0")
            else:
                chk.violation("algorithm", key + ":tail", "the `i == 0` branch does not lead to the tail routine", where=span_str(tail[3]))
        # E wedge polynomial
        if wedge is None:
            chk.violation("algorithm", key + ":wedge", "wedge test `f1 + (f0 - f1) * r < pdf(x)` not found", where=where)
        else:
            def atom(t):
                s = fmt(t)
                if s.startswith("f_tab["):
                    return "F1" if "+ 1" in s else "F0"
                if s.startswith("random("):
                    return "r"
                return s
            pw = poly(wedge[1], atom)
            want = {("F1",): Fraction(1), ("F0", "r"): Fraction(1), ("F1", "r"): Fraction(-1)}
            want2 = {("F0",): Fraction(1), ("F1", "r"): Fraction(1), ("F0", "r"): Fraction(-1)}    # the same law with r -> 1 - r
            rhs = fmt(wedge[2])
            if pw in (want, want2) and rhs.startswith("call_mut(") and wedge[0] == "Lt":
                chk.ok("algorithm", key + ": wedge test F[i+1] + (F[i] - F[i+1]) * r < pdf(x) (polynomial identity)")
            else:
                chk.violation("algorithm", key + ":wedge", "wedge test is `%s %s %s`; expected F[i+1] + (F[i] - F[i+1]) * r < pdf(x)"
                              % (fmt(wedge[1]), wedge[0], rhs[:60]), where=span_str(wedge[3]))

    # ---- sign and magnitude of the normal tail (abstract interpretation of the tail routine)
    from absint import Interp, Rf, Top
    from axioms import Axioms
    from values import Fl
    import values as V
    zc = [i for i in F.instances if i.get("full") and i["path"].endswith("StandardNormal as rand::distr::Distribution<f64>>::sample::zero_case")]
    chk.floor("normal tail routine instances", len(zc), 1)
    R = info.get("normal", {}).get("R")
    for inst in zc[:1]:
        ax = Axioms(F)
        for name, u, want_neg in (("u < 0", Fl.rng(-1, True, 0, False), True), ("u >= 0", Fl.rng(0, True, 1, False), False)):
            ip = Interp(F, ax)
            rv, st = ip.run_root(inst, [Rf(None, Top(), True), u])
            key = "normal tail, " + name
            if not isinstance(rv, Fl) or rv.nan or R is None:
                chk.violation("algorithm", key, "tail result %r is not a NaN-free float" % (rv,), where=span_str(inst.get("span")))
                continue
            lo, hi = rv.lo(), rv.hi()
            Rq = Fraction(R)
            tol = Rq * Fraction(1, 10 ** 9)
            if want_neg and not (hi is not None and hi[0] <= -Rq + tol):
                chk.violation("algorithm", key, "for u < 0 the tail value must lie below -R = %s, abstract result %r (sign or offset of the tail branch is wrong)" % (-R, rv),
                              where=span_str(inst.get("span")))
            elif not want_neg and not (lo is not None and lo[0] >= Rq - tol):
                chk.violation("algorithm", key, "for u >= 0 the tail value must lie above R = %s, abstract result %r (sign or offset of the tail branch is wrong)" % (R, rv),
                              where=span_str(inst.get("span")))
            else:
                chk.ok("algorithm", key + ": result %r beyond the last abscissa with the sign of u" % (rv,))

    # ---- the exponential tail: R - ln(U) with U a fresh draw from (0, 1], whatever the body's u was.  Abstract runs of Exp1's tail
    # routine with u pinned to two different points: the result must be the same interval, start at R and reach at least R + 36
    # (-ln of the smallest non-zero draw is 36.7); a value computed from u itself is a single point per run
    ez = [i for i in F.instances if i.get("full") and i["path"].endswith("Exp1 as rand::distr::Distribution<f64>>::sample::zero_case")]
    chk.floor("exponential tail routine instances", len(ez), 1)
    RE = info.get("exp", {}).get("R")
    for inst in ez[:1]:
        ax = Axioms(F)
        res = []
        for u in (Fl.point(Fraction(9, 10)), Fl.point(Fraction(99, 100))):
            ip = Interp(F, ax)
            rv, st = ip.run_root(inst, [Rf(None, Top(), True), u])
            res.append(rv)
        key = "exponential tail"
        rv = res[0]
        if RE is None or not all(isinstance(r, Fl) and not r.nan and r.lo() is not None and r.hi() is not None for r in res):
            chk.violation("algorithm", key, "tail result %r is not a NaN-free float (or R unknown)" % (res,), where=span_str(inst.get("span")))
        elif res[0] != res[1]:
            chk.violation("algorithm", key, "the Exp1 tail value depends on the body's uniform u (u = 0.9 gives %r, u = 0.99 gives %r): the tail must be R - ln(U) with a "
                          "fresh U, otherwise it collapses into a sliver just beyond R" % (res[0], res[1]), where=span_str(inst.get("span")))
        else:
            Rq = Fraction(RE)
            lo, hi = rv.lo(), rv.hi()
            tol = Rq * Fraction(1, 10 ** 9)
            if abs(lo[0] - Rq) <= tol and hi[0] >= Rq + 36 and not rv.ninf:
                chk.ok("algorithm", key + ": R - ln(U), U fresh in (0, 1]: %r, independent of u" % (rv,))
            else:
                chk.violation("algorithm", key, "the Exp1 tail must cover [R, R + 36.7] = R - ln((0, 1]) with R = %s; abstract result %r" % (RE, rv), where=span_str(inst.get("span")))

    # ---- acceptance test of the Marsaglia tail: the loop is left exactly when  -2*y >= x*x  (y = ln U2, x = ln U1 / R)
    for inst in zc[:1]:
        T = Terms(F, inst)
        fi = FnInfo(F, inst)
        key = "normal tail acceptance"
        if not fi.loops:
            chk.violation("algorithm", key + ":anchor", "the normal tail routine has no rejection loop", where=span_str(inst.get("span")))
            continue
        h, body, _ = fi.loops[0]
        found = False
        for (src, dst) in fi.loop_exits(body):
            tsw = inst["blocks"][src]["term"]
            if tsw["k"] != "switch":
                continue
            cmp_ = None
            for s_ in inst["blocks"][src]["stmts"]:
                if s_["k"] == "assign" and s_["rv"]["k"] == "binop" and s_["rv"]["op"] in ("Lt", "Le", "Gt", "Ge"):
                    cmp_ = (s_["rv"]["op"], T.of_operand(s_["rv"]["a"]), T.of_operand(s_["rv"]["b"]), s_.get("span"))
            if cmp_ is None:
                continue
            # truth value of the comparison on the exit edge
            exit_truth = None
            for v, tg in tsw["targets"]:
                if tg == dst:
                    exit_truth = int(v, 16) != 0
            if exit_truth is None and tsw["otherwise"] == dst:
                listed = {int(v, 16) != 0 for v, _ in tsw["targets"]}
                exit_truth = (False not in listed) and False or (True not in listed)
            op, a, b2, sp = cmp_
            # canonical form: exit iff  d = a - b  satisfies  d (rel) 0
            rel = {("Lt", True): "<", ("Lt", False): ">=", ("Le", True): "<=", ("Le", False): ">", ("Gt", True): ">", ("Gt", False): "<=",
                   ("Ge", True): ">=", ("Ge", False): "<"}[(op, bool(exit_truth))]

            def atom(t):
                return fmt(t)
            pa, pb = poly(a, atom), poly(b2, atom)
            if pa is None or pb is None:
                continue
            d = dict(pa)
            for m_, c_ in pb.items():
                d[m_] = d.get(m_, 0) - c_
            d = {m_: c_ for m_, c_ in d.items() if c_ != 0}
            # expected: -2*y - x*x >= 0 (or its negation x*x + 2*y <= 0), y and x the two loop variables
            monos = sorted(d.items(), key=lambda kv: len(kv[0]))
            ok = False
            if len(d) == 2 and len(monos[0][0]) == 1 and len(monos[1][0]) == 2 and monos[1][0][0] == monos[1][0][1]:
                cy, cx = monos[0][1], monos[1][1]
                plain = "(" not in monos[0][0][0] and "(" not in monos[1][0][0]
                sign_ok = (cy < 0 and cx < 0 and rel == ">=") or (cy > 0 and cx > 0 and rel == "<=")
                # with plain loop variables the constants are checked too (ratio 2); after an inlining refactor only the shape and signs
                ok = sign_ok and (not plain or cy == 2 * cx)
            found = True
            if ok:
                chk.ok("algorithm", key + ": the rejection loop exits exactly when -2*y >= x*x")
            else:
                chk.violation("algorithm", key, "the normal tail's rejection loop exits when (%s) - (%s) %s 0; Marsaglia's method accepts when -2*ln(U2) >= (ln(U1)/R)^2 "
                              "(a reversed or altered test changes the law inside the tail while keeping its total mass)" % (fmt(a), fmt(b2), rel), where=span_str(sp))
        if not found:
            chk.violation("algorithm", key + ":anchor", "acceptance comparison of the tail loop not found", where=span_str(inst.get("span")))
