"""Abstract value domains of the MIR abstract interpreter (E2).

Envelope semantics for floats (DESIGN.md 4): values are extended reals plus NaN.  An operation on finite operands yields a
finite value (no overflow/underflow by assumption); +-inf and NaN arise only at genuine singular points.
A float value is a finite union of intervals of *finite* reals (end-points exact rationals, possibly unbounded), plus three
flags: may be +inf, may be -inf, may be NaN.
"""
import math
from fractions import Fraction

INF = float("inf")
NINF = float("-inf")


def fr(x):
    if isinstance(x, Fraction):
        return x
    if isinstance(x, int):
        return Fraction(x)
    if x == INF or x == NINF:
        return x
    return Fraction(x)


def _lt(a, b):
    return a < b


class Fl:
    """Float abstract value."""
    __slots__ = ("ivs", "pinf", "ninf", "nan", "nz")

    def __init__(self, ivs=(), pinf=False, ninf=False, nan=False, nz=False):
        # a 0 inside `ivs` stands for +0.0; `nz` says that -0.0 is possible
        self.ivs = normalize(ivs)
        self.pinf = pinf
        self.ninf = ninf
        self.nan = nan
        self.nz = nz

    def real(self):
        """The same value with -0.0 identified with 0 (for arithmetic on reals and comparisons)."""
        if not self.nz:
            return self
        return Fl(self.ivs + ((Fraction(0), True, Fraction(0), True),), self.pinf, self.ninf, self.nan, False)

    def has_zero(self):
        return self.nz or self.contains(0)

    def drop_pzero(self):
        """Remove +0.0"""
        if not self.contains(0):
            return self
        out = []
        for lo, lc, hi, hc in self.ivs:
            if (lo < 0 or (lo == 0 and lc)) and (hi > 0 or (hi == 0 and hc)):
                out.append((lo, lc, Fraction(0), False))
                out.append((Fraction(0), False, hi, hc))
            else:
                out.append((lo, lc, hi, hc))
        return Fl(out, self.pinf, self.ninf, self.nan, self.nz)

    def with_zero_signs(self, pz, nz):
        """Result of a real computation: keep +0 only if `pz`, add -0 if `nz` (both only when 0 is a possible result)."""
        z = self.contains(0)
        r = self if pz or not z else self.drop_pzero()
        return Fl(r.ivs, r.pinf, r.ninf, r.nan, bool(nz and z))

    # ---- constructors
    @staticmethod
    def point(v):
        if isinstance(v, float):
            if v == 0.0 and math.copysign(1.0, v) < 0:
                return Fl(nz=True)
            if v != v:
                return Fl(nan=True)
            if v == INF:
                return Fl(pinf=True)
            if v == NINF:
                return Fl(ninf=True)
        v = fr(v)
        return Fl([(v, True, v, True)])

    @staticmethod
    def rng(lo, lc, hi, hc):
        return Fl([(fr(lo), lc, fr(hi), hc)])

    @staticmethod
    def top():
        return Fl([(NINF, False, INF, False)], True, True, True, True)

    @staticmethod
    def finite():
        return Fl([(NINF, False, INF, False)], nz=True)

    @staticmethod
    def bottom():
        return Fl()

    # ---- queries
    def is_bottom(self):
        return not self.ivs and not (self.pinf or self.ninf or self.nan or self.nz)

    def is_finite(self):
        return not (self.pinf or self.ninf or self.nan)

    def has_finite(self):
        return bool(self.ivs) or self.nz

    def lo(self):
        """(value, attained) infimum over non-NaN members (incl. infinities)."""
        if self.nz:
            return self.real().lo()
        if self.ninf:
            return (NINF, True)
        if self.ivs:
            return (self.ivs[0][0], self.ivs[0][1])
        if self.pinf:
            return (INF, True)
        return None

    def hi(self):
        if self.nz:
            return self.real().hi()
        if self.pinf:
            return (INF, True)
        if self.ivs:
            return (self.ivs[-1][2], self.ivs[-1][3])
        if self.ninf:
            return (NINF, True)
        return None

    def contains(self, v):
        if isinstance(v, float) and v != v:
            return self.nan
        if v == INF:
            return self.pinf
        if v == NINF:
            return self.ninf
        v = fr(v)
        for lo, lc, hi, hc in self.ivs:
            if (lo < v or (lo == v and lc)) and (v < hi or (v == hi and hc)):
                return True
        return False

    def is_point(self):
        if self.nan or self.pinf or self.ninf or self.nz:
            return not self.ivs and (self.nan + self.pinf + self.ninf + self.nz == 1)
        return len(self.ivs) == 1 and self.ivs[0][0] == self.ivs[0][2]

    def point_value(self):
        if self.nz:
            return Fraction(0)
        if self.ivs:
            return self.ivs[0][0]
        if self.pinf:
            return INF
        if self.ninf:
            return NINF
        return float("nan")

    # ---- lattice
    def join(self, o):
        return Fl(self.ivs + o.ivs, self.pinf or o.pinf, self.ninf or o.ninf, self.nan or o.nan, self.nz or o.nz)

    def meet_ivs(self, ivs, pinf=False, ninf=False, nan=False):
        """Meet of the +0-based interval part with `ivs`; -0.0 is kept iff 0 lies in `ivs`."""
        out = []
        for a in self.ivs:
            for b in ivs:
                c = iv_meet(a, b)
                if c:
                    out.append(c)
        z_ok = any((lo < 0 or (lo == 0 and lc)) and (hi > 0 or (hi == 0 and hc)) for lo, lc, hi, hc in ivs)
        return Fl(out, self.pinf and pinf, self.ninf and ninf, self.nan and nan, self.nz and z_ok)

    def leq(self, o):
        if (self.pinf and not o.pinf) or (self.ninf and not o.ninf) or (self.nan and not o.nan) or (self.nz and not o.nz):
            return False
        for a in self.ivs:
            if not any(iv_sub(a, b) for b in o.ivs):
                return False
        return True

    def __eq__(self, o):
        return isinstance(o, Fl) and self.ivs == o.ivs and self.pinf == o.pinf and self.ninf == o.ninf and self.nan == o.nan and self.nz == o.nz

    def __hash__(self):
        return hash((self.ivs, self.pinf, self.ninf, self.nan, self.nz))

    def widen(self, new, landmarks):
        """Widening: end-points that moved jump to the next landmark outward (`landmarks` is a sorted list)."""
        if new is self or new.leq(self):
            return self
        j = self.join(new)
        lm = landmarks
        import bisect
        ivs = []
        for (lo, lc, hi, hc) in j.ivs:
            lo_stable = any((b[0] < lo or (b[0] == lo and (b[1] or not lc))) and (lo < b[2] or (lo == b[2])) for b in self.ivs)
            hi_stable = any((hi < b[2] or (hi == b[2] and (b[3] or not hc))) and (b[0] < hi or b[0] == hi) for b in self.ivs)
            if not lo_stable and lo != NINF:
                i = bisect.bisect_left(lm, lo)     # first landmark >= lo
                if i < len(lm) and lm[i] == lo:
                    pass                      # already at a landmark: keep the bound (open or closed) as it is
                else:
                    nlo = lm[i - 1] if i > 0 else NINF
                    lo, lc = nlo, (nlo != NINF)
            if not hi_stable and hi != INF:
                i = bisect.bisect_right(lm, hi)    # first landmark > hi
                if i > 0 and lm[i - 1] == hi:
                    pass
                else:
                    nhi = lm[i] if i < len(lm) else INF
                    hi, hc = nhi, (nhi != INF)
            ivs.append((lo, lc, hi, hc))
        return Fl(ivs, j.pinf, j.ninf, j.nan, j.nz)

    def __repr__(self):
        parts = []
        for lo, lc, hi, hc in self.ivs:
            if lo == hi:
                parts.append("{%s}" % _fmt(lo))
            else:
                parts.append("%s%s,%s%s" % ("[" if lc else "(", _fmt(lo), _fmt(hi), "]" if hc else ")"))
        if self.nz:
            parts.insert(0, "-0")
        if self.ninf:
            parts.insert(0, "-inf")
        if self.pinf:
            parts.append("+inf")
        if self.nan:
            parts.append("NaN")
        return "Fl<" + " u ".join(parts) + ">" if parts else "Fl<bottom>"


def _fmt(x):
    if x == INF:
        return "inf"
    if x == NINF:
        return "-inf"
    f = float(x)
    return repr(f) if Fraction(f) == x else "~%r" % f


def iv_meet(a, b):
    lo, lc = (a[0], a[1]) if a[0] > b[0] else (b[0], b[1]) if b[0] > a[0] else (a[0], a[1] and b[1])
    hi, hc = (a[2], a[3]) if a[2] < b[2] else (b[2], b[3]) if b[2] < a[2] else (a[2], a[3] and b[3])
    if lo > hi or (lo == hi and not (lc and hc)):
        return None
    return (lo, lc, hi, hc)


def iv_sub(a, b):
    """a subset of b"""
    lo_ok = b[0] < a[0] or (b[0] == a[0] and (b[1] or not a[1]))
    hi_ok = a[2] < b[2] or (a[2] == b[2] and (b[3] or not a[3]))
    return lo_ok and hi_ok


def normalize(ivs):
    out = []
    for (lo, lc, hi, hc) in sorted(ivs, key=lambda t: (t[0], not t[1])):
        if lo == NINF:
            lc = False
        if hi == INF:
            hc = False
        if lo > hi or (lo == hi and not (lc and hc)):
            continue
        if out:
            plo, plc, phi, phc = out[-1]
            if lo < phi or (lo == phi and (lc or phc)):
                # overlap or touching
                if hi > phi or (hi == phi and hc and not phc):
                    out[-1] = (plo, plc, hi, hc)
                continue
        out.append((lo, lc, hi, hc))
    if len(out) > MAX_IVS:
        out = _coarsen(out)
    return tuple(out)


MAX_IVS = 8


def _coarsen(out):
    """Bound the number of pieces of a union: close the narrowest gaps first, gaps that contain 0 last (the exclusion of 0 is what
    divisions and logarithms depend on).  Sound: the result is a superset."""
    out = list(out)
    while len(out) > MAX_IVS:
        best, bestkey = None, None
        for i in range(len(out) - 1):
            a, b = out[i], out[i + 1]
            gap = b[0] - a[2]
            has0 = a[2] <= 0 <= b[0]
            key = (has0, gap)
            if bestkey is None or key < bestkey:
                best, bestkey = i, key
        a, b = out[best], out[best + 1]
        out[best:best + 2] = [(a[0], a[1], b[2], b[3])]
    return out


# ---------------------------------------------------------------------------------------- arithmetic on finite intervals
def _mul_end(a, ac, b, bc):
    """product of two end-points with closedness; unbounded ends stand for arbitrarily large finite values."""
    if (a == 0 and ac) or (b == 0 and bc):
        return (Fraction(0), True)
    if a == 0 or b == 0:
        return (Fraction(0), False)
    if a in (INF, NINF) or b in (INF, NINF):
        s = (1 if a > 0 else -1) * (1 if b > 0 else -1)
        return (INF if s > 0 else NINF, False)
    return (a * b, ac and bc)


def _minmax(cands):
    lo = min(c[0] for c in cands)
    hi = max(c[0] for c in cands)
    lc = any(c[1] for c in cands if c[0] == lo)
    hc = any(c[1] for c in cands if c[0] == hi)
    return lo, lc, hi, hc


def iv_add(a, b):
    lo = a[0] + b[0] if NINF not in (a[0], b[0]) else NINF
    hi = a[2] + b[2] if INF not in (a[2], b[2]) else INF
    return (lo, a[1] and b[1], hi, a[3] and b[3])


def iv_neg(a):
    return (-a[2], a[3], -a[0], a[1])


def iv_mul(a, b):
    c = [_mul_end(a[0], a[1], b[0], b[1]), _mul_end(a[0], a[1], b[2], b[3]), _mul_end(a[2], a[3], b[0], b[1]), _mul_end(a[2], a[3], b[2], b[3])]
    return _minmax(c)


def split_sign(x):
    """(negative part, may be zero (either sign), positive part) of the finite intervals of x"""
    neg = Fl(x.ivs).meet_ivs([(NINF, False, Fraction(0), False)]).ivs
    pos = Fl(x.ivs).meet_ivs([(Fraction(0), False, INF, False)]).ivs
    return neg, x.has_zero(), pos


def signs(x):
    """(may carry a negative sign bit, may carry a positive sign bit) over the non-NaN members"""
    neg = x.nz or x.ninf or any(lo < 0 for lo, lc, hi, hc in x.ivs)
    pos = x.pinf or any(hi > 0 or (hi == 0 and hc) for lo, lc, hi, hc in x.ivs)
    return neg, pos


def iv_recip(a):
    """1/a for an interval not containing 0 (strictly one sign)."""
    lo, lc, hi, hc = a
    if hi == 0:
        nlo, nlc = NINF, False
    elif hi in (INF, NINF):
        nlo, nlc = Fraction(0), False
    else:
        nlo, nlc = 1 / hi, hc
    if lo == 0:
        nhi, nhc = INF, False
    elif lo in (INF, NINF):
        nhi, nhc = Fraction(0), False
    else:
        nhi, nhc = 1 / lo, lc
    return (nlo, nlc, nhi, nhc)


def fl_neg(x):
    r = Fl([iv_neg(a) for a in x.ivs], x.ninf, x.pinf, x.nan)
    # -(+0) = -0 and -(-0) = +0
    pz = x.nz
    nz = x.contains(0)
    r = r if pz or not r.contains(0) else r.drop_pzero()
    if pz and not r.contains(0):
        r = r.join(Fl.point(0))
    return Fl(r.ivs, r.pinf, r.ninf, r.nan, nz)


def fl_add(x, y):
    xr, yr = x.real(), y.real()
    ivs = [iv_add(a, b) for a in xr.ivs for b in yr.ivs]
    nan = x.nan or y.nan or (x.pinf and y.ninf) or (x.ninf and y.pinf)
    pinf = (x.pinf and (y.has_finite() or y.pinf)) or (y.pinf and (x.has_finite() or x.pinf))
    ninf = (x.ninf and (y.has_finite() or y.ninf)) or (y.ninf and (x.has_finite() or x.ninf))
    r = Fl(ivs, pinf, ninf, nan)
    # a zero sum is -0 only for (-0) + (-0)
    nz = x.nz and y.nz
    pz = True
    if r.contains(0):
        only_nz = (not x.ivs and x.nz and not y.ivs and y.nz)
        pz = not only_nz
    return r.with_zero_signs(pz, nz)


def fl_sub(x, y):
    return fl_add(x, fl_neg(y))


def fl_mul(x, y, same=False):
    xr, yr = x.real(), y.real()
    ivs = [iv_mul(a, b) for a in xr.ivs for b in yr.ivs]
    if same:
        out = []
        for a in xr.ivs:
            lo, lc, hi, hc = iv_mul(a, a)
            if a[0] <= 0 <= a[2]:
                lo, lc = Fraction(0), xr.contains(0)
            if lo < 0:
                lo, lc = Fraction(0), xr.contains(0)
            out.append((lo, lc, hi, hc))
        ivs = out
    nan = x.nan or y.nan
    pinf = ninf = False
    for (a, b) in ((x, y), (y, x)):
        for inf_pos, has in ((True, a.pinf), (False, a.ninf)):
            if not has:
                continue
            neg, z, pos = split_sign(b)
            if z:
                nan = True
            bpos = bool(pos) or b.pinf
            bneg = bool(neg) or b.ninf
            if inf_pos:
                pinf |= bpos
                ninf |= bneg
            else:
                pinf |= bneg
                ninf |= bpos
    if same:
        ninf = False
        pinf = x.pinf or x.ninf
        return Fl(ivs, pinf, ninf, nan)
    r = Fl(ivs, pinf, ninf, nan)
    xn, xp = signs(x)
    yn, yp = signs(y)
    return r.with_zero_signs((xp and yp) or (xn and yn), (xn and yp) or (xp and yn))


def fl_recip(y):
    return fl_div(Fl.point(1), y)


def fl_div(x, y):
    neg, z, pos = split_sign(y)
    xr = x.real()
    ivs = []
    for b in list(neg) + list(pos):
        r = iv_recip(b)
        for a in xr.ivs:
            ivs.append(iv_mul(a, r))
    nan = x.nan or y.nan
    pinf = ninf = False
    xneg, xz, xpos = split_sign(x)
    x_pos_any = bool(xpos) or x.pinf
    x_neg_any = bool(xneg) or x.ninf
    if z:
        if xz:
            nan = True
        if y.contains(0):      # +0 divisor
            pinf |= x_pos_any
            ninf |= x_neg_any
        if y.nz:               # -0 divisor
            pinf |= x_neg_any
            ninf |= x_pos_any
    if y.pinf or y.ninf:
        if x.has_finite():
            ivs.append((Fraction(0), True, Fraction(0), True))
        if x.pinf or x.ninf:
            nan = True
    for inf_pos, has in ((True, x.pinf), (False, x.ninf)):
        if has:
            if pos or y.contains(0):
                pinf |= inf_pos
                ninf |= not inf_pos
            if neg or y.nz:
                pinf |= not inf_pos
                ninf |= inf_pos
    r = Fl(ivs, pinf, ninf, nan)
    xn, xp = signs(x)
    yn, yp = signs(y)
    return r.with_zero_signs((xp and yp) or (xn and yn), (xn and yp) or (xp and yn))


def _approx(f, v, up):
    """f(v) as a rational, pushed outward by a relative 1e-12 (transcendental end-points are not exact)."""
    fv = float(v)
    if fv == 0.0 and v != 0:
        fv = 5e-324 if v > 0 else -5e-324       # magnitudes below the double range: evaluate at the smallest double
    try:
        r = f(fv)
    except (ValueError, OverflowError):
        return NINF if not up else INF
    if r == INF or r == NINF or r != r:
        return r
    q = Fraction(r)
    eps = abs(q) * Fraction(1, 10 ** 12) + Fraction(1, 10 ** 300)
    return q + eps if up else q - eps


def fl_ln(x):
    nan = x.nan or x.ninf
    neg, z, pos = split_sign(x)
    if neg:
        nan = True
    ivs = []
    for lo, lc, hi, hc in pos:
        a = NINF if lo == 0 else (Fraction(0) if lo == 1 else _approx(math.log, lo, False))
        b = INF if hi == INF else (Fraction(0) if hi == 1 else _approx(math.log, hi, True))
        if lo == hi:
            ivs.append((a, True, b, True))
        else:
            ivs.append((a, lc and lo == 1, b, hc and hi == 1))
    return Fl(ivs, x.pinf, z, nan)


def fl_exp(x):
    ivs = []
    xr = x.real()
    for lo, lc, hi, hc in xr.ivs:
        if lo == NINF:
            a = Fraction(0)
        elif lo == 0:
            a = Fraction(1)
        elif float(lo) > 700:
            a = Fraction(10) ** 300
        else:
            a = max(_approx(math.exp, lo, False), Fraction(1, 10 ** 320))
        if hi == INF:
            b = INF
        elif hi == 0:
            b = Fraction(1)
        elif float(hi) < 700:
            b = _approx(math.exp, hi, True)
        else:
            b = INF
        lc2 = lc and lo == 0
        hc2 = hc and hi == 0
        if lo == hi:
            lc2 = hc2 = True
        ivs.append((a, lc2, b, hc2))
    if x.ninf:
        ivs.append((Fraction(0), True, Fraction(0), True))
    return Fl(ivs, x.pinf, False, x.nan)


def fl_sqrt(x):
    neg, z, pos = split_sign(x)
    nan = x.nan or bool(neg) or x.ninf
    ivs = []
    for lo, lc, hi, hc in pos:
        def sq(v, up):
            if v == 0:
                return Fraction(0)
            if v == 1:
                return Fraction(1)
            n, d = v.numerator, v.denominator
            rn, rd = math.isqrt(n), math.isqrt(d)
            if rn * rn == n and rd * rd == d:
                return Fraction(rn, rd)
            return _approx(math.sqrt, v, up)
        a = sq(lo, False)
        b = INF if hi == INF else sq(hi, True)
        ex_a = lo == 0 or (a * a == lo)
        ex_b = hi != INF and (b * b == hi)
        if lo == hi:
            ivs.append((a, True, b, True))
        else:
            ivs.append((a, lc and ex_a, b, hc and ex_b))
    if x.contains(0):
        ivs.append((Fraction(0), True, Fraction(0), True))
    return Fl(ivs, x.pinf, False, nan, x.nz)


def fl_abs(x):
    neg, z, pos = split_sign(x)
    ivs = [iv_neg(a) for a in neg] + list(pos)
    if z:
        ivs.append((Fraction(0), True, Fraction(0), True))
    return Fl(ivs, x.pinf or x.ninf, False, x.nan)


def fl_floor(x):
    ivs = []
    for lo, lc, hi, hc in x.ivs:
        a = NINF if lo == NINF else Fraction(math.floor(lo))
        b = INF if hi == INF else Fraction(math.floor(hi))
        if hi != INF and not hc and b == hi:
            b = b - 1
        ivs.append((a, a != NINF, b, b != INF))
    return Fl(ivs, x.pinf, x.ninf, x.nan, x.nz)


def fl_ceil(x):
    return fl_neg(fl_floor(fl_neg(x)))


def fl_tan(x):
    # total on finite input (no float equals an odd multiple of pi/2); tan(+-0) = +-0
    if not x.ivs and not (x.pinf or x.ninf):
        return Fl((), False, False, x.nan, x.nz)
    if x.is_point() and x.ivs and x.ivs[0][0] == 0:
        return Fl.point(0)
    return Fl([(NINF, False, INF, False)] if x.has_finite() else [], False, False, x.nan or x.pinf or x.ninf, True)


def fl_pow(x, y):
    """x.powf(y) on extended reals (IEEE pow special cases, envelope semantics for finite^finite)."""
    res = Fl(nan=x.nan or y.nan)
    if (x.nan and y.has_zero()):
        res = res.join(Fl.point(1))
    xneg, xz, xpos = split_sign(x)
    yneg, yz, ypos = split_sign(y)
    ypos_any = bool(ypos) or y.pinf
    yneg_any = bool(yneg) or y.ninf
    if yz and not x.is_bottom():
        res = res.join(Fl.point(1))
    for a in xpos:
        for b in list(yneg) + list(ypos):
            res = res.join(_pow_box(a, b))
    if xz:
        if ypos_any:
            res = res.join(Fl.point(0))
            if x.nz:
                res = res.join(Fl(nz=True))       # (-0)^(odd integer) = -0
        if yneg_any:
            res = res.join(Fl(pinf=True))            # (+0)^negative = +inf
            if x.nz:
                res = res.join(Fl(ninf=True))        # (-0)^(negative odd integer) = -inf
    if xneg:
        if ypos or yneg:
            res = res.join(Fl([(NINF, False, INF, False)], nan=True, nz=True))
        if y.pinf or y.ninf:
            res = res.join(Fl([(Fraction(0), True, Fraction(0), True), (Fraction(1), True, Fraction(1), True)], pinf=True))
    if x.pinf:
        if ypos_any:
            res = res.join(Fl(pinf=True))
        if yneg_any:
            res = res.join(Fl.point(0))
    if x.ninf:
        if ypos_any:
            res = res.join(Fl(pinf=True, ninf=True))
        if yneg_any:
            res = res.join(Fl([(Fraction(0), True, Fraction(0), True)], nz=True))
    if (y.pinf or y.ninf) and xpos:
        below = Fl(xpos).meet_ivs([(Fraction(0), False, Fraction(1), False)]).ivs
        above = Fl(xpos).meet_ivs([(Fraction(1), False, INF, False)]).ivs
        if Fl(xpos).contains(1):
            res = res.join(Fl.point(1))
        if y.pinf:
            if below:
                res = res.join(Fl.point(0))
            if above:
                res = res.join(Fl(pinf=True))
        if y.ninf:
            if below:
                res = res.join(Fl(pinf=True))
            if above:
                res = res.join(Fl.point(0))
    return res


def _pow_box(a, b):
    """{x^y : x in a (positive), y in b (one sign, nonzero)}; extremes are at the corners (monotone in each variable)."""
    def p(xv, yv):
        if xv == 1:
            return Fraction(1), True
        if xv == 0:
            return (Fraction(0), True) if yv > 0 else (INF, True)
        if xv == INF:
            return (INF, True) if yv > 0 else (Fraction(0), True)
        if yv == INF:
            return (INF, True) if xv > 1 else (Fraction(0), True)
        if yv == NINF:
            return (Fraction(0), True) if xv > 1 else (INF, True)
        try:
            v = math.pow(float(xv), float(yv))
        except OverflowError:
            v = INF
        if v == INF:
            return Fraction(10) ** 300, False
        if v == 0.0:
            return Fraction(1, 10 ** 320), False
        return Fraction(v), False
    corners = []
    for xv, xc in ((a[0], a[1]), (a[2], a[3])):
        for yv, yc in ((b[0], b[1]), (b[2], b[3])):
            v, ex = p(xv, yv)
            corners.append((v, xc and yc, ex))
    lo = min(c[0] for c in corners)
    hi = max(c[0] for c in corners)
    lo_c = [c for c in corners if c[0] == lo]
    hi_c = [c for c in corners if c[0] == hi]
    if lo != INF and not any(c[2] for c in lo_c):
        lo = lo - abs(lo) * Fraction(1, 10 ** 12)
    if hi != INF and not any(c[2] for c in hi_c):
        hi = hi + abs(hi) * Fraction(1, 10 ** 12)
    lc = any(c[1] and c[2] for c in lo_c)
    hc = any(c[1] and c[2] for c in hi_c)
    if lo == INF:
        # every corner is +inf only at limits that are not attained by finite positive base / finite exponent
        return Fl([(Fraction(10) ** 300, False, INF, False)])
    if (a[0] == a[2] and b[0] == b[2]) or lo == hi:
        lc = hc = True
    # finite positive base, finite non-zero exponent: strictly positive finite result (envelope semantics)
    if lo <= 0:
        lo, lc = Fraction(0), False
    if hi == INF:
        hc = False
    return Fl([(lo, lc, hi, hc)])


def fl_powi(x, n_lo, n_hi):
    if n_lo == n_hi:
        n = n_lo
        if n == 0:
            return Fl.point(1) if not x.is_bottom() else x
        if n > 0:
            if n <= 8:
                r = x
                for _ in range(n - 1):
                    r = fl_mul(r, x)
                if n % 2 == 0:
                    r2 = r.real().meet_ivs([(Fraction(0), True, INF, False)], True, False, True)
                    r = Fl(r2.ivs, r.pinf or x.ninf, False, r.nan)
                return r
            neg, z, pos = split_sign(x)
            ivs = []
            if pos:
                ivs.append((Fraction(0), False, INF, False))
            if z:
                ivs.append((Fraction(0), True, Fraction(0), True))
            if neg:
                ivs.append((Fraction(0), False, INF, False) if n % 2 == 0 else (NINF, False, Fraction(0), False))
            return Fl(ivs, x.pinf or (x.ninf and n % 2 == 0), x.ninf and n % 2 == 1, x.nan, x.nz and n % 2 == 1)
        return fl_recip(fl_powi(x, -n, -n))
    neg, z, pos = split_sign(x)
    out = Fl(nan=x.nan)
    if pos or x.pinf:
        out = out.join(Fl([(Fraction(0), False, INF, False)], pinf=x.pinf))
        if x.pinf and n_lo < 0:
            out = out.join(Fl.point(0))
    if z:
        if n_hi > 0:
            out = out.join(Fl([(Fraction(0), True, Fraction(0), True)], nz=x.nz))
        if n_lo <= 0 <= n_hi:
            out = out.join(Fl.point(1))
        if n_lo < 0:
            out = out.join(Fl(pinf=True, ninf=x.nz))
    if neg or x.ninf:
        out = out.join(Fl([(NINF, False, INF, False)], pinf=x.ninf, ninf=x.ninf, nz=True))
    return out


def fl_min(x, y):
    # IEEE minNum: NaN is ignored when the other operand is a number
    nan = x.nan and y.nan
    r = _minmax_fl(x, y, True)
    if x.nan:
        r = r.join(Fl(y.ivs, y.pinf, y.ninf, False, y.nz))
    if y.nan:
        r = r.join(Fl(x.ivs, x.pinf, x.ninf, False, x.nz))
    return Fl(r.ivs, r.pinf, r.ninf, nan, r.nz)


def fl_max(x, y):
    nan = x.nan and y.nan
    r = _minmax_fl(x, y, False)
    if x.nan:
        r = r.join(Fl(y.ivs, y.pinf, y.ninf, False, y.nz))
    if y.nan:
        r = r.join(Fl(x.ivs, x.pinf, x.ninf, False, x.nz))
    return Fl(r.ivs, r.pinf, r.ninf, nan, r.nz)


def _minmax_fl(x, y, is_min):
    xl, xh, yl, yh = x.lo(), x.hi(), y.lo(), y.hi()
    if xl is None or yl is None:
        return Fl()
    j = Fl(x.ivs + y.ivs, x.pinf or y.pinf, x.ninf or y.ninf, False, x.nz or y.nz)

    def pt(v):
        return Fl.point(v) if v not in (INF, NINF) else Fl(pinf=v == INF, ninf=v == NINF)
    if is_min:
        cap = xh if (xh[0] < yh[0] or (xh[0] == yh[0] and not xh[1])) else yh
        return refine_cmp(j, "le" if cap[1] else "lt", pt(cap[0]), True)
    cap = xl if (xl[0] > yl[0] or (xl[0] == yl[0] and not xl[1])) else yl
    return refine_cmp(j, "ge" if cap[1] else "gt", pt(cap[0]), True)


# ---------------------------------------------------------------------------------------- comparisons
def cmp_outcomes(op, x, y, same=False):
    """(may be true, may be false) of `x op y` for op in lt le gt ge eq ne."""
    if x.is_bottom() or y.is_bottom():
        return (False, False)
    x, y = x.real(), y.real()
    t = f = False
    if x.nan or y.nan:
        if op == "ne":
            t = True
        else:
            f = True
    xl, xh, yl, yh = x.lo(), x.hi(), y.lo(), y.hi()
    if xl is None or yl is None:
        return (t, f)
    if same:
        # x compared with itself (non-NaN part): eq/le/ge true, lt/gt/ne false
        if op in ("eq", "le", "ge"):
            t = True
        else:
            f = True
        return (t, f)

    def lt_possible(al, bh):   # exists a < b ?  a's inf vs b's sup
        return al[0] < bh[0]

    def le_possible(al, bh):
        return al[0] < bh[0] or (al[0] == bh[0] and al[1] and bh[1])
    can_lt = lt_possible(xl, yh)
    can_gt = lt_possible(yl, xh)
    can_eq = _overlap(x, y)
    if op == "lt":
        t |= can_lt
        f |= can_gt or can_eq
    elif op == "le":
        t |= can_lt or can_eq
        f |= can_gt
    elif op == "gt":
        t |= can_gt
        f |= can_lt or can_eq
    elif op == "ge":
        t |= can_gt or can_eq
        f |= can_lt
    elif op == "eq":
        t |= can_eq
        f |= can_lt or can_gt
    elif op == "ne":
        t |= can_lt or can_gt
        f |= can_eq
    return (t, f)


def _overlap(x, y):
    if (x.pinf and y.pinf) or (x.ninf and y.ninf):
        return True
    for a in x.ivs:
        for b in y.ivs:
            if iv_meet(a, b):
                return True
    return False


def refine_cmp(x, op, y, truth):
    """Restrict x to the members for which `x op y` can evaluate to `truth` for some member of y."""
    if y.is_bottom():
        return Fl()
    y = y.real()
    neg = {"lt": "ge", "le": "gt", "gt": "le", "ge": "lt", "eq": "ne", "ne": "eq"}
    nan_keep = False
    if not truth:
        # !(x op y): true for NaN operands (except ne), or the negated relation
        if op != "ne":
            nan_keep = x.nan
            if y.nan:
                return x
        else:
            if y.nan and not (y.has_finite() or y.pinf or y.ninf):
                return Fl()
        op = neg[op]
    else:
        if op == "ne":
            nan_keep = x.nan
            if y.nan:
                return x
    yl, yh = y.lo(), y.hi()
    if yl is None:
        return Fl(nan=nan_keep)
    base = Fl(x.ivs, x.pinf, x.ninf, False, x.nz)
    if op in ("lt", "le"):
        bound, att = yh
        strict = (op == "lt") or not att
        r = _below(base, bound, strict)
    elif op in ("gt", "ge"):
        bound, att = yl
        strict = (op == "gt") or not att
        r = _above(base, bound, strict)
    elif op == "eq":
        r = base.meet_ivs(y.ivs, y.pinf, y.ninf, False)
    else:  # ne
        if y.is_point() and not y.nan:
            v = y.point_value()
            r = _below(base, v, True).join(_above(base, v, True))
        else:
            r = base
    return Fl(r.ivs, r.pinf, r.ninf, nan_keep, r.nz)


def _below(x, bound, strict):
    if bound == INF:
        return Fl(x.ivs, x.pinf and not strict, x.ninf, False, x.nz)
    if bound == NINF:
        return Fl((), False, x.ninf and not strict)
    r = x.meet_ivs([(NINF, False, bound, not strict)])
    return Fl(r.ivs, False, x.ninf, False, r.nz)


def _above(x, bound, strict):
    if bound == NINF:
        return Fl(x.ivs, x.pinf, x.ninf and not strict, False, x.nz)
    if bound == INF:
        return Fl((), x.pinf and not strict, False)
    r = x.meet_ivs([(bound, not strict, INF, False)])
    return Fl(r.ivs, x.pinf, False, False, r.nz)


# ---------------------------------------------------------------------------------------- integers
class In:
    """Integer interval within a machine type."""
    __slots__ = ("lo", "hi", "bits", "signed")

    def __init__(self, lo, hi, bits, signed):
        self.lo, self.hi, self.bits, self.signed = lo, hi, bits, signed

    @staticmethod
    def of_type(bits, signed):
        if signed:
            return In(-(1 << (bits - 1)), (1 << (bits - 1)) - 1, bits, True)
        return In(0, (1 << bits) - 1, bits, False)

    def tmin(self):
        return -(1 << (self.bits - 1)) if self.signed else 0

    def tmax(self):
        return (1 << (self.bits - 1)) - 1 if self.signed else (1 << self.bits) - 1

    def is_bottom(self):
        return self.lo > self.hi

    def is_point(self):
        return self.lo == self.hi

    def join(self, o):
        if self.is_bottom():
            return o
        if o.is_bottom():
            return self
        return In(min(self.lo, o.lo), max(self.hi, o.hi), self.bits, self.signed)

    def leq(self, o):
        return self.is_bottom() or (o.lo <= self.lo and self.hi <= o.hi)

    def widen(self, new, landmarks=()):
        if new.leq(self):
            return self
        j = self.join(new)
        lo, hi = j.lo, j.hi
        if j.lo < self.lo:
            c = [x for x in landmarks if x <= j.lo]
            lo = max(c) if c else self.tmin()
            lo = max(lo, self.tmin())
        if j.hi > self.hi:
            c = [x for x in landmarks if x >= j.hi]
            hi = min(c) if c else self.tmax()
            hi = min(hi, self.tmax())
        return In(lo, hi, self.bits, self.signed)

    def clamp(self):
        return In(max(self.lo, self.tmin()), min(self.hi, self.tmax()), self.bits, self.signed)

    def __eq__(self, o):
        return isinstance(o, In) and (self.lo, self.hi, self.bits, self.signed) == (o.lo, o.hi, o.bits, o.signed)

    def __hash__(self):
        return hash((self.lo, self.hi, self.bits, self.signed))

    def __repr__(self):
        t = "%s%d" % ("i" if self.signed else "u", self.bits)
        if self.is_bottom():
            return "In<bottom %s>" % t
        if self.lo == self.hi:
            return "In<%d %s>" % (self.lo, t)
        lo = "min" if self.lo == self.tmin() else str(self.lo)
        hi = "max" if self.hi == self.tmax() else str(self.hi)
        return "In<%s..%s %s>" % (lo, hi, t)


def in_cmp(op, x, y):
    if x.is_bottom() or y.is_bottom():
        return (False, False)
    can_lt = x.lo < y.hi
    can_gt = x.hi > y.lo
    can_eq = not (x.hi < y.lo or y.hi < x.lo)
    return {"lt": (can_lt, can_gt or can_eq), "le": (can_lt or can_eq, can_gt), "gt": (can_gt, can_lt or can_eq),
            "ge": (can_gt or can_eq, can_lt), "eq": (can_eq, can_lt or can_gt), "ne": (can_lt or can_gt, can_eq and not (x.is_point() and y.is_point() and x.lo == y.lo) or (can_eq and x.is_point() and y.is_point()))}[op]


def in_refine(x, op, y, truth):
    neg = {"lt": "ge", "le": "gt", "gt": "le", "ge": "lt", "eq": "ne", "ne": "eq"}
    if not truth:
        op = neg[op]
    if y.is_bottom():
        return In(1, 0, x.bits, x.signed)
    lo, hi = x.lo, x.hi
    if op == "lt":
        hi = min(hi, y.hi - 1)
    elif op == "le":
        hi = min(hi, y.hi)
    elif op == "gt":
        lo = max(lo, y.lo + 1)
    elif op == "ge":
        lo = max(lo, y.lo)
    elif op == "eq":
        lo, hi = max(lo, y.lo), min(hi, y.hi)
    elif op == "ne":
        if y.is_point():
            if lo == y.lo:
                lo += 1
            if hi == y.lo:
                hi -= 1
    return In(lo, hi, x.bits, x.signed)


# ---------------------------------------------------------------------------------------- IEEE rounding of exact results (optional mode)
FMT = {64: (53, -1022, 1023), 32: (24, -126, 127)}


def round_to_format(x, bits):
    """Round an exact rational to the nearest value of binary32/binary64 (ties to even). Returns a Fraction, or +-inf (float) on overflow."""
    if x == 0:
        return Fraction(0)
    p, emin, emax = FMT[bits]
    sign = -1 if x < 0 else 1
    a = -x if x < 0 else x
    # exponent e with 2^e <= a < 2^(e+1)
    e = a.numerator.bit_length() - a.denominator.bit_length()
    if Fraction(2) ** e > a:
        e -= 1
    elif Fraction(2) ** (e + 1) <= a:
        e += 1
    e = max(e, emin)                      # subnormals share the exponent emin
    q = a / (Fraction(2) ** (e - p + 1))  # significand scaled to an integer grid
    n = q.numerator // q.denominator
    rem = q - n
    if rem > Fraction(1, 2) or (rem == Fraction(1, 2) and n % 2 == 1):
        n += 1
    r = Fraction(n) * Fraction(2) ** (e - p + 1)
    if r >= Fraction(2) ** (emax + 1):
        return INF if sign > 0 else NINF
    return r * sign


def fl_round(v, bits):
    """IEEE-range view of a value computed over the reals: exact points are rounded to the format (overflow -> inf, underflow -> 0);
    intervals that leave the finite range gain the corresponding infinity, intervals reaching below half the smallest subnormal gain 0."""
    if not v.ivs:
        return v
    p, emin, emax = FMT[bits]
    fmax = (2 - Fraction(2) ** (1 - p)) * Fraction(2) ** emax
    tiny = Fraction(2) ** (emin - p + 1) / 2          # half of the smallest subnormal
    out = []
    pinf, ninf, nz = v.pinf, v.ninf, v.nz
    for lo, lc, hi, hc in v.ivs:
        if lo == hi:
            r = round_to_format(lo, bits)
            if r == INF:
                pinf = True
            elif r == NINF:
                ninf = True
            elif r == 0 and lo != 0:
                if lo < 0:
                    nz = True
                else:
                    out.append((Fraction(0), True, Fraction(0), True))
            else:
                out.append((r, True, r, True))
            continue
        nlo, nlc, nhi, nhc = lo, lc, hi, hc
        # round-to-nearest overflows only from fmax + ulp/2 on; values in (fmax, fmax + ulp/2) round to fmax
        over = fmax + Fraction(2) ** (emax - p)
        if hi == INF or hi > over or (hi == over and hc):
            pinf = True
        if hi == INF or hi > fmax:
            nhi, nhc = fmax, True
        if lo == NINF or lo < -over or (lo == -over and lc):
            ninf = True
        if lo == NINF or lo < -fmax:
            nlo, nlc = -fmax, True
        if nlo != NINF and nlo > fmax:
            if nlo > over or (nlo == over):
                continue            # the whole interval overflows: only +inf (recorded above)
            nlo, nlc = fmax, True
        if nhi != INF and nhi < -fmax:
            if nhi < -over or (nhi == -over):
                continue
            nhi, nhc = -fmax, True
        if hi != INF and hi > fmax and nlo == fmax:
            nlc = True              # (fmax, fmax + ulp/2) rounds to fmax itself
        if lo != NINF and lo < -fmax and nhi == -fmax:
            nhc = True
        if nlo > nhi:
            continue
        # values of tiny magnitude round to a zero of their sign
        if nlo < tiny and nhi > 0 and not (nlo <= 0 and (nlo < 0 or nlc)):
            out.append((Fraction(0), True, Fraction(0), True))
        if nhi > -tiny and nlo < 0 and not (nhi >= 0 and (nhi > 0 or nhc)):
            nz = True
        out.append((nlo, nlc, nhi, nhc))
    return Fl(out, pinf, ninf, v.nan, nz)
