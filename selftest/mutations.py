"""Mutation catalogue (DESIGN.md Appendix B).  Every entry compiles and passes the pinned 161 tests, but breaks
the named clause; `expect` is a substring of the alarm line that must name the broken instance."""

MUTATIONS = [
    # ------------------------------------------------------------------ C14
    dict(property="C14", name="atomic_counter", expect="atomic",
         what="a global AtomicU64 call counter read in UnitDisc::sample",
         edits=[("src/unit_disc.rs",
                 "        let uniform = Uniform::new(F::from(-1.).unwrap(), F::from(1.).unwrap()).unwrap();\n        let mut x1;",
                 "        static CALLS: core::sync::atomic::AtomicU64 = core::sync::atomic::AtomicU64::new(0);\n"
                 "        let n = CALLS.fetch_add(1, core::sync::atomic::Ordering::Relaxed);\n"
                 "        let uniform = Uniform::new(F::from(-1.).unwrap(), F::from(if n == u64::MAX { 0.5 } else { 1. }).unwrap()).unwrap();\n        let mut x1;")]),
    dict(property="C14", name="cell_spare", expect="interior mutability",
         what="a sampling counter kept in a Cell field of Cauchy (Copy derive dropped)",
         edits=[("src/cauchy.rs", "#[derive(Clone, Copy, Debug, PartialEq)]\n#[cfg_attr(feature = \"serde\", derive(serde::Serialize, serde::Deserialize))]\npub struct Cauchy<F>",
                 "#[derive(Clone, Debug, PartialEq)]\npub struct Cauchy<F>"),
                ("src/cauchy.rs", "    median: F,\n    scale: F,\n}", "    median: F,\n    scale: F,\n    spare: core::cell::Cell<u32>,\n}"),
                ("src/cauchy.rs", "        Ok(Cauchy { median, scale })", "        Ok(Cauchy { median, scale, spare: core::cell::Cell::new(0) })"),
                ("src/cauchy.rs", "        let x = StandardUniform.sample(rng);\n        // get standard cauchy", "        self.spare.set(self.spare.get().wrapping_add(1));\n        let x = StandardUniform.sample(rng);\n        // get standard cauchy")]),
    dict(property="C14", name="thread_local_spare", expect="effects",
         what="a thread_local! spare variate consulted in UnitCircle::sample (needs std)",
         edits=[("src/unit_circle.rs", "        let uniform = Uniform::new(F::from(-1.).unwrap(), F::from(1.).unwrap()).unwrap();\n        let mut x1;\n        let mut x2;\n        let mut sum;",
                 "        #[cfg(feature = \"std\")]\n        {\n            extern crate std;\n            std::thread_local! { static LAST: core::cell::Cell<u8> = const { core::cell::Cell::new(0) }; }\n            LAST.with(|l| l.set(l.get().wrapping_add(1)));\n        }\n        let uniform = Uniform::new(F::from(-1.).unwrap(), F::from(1.).unwrap()).unwrap();\n        let mut x1;\n        let mut x2;\n        let mut sum;")]),
    dict(property="C14", name="custom_clone", expect="clone-eq",
         what="hand-written Clone for WeightedAliasIndex that resets a field",
         edits=[("src/weighted/weighted_alias.rs", "            no_alias_odds: self.no_alias_odds.clone(),", "            no_alias_odds: self.aliases.iter().map(|_| W::ZERO).collect(),")]),
    dict(property="C14", name="sample_iter_override", expect="dist-impl",
         what="UnitBall overrides Distribution::sample_iter",
         edits=[("src/unit_ball.rs", "    fn sample<R: Rng + ?Sized>(&self, rng: &mut R) -> [F; 3] {", "    fn sample_iter<R>(self, rng: R) -> rand::distr::Iter<Self, R, [F; 3]>\n    where\n        R: Rng,\n        Self: Sized,\n    {\n        rand::distr::Distribution::<[F; 3]>::sample_iter(&self, rng);\n        unimplemented!()\n    }\n    fn sample<R: Rng + ?Sized>(&self, rng: &mut R) -> [F; 3] {")]),
    # ------------------------------------------------------------------ C06
    dict(property="C06", name="norm_x_entry", expect="area", what="one ZIG_NORM_X entry perturbed by 3e-7 relative",
         edits=[("src/ziggurat_tables.rs", "2.610910518487548515,", "2.610911318487548515,")]),
    dict(property="C06", name="exp_x_entry", expect="area", what="one ZIG_EXP_X entry perturbed",
         edits=[("src/ziggurat_tables.rs", "6.941033629377212577,", "6.941034629377212577,")]),
    dict(property="C06", name="norm_r", expect="tail", what="ZIG_NORM_R perturbed (tail start no longer X[1])",
         edits=[("src/ziggurat_tables.rs", "pub const ZIG_NORM_R: f64 = 3.654152885361008796;", "pub const ZIG_NORM_R: f64 = 3.654162885361008796;")]),
    dict(property="C06", name="exp_tables_swapped", expect="pair", what="X/F arguments swapped at the Exp1 call site",
         edits=[("src/exponential.rs", "            &ziggurat_tables::ZIG_EXP_X,\n            &ziggurat_tables::ZIG_EXP_F,", "            &ziggurat_tables::ZIG_EXP_F,\n            &ziggurat_tables::ZIG_EXP_X,")]),
    dict(property="C06", name="symmetric_flipped", expect="symmetric", what="symmetric flag false for the normal",
         edits=[("src/normal.rs", "            true, // this is symmetric", "            false,")]),
    dict(property="C06", name="exp_r_in_normal_tail", expect="tail", what="ZIG_EXP_R used in the normal tail",
         edits=[("src/normal.rs", "                x - ziggurat_tables::ZIG_NORM_R\n", "                x - ziggurat_tables::ZIG_EXP_R\n")]),
    dict(property="C06", name="normal_pdf_wrong", expect="pdf", what="normal pdf without the 1/2",
         edits=[("src/normal.rs", "            (-x * x / 2.0).exp()", "            (-x * x).exp()")]),
    dict(property="C06", name="f_entry", expect="density", what="one ZIG_NORM_F entry perturbed by 1e-9",
         edits=[("src/ziggurat_tables.rs", "0.011842757857943104,", "0.011849757857943104,")]),
    # ------------------------------------------------------------------ C15
    dict(property="C15", name="skip_field", expect="attributes", what="serde(skip) + default on Beta::switched_params",
         edits=[("src/beta.rs", "    switched_params: bool,\n", "    #[cfg_attr(feature = \"serde\", serde(skip))]\n    switched_params: bool,\n")]),
    dict(property="C15", name="rename_serialize", expect="attributes", what="rename(serialize = ..) on GammaSmallShape::inv_shape",
         edits=[("src/gamma.rs", "    inv_shape: F,\n    large_shape: GammaLargeShape<F>,", "    #[cfg_attr(feature = \"serde\", serde(rename(serialize = \"inv\")))]\n    inv_shape: F,\n    large_shape: GammaLargeShape<F>,")]),
    dict(property="C15", name="default_field", expect="attributes", what="serde(default) on Binomial-like flag Beta::switched_params (a missing field silently becomes false)",
         edits=[("src/beta.rs", "    switched_params: bool,\n", "    #[cfg_attr(feature = \"serde\", serde(default))]\n    switched_params: bool,\n")]),
    dict(property="C15", name="handwritten_serialize", expect="pairing", what="hand-written Serialize for UnitDisc next to a derived Deserialize",
         edits=[("src/unit_disc.rs", "#[cfg_attr(feature = \"serde\", derive(serde::Serialize, serde::Deserialize))]\npub struct UnitDisc;",
                 "#[cfg_attr(feature = \"serde\", derive(serde::Deserialize))]\npub struct UnitDisc;\n#[cfg(feature = \"serde\")]\nimpl serde::Serialize for UnitDisc {\n    fn serialize<S: serde::Serializer>(&self, s: S) -> Result<S::Ok, S::Error> {\n        s.serialize_unit_struct(\"UnitDisk\")\n    }\n}")]),
]
MUTATIONS = [m for m in MUTATIONS if m["edits"]]
