"""Mutation catalogue (DESIGN.md Appendix B).  Every entry compiles and passes the pinned 161 tests, but breaks
the named clause; `expect` is a substring of the alarm line that must name the broken instance."""

MUTATIONS = [
    # ------------------------------------------------------------------ C14
    dict(property="C14", name="atomic_counter", expect="atomic",
         what="a global AtomicU64 call counter read in UnitDisc::sample",
         edits=[("src/unit_disc.rs",
                 "        let uniform = Uniform::new(F::from(-1.).unwrap(), F::from(1.).unwrap()).unwrap();\n        let mut x1;",
                 "        static CALLS: core::sync::atomic::AtomicU64 = core::sync::atomic::AtomicU64::new(0);\n"
                 "        let n = CALLS.fetch_add(1, core::sync::atomic::Ordering::Relaxed);\n"
                 "        let uniform = Uniform::new(F::from(-1.).unwrap(), F::from(if n == u64::MAX { 0.5 } else { 1. }).unwrap()).unwrap();\n        let mut x1;")]),
    dict(property="C14", name="cell_spare", expect="interior mutability",
         what="a sampling counter kept in a Cell field of Cauchy (Copy derive dropped)",
         edits=[("src/cauchy.rs", "#[derive(Clone, Copy, Debug, PartialEq)]\n#[cfg_attr(feature = \"serde\", derive(serde::Serialize, serde::Deserialize))]\npub struct Cauchy<F>",
                 "#[derive(Clone, Debug, PartialEq)]\npub struct Cauchy<F>"),
                ("src/cauchy.rs", "    median: F,\n    scale: F,\n}", "    median: F,\n    scale: F,\n    spare: core::cell::Cell<u32>,\n}"),
                ("src/cauchy.rs", "        Ok(Cauchy { median, scale })", "        Ok(Cauchy { median, scale, spare: core::cell::Cell::new(0) })"),
                ("src/cauchy.rs", "        let x = StandardUniform.sample(rng);\n        // get standard cauchy", "        self.spare.set(self.spare.get().wrapping_add(1));\n        let x = StandardUniform.sample(rng);\n        // get standard cauchy")]),
    dict(property="C14", name="thread_local_spare", expect="effects",
         what="a thread_local! spare variate consulted in UnitCircle::sample (needs std)",
         edits=[("src/unit_circle.rs", "        let uniform = Uniform::new(F::from(-1.).unwrap(), F::from(1.).unwrap()).unwrap();\n        let mut x1;\n        let mut x2;\n        let mut sum;",
                 "        #[cfg(feature = \"std\")]\n        {\n            extern crate std;\n            std::thread_local! { static LAST: core::cell::Cell<u8> = const { core::cell::Cell::new(0) }; }\n            LAST.with(|l| l.set(l.get().wrapping_add(1)));\n        }\n        let uniform = Uniform::new(F::from(-1.).unwrap(), F::from(1.).unwrap()).unwrap();\n        let mut x1;\n        let mut x2;\n        let mut sum;")]),
    dict(property="C14", name="custom_clone", expect="clone-eq",
         what="hand-written Clone for WeightedAliasIndex that resets a field",
         edits=[("src/weighted/weighted_alias.rs", "            no_alias_odds: self.no_alias_odds.clone(),", "            no_alias_odds: self.aliases.iter().map(|_| W::ZERO).collect(),")]),
    dict(property="C14", name="sample_iter_override", expect="dist-impl",
         what="UnitBall overrides Distribution::sample_iter",
         edits=[("src/unit_ball.rs", "    fn sample<R: Rng + ?Sized>(&self, rng: &mut R) -> [F; 3] {", "    fn sample_iter<R>(self, rng: R) -> rand::distr::Iter<Self, R, [F; 3]>\n    where\n        R: Rng,\n        Self: Sized,\n    {\n        rand::distr::Distribution::<[F; 3]>::sample_iter(&self, rng);\n        unimplemented!()\n    }\n    fn sample<R: Rng + ?Sized>(&self, rng: &mut R) -> [F; 3] {")]),
]
MUTATIONS = [m for m in MUTATIONS if m["edits"]]
