#!/usr/bin/env python3
"""Regenerate selftest/patches/<Cxx>/<name>.diff + .json from the declarative list in mutations.py
(each mutation = textual replacements on /repo's files; the diff is what is stored and applied)."""
import difflib
import json
import os
import sys

HERE = os.path.dirname(os.path.abspath(__file__))
sys.path.insert(0, HERE)
from mutations import MUTATIONS  # noqa: E402

only = sys.argv[1:]
for m in MUTATIONS:
    pid, name = m["property"], m["name"]
    if only and pid not in only and name not in only:
        continue
    out = []
    for f, old, new in m["edits"]:
        p = os.path.join(os.environ.get("SELFTEST_SRC", "/repo"), f)
        src = open(p).read()
        if src.count(old) != 1:
            print("!! %s/%s: pattern occurs %d times in %s" % (pid, name, src.count(old), f))
            break
        dst = src.replace(old, new)
        out += list(difflib.unified_diff(src.splitlines(True), dst.splitlines(True), "a/" + f, "b/" + f))
    else:
        d = os.path.join(HERE, "patches", pid)
        os.makedirs(d, exist_ok=True)
        open(os.path.join(d, name + ".diff"), "w").write("".join(out))
        json.dump({"property": pid, "expect": m.get("expect", ""), "what": m.get("what", "")},
                  open(os.path.join(d, name + ".json"), "w"), indent=1)
        print("wrote", pid, name)
